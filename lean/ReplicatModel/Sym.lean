import ReplicatModel.Basic
import ReplicatModel.Generated
/-!
# Symbolic model of the repository format, its writer and its reader  (C04, C05, C14)

Ideal cryptography as a *term algebra* (DESIGN.md §4): hash, MAC, KDF and AEAD are free constructors, hence injective, and
`dec k c` succeeds exactly on terms built by `enc k _ _`.  Nothing here is a Lean axiom.

Writer side mirrors `Repository._chunk_digest_to_location_parts`, `_snapshot_digest_to_location_parts`, `_chunk_producer`
(chunk encryption), `_encrypt_snapshot_body`, `_make_key`/`init`/`_add_key`; reader side mirrors `_download_chunk` (restore),
`_load_snapshots._download_snapshot`, `_download_snapshot_threadsafe`, `_decrypt_snapshot_body`, `_instantiate_key`, and the
file-selection / reference plan of `restore`.  Which guards exist, how many MAC layers a name has, which key a ciphertext is
under … are the *generated* `Replicat.Gen.*` definitions (tools/sections/14_format.py).

Second part: `base64` on byte lists, the `{"!b": …}` JSON hint (`utils.type_hint` / `type_reverse`) and the legacy timestamp
fallback of `restore_metadata`.
-/
deriving instance DecidableEq for Except

namespace Replicat.Sym

/-- byte strings as symbolic terms -/
inductive Term where
  | pub (n : Nat)      -- public constant: algorithm settings, labels, numbers, adversarial garbage
  | sec (n : Nat)      -- secret input atom: file bytes, path, metadata, note, password
  | nonce (n : Nat)    -- fresh `os.urandom` value used in the clear (AEAD nonce, user-KDF salt)
  | key (n : Nat)      -- fresh `os.urandom` value kept secret (shared key, MAC key, chunker key, shared-KDF salt)
  | nil
  | pair (a b : Term)
  | hash (t : Term)
  | mac (k t : Term)
  | kdf (k s c : Term)
  | enc (k n t : Term)
  deriving DecidableEq, Repr, Inhabited

open Term (pub sec nonce key nil pair mac kdf enc)

/-- `Public t`: publishing `t` exposes no secret atom to an observer who holds no key.  Closed under everything a Dolev–Yao
observer can do (see `DY` and `analz_public` in Properties/C05.lean). -/
def Public : Term → Bool
  | pub _ => true
  | sec _ => false
  | nonce _ => true
  | key _ => false
  | nil => true
  | pair a b => Public a && Public b
  | .hash t => Public t
  | mac k t => !Public k || Public t
  | kdf k s c => Public k && Public s && Public c
  | enc k n t => Public n && (!Public k || Public t)

/-! ## keys and settings -/

/-- the private section of a key: secrets shared inside a key family -/
structure Shared where
  cfg : Term            -- settings of the shared KDF and of the MAC (algorithm names / lengths)
  sharedKey : Term
  sharedParams : Term   -- salt of the shared KDF
  macKey : Term
  chunkerKey : Term
  deriving DecidableEq, Repr, Inhabited

/-- `RepositoryProps` after `unlock` -/
structure Props where
  encrypted : Bool
  userKey : Term
  sh : Shared
  deriving DecidableEq, Repr, Inhabited

/-- `depth` nested MACs under one key -/
def macN (k : Term) : Nat → Term → Term
  | 0, t => t
  | n + 1, t => mac k (macN k n t)

/-- `props.hash_digest` -/
def digest (c : Term) : Term := Term.hash c

/-- `props.derive_shared_subkey(ctx)` -/
def subKey (p : Props) (ctx : Term) : Term := kdf p.sh.sharedKey p.sh.sharedParams ctx

/-- `SlowKdf(password, salt)` -/
def userKeyOf (pw salt : Term) : Term := kdf pw salt nil

/-! ## locations -/
def configLoc : Term := pub 0
def prefixChunk : Term := pub 1
def prefixSnap : Term := pub 2
def prefixKey : Term := pub 3
/-- key files are not stored on the backend; they are emitted (stdout / key file) and an observer may see them -/
def keyLoc (i : Nat) : Term := pair prefixKey (pub i)

def chunkName (p : Props) (d : Term) : Term := if p.encrypted then macN p.sh.macKey Gen.chunkNameMacDepth d else d
def chunkTag (p : Props) (d : Term) : Term := if p.encrypted then macN p.sh.macKey Gen.chunkTagMacDepth d else d
def chunkLoc (p : Props) (d : Term) : Term := pair prefixChunk (pair (chunkTag p d) (chunkName p d))

def snapshotName (stored : Term) : Term := Term.hash stored
def snapshotTag (p : Props) (name : Term) : Term := if p.encrypted then macN p.sh.macKey Gen.snapTagMacDepth name else name
def snapLoc (p : Props) (name : Term) : Term := pair prefixSnap (pair (snapshotTag p name) name)

/-! ## writer -/

/-- what `_chunk_producer` uploads for plaintext chunk `c` (nonce `n`) -/
def chunkObject (p : Props) (n c : Term) : Term :=
  if p.encrypted then enc (subKey p (if Gen.chunkWriteKeyFromDigest then digest c else nil)) n c else c

/-- `_encrypt_snapshot_body`: `{chunks: enc(subkey(hash(dataEnc)), table), data: dataEnc = enc(userKey, data)}` -/
def snapshotStored (p : Props) (n1 n2 table data : Term) : Term :=
  if p.encrypted then
    pair (enc (subKey p (Term.hash (enc p.userKey n1 data))) n2 table) (enc p.userKey n1 data)
  else pair table data

def privateTerm (sh : Shared) : Term :=
  pair sh.cfg (pair sh.sharedKey (pair sh.sharedParams (pair sh.macKey (pair sh.chunkerKey nil))))

/-- `{kdf, kdf_params, private}` with the private section encrypted under the password-derived key -/
def keyFile (kdfcfg salt pw : Term) (sh : Shared) (n : Term) : Term :=
  pair kdfcfg (pair salt (enc (userKeyOf pw salt) n (privateTerm sh)))

/-! ## snapshot body as data -/
structure Ref where
  index : Nat
  counter : Nat
  lo : Nat
  hi : Nat
  deriving DecidableEq, Repr, Inhabited

structure FileRec where
  path : Term
  refs : List Ref
  digest : Term
  md : Term
  deriving DecidableEq, Repr, Inhabited

structure Data where
  ts : Nat            -- rank of `utc_timestamp` (compared as a string by the code)
  files : List FileRec
  note : Term
  deriving DecidableEq, Repr, Inhabited

def encList {α : Type} (f : α → Term) : List α → Term
  | [] => nil
  | a :: as => pair (f a) (encList f as)

def decList {α : Type} (f : Term → Option α) : Term → Option (List α)
  | nil => some []
  | pair a b =>
    match f a, decList f b with
    | some x, some xs => some (x :: xs)
    | _, _ => none
  | _ => none

def decNat : Term → Option Nat
  | pub n => some n
  | _ => none

def encRef (r : Ref) : Term := pair (pub r.index) (pair (pub r.counter) (pair (pub r.lo) (pub r.hi)))
def decRef : Term → Option Ref
  | pair (pub i) (pair (pub c) (pair (pub l) (pub h))) => some ⟨i, c, l, h⟩
  | _ => none

def encFile (f : FileRec) : Term := pair f.path (pair (encList encRef f.refs) (pair f.digest f.md))
def decFile : Term → Option FileRec
  | pair p (pair rs (pair d m)) =>
    match decList decRef rs with
    | some refs => some ⟨p, refs, d, m⟩
    | none => none
  | _ => none

def encData (d : Data) : Term := pair (pub d.ts) (pair (encList encFile d.files) d.note)
def decData : Term → Option Data
  | pair (pub ts) (pair fs note) =>
    match decList decFile fs with
    | some files => some ⟨ts, files, note⟩
    | none => none
  | _ => none

def encTable (table : List Term) : Term := encList id table
def decTable (t : Term) : Option (List Term) := decList some t

/-! ## reader -/
inductive Err where
  | decryption   -- `DecryptionError` (authentication failed)
  | corrupted    -- `ReplicatError('… is corrupted')`
  | missing      -- object absent on the backend
  | malformed    -- deserialisation / index error
  deriving DecidableEq, Repr, Inhabited

/-- AEAD decryption: succeeds exactly on ciphertexts produced under the same key -/
def dec (k c : Term) : Option Term :=
  match c with
  | enc k' _ m => if k' = k then some m else none
  | _ => none

/-- `_download_chunk` after the download: decrypt under the key derived from the EXPECTED digest, re-hash, compare -/
def verifyChunk (p : Props) (d obj : Term) : Except Err Term :=
  let plain : Except Err Term :=
    if p.encrypted then
      match dec (subKey p (if Gen.chunkReadKeyFromDigest then d else nil)) obj with
      | some m => .ok m
      | none => .error .decryption
    else .ok obj
  match plain with
  | .error e => .error e
  | .ok m => if Gen.chunkDigestVerified && decide (digest m ≠ d) then .error .corrupted else .ok m

/-- `verifyChunk` with the digest comparison removed (used only for the non-vacuity witness of C04) -/
def verifyChunkNoDigest (p : Props) (d obj : Term) : Except Err Term :=
  if p.encrypted then
    match dec (subKey p d) obj with
    | some m => .ok m
    | none => .error .decryption
  else .ok obj

/-- `_decrypt_snapshot_body` -/
def decryptBody (p : Props) (stored : Term) : Except Err (List Term × Option Data) :=
  match stored with
  | pair c d =>
    if p.encrypted then
      match dec (subKey p (Term.hash d)) c with
      | none => .error .decryption
      | some tt =>
        match decTable tt with
        | none => .error .malformed
        | some table =>
          match dec p.userKey d with
          | none => if Gen.snapForeignDataTolerated then .ok (table, none) else .error .decryption
          | some dd =>
            match decData dd with
            | none => .error .malformed
            | some data => .ok (table, some data)
    else
      match decTable c, decData d with
      | some table, some data => .ok (table, some data)
      | _, _ => .error .malformed
  | _ => .error .malformed

/-- `_download_snapshot` + `_download_snapshot_threadsafe` (no cache): tag check first (`none` = skipped), then the digest of
the stored bytes against the name, then decryption -/
def loadSnapshot (p : Props) (tag name stored : Term) : Except Err (Option (List Term × Option Data)) :=
  if Gen.snapTagChecked && p.encrypted && decide (snapshotTag p name ≠ tag) then .ok none
  else if Gen.snapDigestVerified && decide (Term.hash stored ≠ name) then .error .corrupted
  else
    match decryptBody p stored with
    | .error e => .error e
    | .ok r => .ok (some r)

def decPrivate : Term → Option Shared
  | pair cfg (pair sk (pair sp (pair mk (pair ck nil)))) => some ⟨cfg, sk, sp, mk, ck⟩
  | _ => none

/-- `_instantiate_key` on a serialized key with password `pw` -/
def unlock (kf pw : Term) : Except Err (Term × Shared) :=
  match kf with
  | pair _ (pair salt priv) =>
    match dec (userKeyOf pw salt) priv with
    | none => .error .decryption
    | some t =>
      match decPrivate t with
      | none => .error .malformed
      | some sh => .ok (userKeyOf pw salt, sh)
  | _ => .error .malformed

/-! ## restore against an arbitrary (adversarial) object map -/
abbrev Store := List (Term × Term)

def lookup (s : Store) (loc : Term) : Option Term :=
  match s with
  | [] => none
  | e :: rest => if e.1 = loc then some e.2 else lookup rest loc

def fetchChunk (p : Props) (s : Store) (d : Term) : Except Err Term :=
  match lookup s (chunkLoc p d) with
  | none => .error .missing
  | some obj => verifyChunk p d obj

def refLE (a b : Ref) : Bool := a.counter ≤ b.counter

/-- stable insertion sort (Python's `sorted` is stable; structural recursion so that the kernel can evaluate it) -/
def insertBy {α : Type} (le : α → α → Bool) (a : α) : List α → List α
  | [] => [a]
  | b :: bs => if le a b then a :: b :: bs else b :: insertBy le a bs

def isort {α : Type} (le : α → α → Bool) : List α → List α
  | [] => []
  | a :: as => insertBy le a (isort le as)

/-- one written range: (chunk plaintext, lo, hi) -/
abbrev Part := Term × Nat × Nat

/-- the reference plan of one file: every referenced chunk is fetched and verified -/
def restoreParts (fetch : Term → Except Err Term) (table : List Term) : List Ref → Except Err (List Part)
  | [] => .ok []
  | r :: rs =>
    match table[r.index]? with
    | none => .error .malformed
    | some d =>
      match fetch d with
      | .error e => .error e
      | .ok m =>
        match restoreParts fetch table rs with
        | .error e => .error e
        | .ok ps => .ok ((m, r.lo, r.hi) :: ps)

def restoreFiles (fetch : Term → Except Err Term) : List (List Term × FileRec) → Except Err (List (Term × List Part))
  | [] => .ok []
  | (table, f) :: rest =>
    match restoreParts fetch table (isort refLE f.refs) with
    | .error e => .error e
    | .ok ps =>
      match restoreFiles fetch rest with
      | .error e => .error e
      | .ok out => .ok ((f.path, ps) :: out)

/-- the snapshot area of a store: `(tag, name, object)` -/
def snapEntries (s : Store) : List (Term × Term × Term) :=
  s.filterMap fun e =>
    match e.1 with
    | pair pre (pair tag name) => if pre = prefixSnap then some (tag, name, e.2) else none
    | _ => none

/-- `_load_snapshots(snapshot_regex = <name>)`: entries with another name are skipped before any download; an error of a
selected entry aborts the command; bodies whose data cannot be read (`data = None`) are dropped by restore -/
def loadAll (p : Props) (target : Term) : List (Term × Term × Term) → Except Err (List (List Term × Data))
  | [] => .ok []
  | (tag, name, obj) :: rest =>
    if name ≠ target then loadAll p target rest
    else
      match loadSnapshot p tag name obj with
      | .error e => .error e
      | .ok r =>
        match loadAll p target rest with
        | .error e => .error e
        | .ok bs =>
          match r with
          | some (table, some data) => .ok ((table, data) :: bs)
          | _ => .ok bs

/-- `if file_path in files_digests: continue` — the first (newest) occurrence of a path wins -/
def selectFiles : List (List Term × Data) → List Term → List (List Term × FileRec)
  | [], _ => []
  | (table, data) :: rest, seen =>
    let step := data.files.foldl
      (fun (acc : List (List Term × FileRec) × List Term) f =>
        if acc.2.contains f.path then acc else (acc.1 ++ [(table, f)], acc.2 ++ [f.path])) ([], seen)
    step.1 ++ selectFiles rest step.2

def newestFirst (a b : List Term × Data) : Bool := b.2.ts ≤ a.2.ts

/-- `restore(snapshot_regex = <name>)` on the object map `s` -/
def restore (p : Props) (s : Store) (target : Term) : Except Err (List (Term × List Part)) :=
  match loadAll p target (snapEntries s) with
  | .error e => .error e
  | .ok bodies => restoreFiles (fetchChunk p s) (selectFiles (isort newestFirst bodies) [])

/-- what the captured snapshot says file `f` consists of, given the plaintext chunks `contents` (by table index) -/
def honestParts (contents : List Term) : List Ref → Option (List Part)
  | [] => some []
  | r :: rs =>
    match contents[r.index]?, honestParts contents rs with
    | some c, some ps => some ((c, r.lo, r.hi) :: ps)
    | _, _ => none

/-! ## histories: everything replicat emits -/
structure User where
  kdfcfg : Term
  pw : Term
  salt : Term
  sh : Shared
  deriving DecidableEq, Repr, Inhabited

def User.props (encrypted : Bool) (u : User) : Props := ⟨encrypted, userKeyOf u.pw u.salt, u.sh⟩

structure St where
  next : Nat                      -- fresh-value supply (`os.urandom` call counter)
  encrypted : Bool
  users : List User
  store : Store                   -- objects currently on the backend
  log : List (Term × Term)        -- everything ever emitted: backend uploads and key files (name, content)
  uses : List (Term × Term)       -- (key, nonce) of every AEAD encryption performed (uploaded or not)
  deriving Repr, Inhabited

structure InitArgs where
  encrypted : Bool
  cfg : Term      -- repository config (algorithm settings)
  kdfcfg : Term   -- user KDF settings
  shcfg : Term    -- shared KDF / MAC settings
  pw : Term
  deriving Repr, Inhabited

inductive Op where
  | addKey (base : Nat) (shared : Bool) (kdfcfg shcfg pw : Term)
  | snapshot (user : Nat) (chunks : List Term) (data : Data)
  | remove (locs : List Term)      -- delete / clean (and any other removal): no upload at all
  deriving Repr, Inhabited

/-- `_make_key(private=None)`: four secrets, then the user-KDF salt; then the nonce of the private-section encryption -/
def freshShared (shcfg : Term) (k : Nat) : Shared := ⟨shcfg, key k, key (k + 1), key (k + 2), key (k + 3)⟩

def noShared : Shared := ⟨nil, nil, nil, nil, nil⟩

def initSt (a : InitArgs) : St :=
  if a.encrypted then
    let sh := freshShared a.shcfg 0
    let salt := nonce 4
    let n := nonce 5
    { next := 6, encrypted := true, users := [⟨a.kdfcfg, a.pw, salt, sh⟩],
      store := [(configLoc, a.cfg)],
      log := [(keyLoc 0, keyFile a.kdfcfg salt a.pw sh n), (configLoc, a.cfg)],
      uses := [(userKeyOf a.pw salt, n)] }
  else
    { next := 0, encrypted := false, users := [⟨nil, nil, nil, noShared⟩],
      store := [(configLoc, a.cfg)], log := [(configLoc, a.cfg)], uses := [] }

/-- `dict`-style first-occurrence de-duplication (the chunk table) -/
def dedup : List Term → List Term → List Term
  | [], acc => acc
  | d :: ds, acc => if acc.contains d then dedup ds acc else dedup ds (acc ++ [d])

/-- the chunk producer + one upload worker: every chunk is hashed and (if encrypted) encrypted with a fresh nonce; it is
uploaded only if nothing is stored at its location -/
def putChunk (p : Props) (s : St) (c : Term) : St :=
  let d := digest c
  let loc := chunkLoc p d
  let obj := chunkObject p (nonce s.next) c
  let s1 : St := if p.encrypted then
      { s with next := s.next + 1, uses := s.uses ++ [(subKey p (if Gen.chunkWriteKeyFromDigest then d else nil), nonce s.next)] }
    else s
  match lookup s1.store loc with
  | some _ => s1
  | none => { s1 with store := s1.store ++ [(loc, obj)], log := s1.log ++ [(loc, obj)] }

def step (s : St) : Op → St
  | .addKey base shared kdfcfg shcfg pw =>
    if !s.encrypted then s
    else
      match s.users[base]? with
      | none => s
      | some b =>
        let (sh, k) := if shared then (b.sh, s.next) else (freshShared shcfg s.next, s.next + 4)
        let salt := nonce k
        let n := nonce (k + 1)
        { s with next := k + 2, users := s.users ++ [⟨kdfcfg, pw, salt, sh⟩],
                 log := s.log ++ [(keyLoc s.users.length, keyFile kdfcfg salt pw sh n)],
                 uses := s.uses ++ [(userKeyOf pw salt, n)] }
  | .snapshot user chunks data =>
    match s.users[user]? with
    | none => s
    | some u =>
      let p := u.props s.encrypted
      let s1 := chunks.foldl (putChunk p) s
      let table := encTable (dedup (chunks.map digest) [])
      let n1 := nonce s1.next
      let n2 := nonce (s1.next + 1)
      let stored := snapshotStored p n1 n2 table (encData data)
      let loc := snapLoc p (snapshotName stored)
      let s2 : St := if s.encrypted then
          { s1 with next := s1.next + 2,
                    uses := s1.uses ++ [(p.userKey, n1), (subKey p (Term.hash (enc p.userKey n1 (encData data))), n2)] }
        else s1
      { s2 with store := s2.store.filter (fun e => e.1 ≠ loc) ++ [(loc, stored)], log := s2.log ++ [(loc, stored)] }
  | .remove locs => { s with store := s.store.filter (fun e => !locs.contains e.1) }

def run (a : InitArgs) (ops : List Op) : St := ops.foldl step (initSt a)

/-- everything an observer of the backend (and of the emitted key files) ever sees -/
def written (a : InitArgs) (ops : List Op) : List (Term × Term) := (run a ops).log

/-! ## commands as issued by a CLIENT: the client's view of the repository

Every command is issued by a client (one `Repository` object) whose `unlock` — or the config lookup of `add_key` — concluded
what `RepositoryProps.encrypted` is from the bytes it parsed as "the config".  `run` takes that view to be the repository's own
flag.  `runView` does not: each command carries the view the client REALLY had (any client-side state — cache directory,
earlier repositories used on the same machine, an earlier incarnation of a re-initialised location — may have produced it);
the repository's own flag, its users and its objects are untouched by the view. -/

/-- one command issued by a client that believes `encrypted = view` -/
def stepView (s : St) (view : Bool) (op : Op) : St :=
  { step { s with encrypted := view } op with encrypted := s.encrypted }

def runView (a : InitArgs) (ops : List (Bool × Op)) : St := ops.foldl (fun s vo => stepView s vo.1 vo.2) (initSt a)

/-- everything emitted by a history of client commands -/
def writtenView (a : InitArgs) (ops : List (Bool × Op)) : List (Term × Term) := (runView a ops).log

/-! ## shapes of names -/
def isMac : Term → Bool
  | mac _ _ => true
  | _ => false

def isHash : Term → Bool
  | .hash _ => true
  | _ => false

/-- config, key file `i`, `data/<mac>/<mac>`, `snapshots/<mac>/<hash of the stored ciphertext>` -/
def nameKeyed (t : Term) : Bool :=
  match t with
  | pub _ => t = configLoc
  | pair pre rest =>
    if pre = prefixKey then (match rest with | pub _ => true | _ => false)
    else match rest with
      | pair tag name =>
        if pre = prefixChunk then isMac tag && isMac name
        else if pre = prefixSnap then isMac tag && isHash name
        else false
      | _ => false
  | _ => false

end Replicat.Sym

/-! # Serialisation details (C14): base64, the JSON byte-string hint, legacy timestamps -/
namespace Replicat.B64

/-- sextet → ASCII code of the standard alphabet -/
def encSextet (n : Nat) : Nat :=
  if n < 26 then 65 + n else if n < 52 then 97 + (n - 26) else if n < 62 then 48 + (n - 52) else if n = 62 then 43 else 47

def decSextet (c : Nat) : Option Nat :=
  if 65 ≤ c ∧ c ≤ 90 then some (c - 65)
  else if 97 ≤ c ∧ c ≤ 122 then some (c - 97 + 26)
  else if 48 ≤ c ∧ c ≤ 57 then some (c - 48 + 52)
  else if c = 43 then some 62
  else if c = 47 then some 63
  else none

/-- ASCII `=` -/
def padChar : Nat := 61

/-- `base64.standard_b64encode` as a list of ASCII codes -/
def encode : List UInt8 → List Nat
  | [] => []
  | [a] => [encSextet (a.toNat / 4), encSextet (a.toNat % 4 * 16), padChar, padChar]
  | [a, b] => [encSextet (a.toNat / 4), encSextet (a.toNat % 4 * 16 + b.toNat / 16), encSextet (b.toNat % 16 * 4), padChar]
  | a :: b :: c :: rest =>
    encSextet (a.toNat / 4) :: encSextet (a.toNat % 4 * 16 + b.toNat / 16)
      :: encSextet (b.toNat % 16 * 4 + c.toNat / 64) :: encSextet (c.toNat % 64) :: encode rest

/-- strict decoder of canonical base64 text (`none`: not canonical text — outside what replicat writes) -/
def decode : List Nat → Option (List UInt8)
  | [] => some []
  | w :: x :: y :: z :: rest =>
    match decSextet w, decSextet x with
    | some p, some q =>
      if y = padChar ∧ z = padChar ∧ rest = [] then some [UInt8.ofNat (p * 4 + q / 16)]
      else
        match decSextet y with
        | none => none
        | some r =>
          if z = padChar ∧ rest = [] then some [UInt8.ofNat (p * 4 + q / 16), UInt8.ofNat (q % 16 * 16 + r / 4)]
          else
            match decSextet z, decode rest with
            | some t, some bs =>
              some (UInt8.ofNat (p * 4 + q / 16) :: UInt8.ofNat (q % 16 * 16 + r / 4) :: UInt8.ofNat (r % 4 * 64 + t) :: bs)
            | _, _ => none
    | _, _ => none
  | _ => none

end Replicat.B64

namespace Replicat.Sym

/-- the fragment of JSON values the hint mechanism distinguishes -/
inductive JVal where
  | str (s : List Nat)              -- a JSON string (ASCII codes)
  | bytes (b : Bytes)               -- a Python `bytes` value
  | obj1 (k : String) (v : JVal)    -- an object with exactly one member
  | objN (id : Nat)                 -- any object with zero or ≥ 2 members
  | other (id : Nat)                -- numbers, lists, booleans, null
  deriving Repr, Inhabited

/-- `utils.type_hint` -/
def typeHint (b : Bytes) : JVal := .obj1 Gen.bytesHintKey (.str (B64.encode b))

/-- `utils.type_reverse` as `object_hook` (`none` = the base64 text is not canonical) -/
def typeReverse (v : JVal) : Option JVal :=
  match v with
  | .obj1 k (.str s) =>
    if k = Gen.bytesHintKey then (B64.decode s).map .bytes else some v
  | _ => some v

/-- file metadata as stored in a snapshot: key → value id -/
abbrev Meta := List (String × Nat)

def Meta.get (m : Meta) (k : String) : Option Nat :=
  match m with
  | [] => none
  | e :: rest => if e.1 = k then some e.2 else Meta.get rest k

inductive Utime where
  | ns (atime mtime : Nat)       -- `os.utime(path, ns=(…))`
  | times (atime mtime : Nat)    -- `os.utime(path, times=(…))`  (pre-1.3 snapshots)
  | keyError
  deriving DecidableEq, Repr, Inhabited

def getAll (m : Meta) : List String → Option (List Nat)
  | [] => some []
  | k :: ks =>
    match m.get k, getAll m ks with
    | some v, some vs => some (v :: vs)
    | _, _ => none

/-- `Repository.restore_metadata` -/
def restoreTimes (m : Meta) : Utime :=
  match getAll m Gen.metaNsKeys with
  | some [a, t] => .ns a t
  | some _ => .keyError
  | none =>
    if Gen.metaFallbackOnKeyError then
      match getAll m Gen.metaLegacyKeys with
      | some [a, t] => .times a t
      | _ => .keyError
    else .keyError

end Replicat.Sym

/-! # Histories and what a restore returns after them (C14 history-level theorems, also C04)

`restoreMd` is `restore` that also reports the metadata record handed to `restore_metadata` for every file; `loadBodies` is
what `_load_snapshots(snapshot_regex = <name>)` yields (a listing sees bodies whose private data it cannot read as
`data = None`); `Taken` / `runT` record, next to `run`, what every snapshot command captured; `wfHist` is the well-formedness of
a history the theorems need: file lists are path-unique with references inside the chunk table (what `snapshot` produces), and a
removal never takes a chunk of a snapshot it leaves behind (what `delete` / `clean` guarantee, C02 / C08). -/
namespace Replicat.Sym
open Term (pub sec nonce key nil pair mac kdf enc)

/-- one restored file: path, the written ranges in counter order, the metadata record applied at the end -/
abbrev Restored := Term × List Part × Term

def restoreFilesMd (fetch : Term → Except Err Term) : List (List Term × FileRec) → Except Err (List Restored)
  | [] => .ok []
  | (table, f) :: rest =>
    match restoreParts fetch table (isort refLE f.refs) with
    | .error e => .error e
    | .ok ps =>
      match restoreFilesMd fetch rest with
      | .error e => .error e
      | .ok out => .ok ((f.path, ps, f.md) :: out)

/-- `restore(snapshot_regex = <name>)` with the metadata of every written file -/
def restoreMd (p : Props) (s : Store) (target : Term) : Except Err (List Restored) :=
  match loadAll p target (snapEntries s) with
  | .error e => .error e
  | .ok bodies => restoreFilesMd (fetchChunk p s) (selectFiles (isort newestFirst bodies) [])

/-- `_load_snapshots(snapshot_regex = <name>)`: every body that loads, `data = none` where the private data is unreadable -/
def loadBodies (p : Props) (target : Term) : List (Term × Term × Term) → Except Err (List (List Term × Option Data))
  | [] => .ok []
  | (tag, name, obj) :: rest =>
    if name ≠ target then loadBodies p target rest
    else
      match loadSnapshot p tag name obj with
      | .error e => .error e
      | .ok r =>
        match loadBodies p target rest with
        | .error e => .error e
        | .ok bs =>
          match r with
          | some b => .ok (b :: bs)
          | none => .ok bs

/-- what one `snapshot` command captured: who took it, the plaintext chunks in stream order, the private data, the nonces -/
structure Taken where
  user : Nat
  p : Props
  chunks : List Term
  data : Data
  n1 : Term
  n2 : Term
  deriving Repr, Inhabited

def Taken.table (t : Taken) : List Term := dedup (t.chunks.map digest) []
/-- the captured plaintexts by table index -/
def Taken.contents (t : Taken) : List Term := dedup t.chunks []
def Taken.stored (t : Taken) : Term := snapshotStored t.p t.n1 t.n2 (encTable t.table) (encData t.data)
def Taken.name (t : Taken) : Term := snapshotName t.stored
def Taken.loc (t : Taken) : Term := snapLoc t.p t.name

/-- the record a command adds (only `snapshot` by an existing key adds one) -/
def takenBy (s : St) : Op → List Taken
  | .snapshot user chunks data =>
    match s.users[user]? with
    | none => []
    | some u =>
      let p := u.props s.encrypted
      let s1 := chunks.foldl (putChunk p) s
      [⟨user, p, chunks, data, nonce s1.next, nonce (s1.next + 1)⟩]
  | _ => []

def nodupB : List Term → Bool
  | [] => true
  | a :: as => !as.contains a && nodupB as

/-- what `snapshot` produces: one record per path, every reference inside the chunk table -/
def dataOk (tableLen : Nat) (d : Data) : Bool :=
  nodupB (d.files.map (·.path)) && d.files.all fun f => f.refs.all fun r => decide (r.index < tableLen)

/-- is the command admissible in state `s` after the snapshots `ts`? -/
def opOk (s : St) (ts : List Taken) : Op → Bool
  | .addKey .. => true
  | .snapshot _ chunks data => dataOk (dedup (chunks.map digest) []).length data
  | .remove locs =>
    -- a snapshot that is present and stays keeps every chunk of its table
    ts.all fun t => (lookup s.store t.loc).isNone || locs.contains t.loc ||
      t.table.all fun d => !locs.contains (chunkLoc t.p d)

def stepT (st : St × List Taken) (op : Op) : St × List Taken := (step st.1 op, st.2 ++ takenBy st.1 op)

/-- `run` together with the record of every snapshot taken -/
def runT (a : InitArgs) (ops : List Op) : St × List Taken := ops.foldl stepT (initSt a, [])

def taken (a : InitArgs) (ops : List Op) : List Taken := (runT a ops).2

def wfFrom (s : St) (ts : List Taken) : List Op → Bool
  | [] => true
  | op :: ops => opOk s ts op && wfFrom (step s op) (ts ++ takenBy s op) ops

/-- well-formed history -/
def wfHist (a : InitArgs) (ops : List Op) : Bool := wfFrom (initSt a) [] ops

/-- what the snapshot says its files consist of: per file the captured ranges of the captured plaintexts in counter order
(`honestParts`) and the metadata record -/
def recordedFiles (contents : List Term) : List FileRec → Option (List Restored)
  | [] => some []
  | f :: fs =>
    match honestParts contents (isort refLE f.refs), recordedFiles contents fs with
    | some ps, some out => some ((f.path, ps, f.md) :: out)
    | _, _ => none

/-- two contents that differ at most in the AEAD nonce (the same plaintext encrypted again under the same key) -/
def sameUpToNonce (x y : Term) : Bool :=
  decide (x = y) ||
  match x, y with
  | enc k _ m, enc k' _ m' => decide (k = k') && decide (m = m')
  | _, _ => false

end Replicat.Sym
