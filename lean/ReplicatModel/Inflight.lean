import ReplicatModel.Layout
/-!
# The snapshot producer as `_chunk_done` sees it WHILE files are still being read  (C14 `inflight_*`)

`Layout.lean` computes the records from the FINAL spans of the files.  The real `_chunk_done` runs on the event loop while the
producer thread is still inside `_stream_files`: `state.files` then holds only the files started so far, and the record of the
file being read ends where the read loop has advanced it to.  A file larger than one read block (`Gen.pieceSize`, the default
of `_stream_files(chunk_size=…)`) is in that state for as long as its later blocks have not been read, while chunks cut from
its earlier blocks are already uploaded and attributed (the chunker adapter looks only one block ahead).

Mirrors `_stream_files` of `Repository.snapshot` as a sequence of events:

    for path in files:
        if prev_file is not None: … yield bytes(padding_length)                 -- `.pad`
        file = _SnapshotFile(stream_start = stream_end = state.bytes_with_padding)
        state.files.append(…)                                                    -- `.start`
        while chunk := source_file.read(chunk_size):
            state.bytes_with_padding += len(chunk)
            file.stream_end += len(chunk)       -- only if `Gen.streamEndAdvancedInReadLoop` (regenerated from the source)
            yield chunk                                                          -- `.read`
        file.digest = …; file.metadata = …                                       -- `.finish`

Offsets only.  `recordsAt` is `Layout.records` with every `_chunk_done` executed on the view of its own moment.
-/
namespace Replicat.Inflight

/-- lengths of the blocks `source_file.read(B)` returns for a file of `n` bytes (`read(0)` returns `b''`: no block at all) -/
def blocksOf (B n : Nat) : List Nat :=
  if B = 0 then [] else List.replicate (n / B) B ++ (if n % B = 0 then [] else [n % B])

inductive Ev
  | start             -- record appended to `state.files`, empty, at the current stream position
  | read (n : Nat)    -- one block read, counted, handed to the chunker
  | finish            -- digest and metadata stored in the record
  | pad (n : Nat)     -- padding of the previous file handed to the chunker
deriving Repr, DecidableEq

/-- what the loop thread can see of the producer: `state.files` as `(stream_start, stream_end)` and `state.bytes_with_padding`
(= the number of stream bytes handed to the chunker so far) -/
structure PState where
  files : List Span
  yielded : Nat
deriving Repr, DecidableEq

/-- `file.stream_end += n` on `state.current_file` (the last record) -/
def bumpLast : List Span → Nat → List Span
  | [], _ => []
  | [f], n => [(f.1, f.2 + n)]
  | f :: g :: rest, n => f :: bumpLast (g :: rest) n

/-- one event; `adv` = is `stream_end` of the record advanced inside the read loop, before the block is yielded? -/
def stepWith (adv : Bool) (s : PState) : Ev → PState
  | .start => ⟨s.files ++ [(s.yielded, s.yielded)], s.yielded⟩
  | .read n => ⟨if adv then bumpLast s.files n else s.files, s.yielded + n⟩
  | .finish => s
  | .pad n => ⟨s.files, s.yielded + n⟩

/-- the step of the code that exists: the shape flag is regenerated from the source of `_stream_files` -/
def step : PState → Ev → PState := stepWith Gen.streamEndAdvancedInReadLoop

/-- one file whose reads return blocks of lengths `bs` -/
def fileEvents (bs : List Nat) : List Ev := Ev.start :: (bs.map Ev.read ++ [Ev.finish])

/-- `prev` = size of the previous file (`state.current_file`), `none` before the first one -/
def eventsFrom (align B : Nat) : Option Nat → List Nat → List Ev
  | _, [] => []
  | prev, n :: rest =>
    (match prev with
      | none => []
      | some m => [Ev.pad (Gen.padding m align)]) ++ fileEvents (blocksOf B n) ++ eventsFrom align B (some n) rest

/-- the producer's events for files of the given sizes (already in streaming order) -/
def events (align B : Nat) (sizes : List Nat) : List Ev := eventsFrom align B none sizes

def runFrom (s : PState) (evs : List Ev) : PState := evs.foldl step s

def run (evs : List Ev) : PState := runFrom ⟨[], 0⟩ evs

/-- the producer after its first `t` events, blocks of `Gen.pieceSize` bytes -/
def stateAt (align : Nat) (sizes : List Nat) (t : Nat) : PState := run ((events align Gen.pieceSize sizes).take t)

/-- does the event hand a (non-empty) piece to the chunker? (`if padding_length:` — empty padding is not yielded) -/
def Ev.yields : Ev → Bool
  | .read n => n != 0
  | .pad n => n != 0
  | _ => false

/-- number of events up to and including the `p`-th yield (all of them when there are fewer yields): the producer is
suspended there when the chunker has received `p` pieces -/
def eventsForYields : Nat → List Ev → Nat
  | 0, _ => 0
  | _, [] => 0
  | p + 1, e :: es => 1 + eventsForYields (if e.yields then p else p + 1) es

/-- a record clipped to what had been read when `y` stream bytes had been handed over -/
def clip (y : Nat) (f : Span) : Span := (f.1, min f.2 (max f.1 y))

/-- the first `k` files of the final layout, clipped at `y` -/
def viewOf (files : List Span) (k y : Nat) : List Span := (files.take k).map (clip y)

/-- the records after the chunks completed in the given order, `_chunk_done (chunk j)` running on `view j` -/
def recordsAt (view : Nat → List Span) (spans : List Span) (order : List Nat) : Records :=
  order.foldl (fun recs j => applyDone (view j) spans recs j) []

/-- a reference that selects at least one byte -/
def nonEmpty (r : Ref) : Bool := decide (r.lo < r.hi)

end Replicat.Inflight
