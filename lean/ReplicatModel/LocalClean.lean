import ReplicatModel.LocalFS
/-!
# The local backend's post-deletion clean-up (`Local.clean` / `Local._find_deletable`) on a directory tree

`Repository.clean` calls `backend.clean()` after it deleted at least one unreferenced chunk.  On `replicat.backends.local.Local`
that is a walk over the WHOLE repository directory — the chunk area, the snapshot area and everything else a user keeps there:

```
def _find_deletable(self, start):            # yields (entry, empty) for every entry below start, children before their parent
    for entry in scandir(start):
        if entry.is_dir():
            empty = True
            for subentry, subempty in self._find_deletable(entry.path):
                yield subentry, subempty
                if not subempty: empty = False
        else:
            empty = False                      # ← Gen.localCleanNonDirFlags
        yield entry, empty
def clean(self):
    for entry, empty in self._find_deletable(self.path):
        if empty: os.rmdir(entry)              # ← Gen.localCleanDirRemovers / Gen.localCleanFileRemovers
```

On the flat table of `LocalFS.lean` (files, directories; the repository directory `[]` is never an entry of the walk):
* the flag of a directory is `true` iff every entry reported below it is flagged, i.e. — non-directories being reported `False` —
  iff no file lies below it (`flagged`);
* the walk is a post-order: an entry is yielded after everything below it.  `plan` lists the flagged directories deepest first,
  which is one such order; `runPlan_postorder` (Lemmas/LocalClean.lean) shows that EVERY post-order gives the same result;
* `os.rmdir` fails on a non-empty directory (ENOTEMPTY), on a file (ENOTDIR) and on a missing path (`rmdir`); an `OSError` is
  retried by `backoff` and finally raised (`Ret.osError`).

The model is valid only for the shape of the code described by three extracted facts (`recognised`): no call that can remove or
rewrite a file is reachable from `Local.clean`, some call removes directories, and an entry that is not a directory is only ever
reported with the constant `False`.  For any other shape it answers `unmodelled` (the theorems of Properties/C08.lean then stop
compiling and the harness reports the tie as broken).
-/
namespace Replicat.LocalClean
open Replicat Replicat.Store Replicat.LocalFS

/-- `p` lies strictly below the directory `d` -/
def below (d p : Path) : Bool := d.isPrefixOf p && decide (d.length < p.length)

def hasFileBelow (fs : FS) (d : Path) : Bool := fs.files.any (fun e => below d e.1)
def hasDirBelow (fs : FS) (d : Path) : Bool := fs.dirs.any (fun p => below d p)

inductive Err
  | notEmpty        -- ENOTEMPTY
  | notADirectory   -- ENOTDIR
  | notFound        -- ENOENT
deriving Repr, DecidableEq

/-- `os.rmdir(d)` -/
def rmdir (fs : FS) (d : Path) : Except Err FS :=
  if d ∈ fs.dirs then
    if hasFileBelow fs d || hasDirBelow fs d then .error .notEmpty
    else .ok { fs with dirs := fs.dirs.filter (fun p => p ≠ d) }
  else if fs.isFile d then .error .notADirectory
  else .error .notFound

/-- the `empty` flag `_find_deletable` yields for the directory `d`, non-directories being reported `False` -/
def flagged (fs : FS) (d : Path) : Bool := !hasFileBelow fs d

/-- insertion into a list ordered deepest first (structural recursion: the kernel can evaluate it) -/
def insertDeeper (d : Path) : List Path → List Path
  | [] => [d]
  | x :: xs => if x.length ≤ d.length then d :: x :: xs else x :: insertDeeper d xs

/-- deeper paths first -/
def sortDeeper (l : List Path) : List Path := l.foldr insertDeeper []

/-- the directories the sweep removes, each once, in an order in which the walk can yield them (everything below a directory
before the directory itself) -/
def plan (fs : FS) : List Path := sortDeeper (dedup (fs.dirs.filter (fun d => d ≠ [] ∧ flagged fs d)))

/-- the loop of `Local.clean`: one `rmdir` per flagged entry, stopping at the first error -/
def runPlan (fs : FS) : List Path → Except Err FS
  | [] => .ok fs
  | d :: l =>
    match rmdir fs d with
    | .ok fs' => runPlan fs' l
    | .error e => .error e

/-- the shape of the code this model describes (all three read from the source by tools/sections/08_localclean.py) -/
def recognised : Bool :=
  Gen.localCleanFileRemovers.isEmpty && !Gen.localCleanDirRemovers.isEmpty && Gen.localCleanNonDirFlags == ["False"]

inductive Ret
  | ok (fs : FS)
  | osError (e : Err)
  | unmodelled
deriving Repr, DecidableEq

/-- `Local.clean()` -/
def clean (fs : FS) : Ret :=
  if recognised then
    match runPlan fs (plan fs) with
    | .ok fs' => .ok fs'
    | .error e => .osError e
  else .unmodelled

/-- what a destructive command does to the directory of a local repository: `Local.delete` of the objects it chose (files;
`unlink(missing_ok=True)`), then — only if there was something to delete — the clean-up -/
def gcOnLocal (fs : FS) (dels : List Path) : Ret :=
  if dels = [] then .ok fs else clean (dels.foldl FS.erase fs)

end Replicat.LocalClean
