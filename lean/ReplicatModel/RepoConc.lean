import ReplicatModel.Repo
/-!
# Concurrent semantics of the non-destructive commands  (C02, C07)

README: "snapshot, restore, list-snapshots, list-files may run concurrently, from one or several processes".
`Repo.lean` runs the upload workers of one snapshot one after the other.  Here the backend calls of ANY number of overlapping
`Repository.snapshot` commands (of any users, each with its own pool of `concurrent` workers) are separate events:

* `exists i c r`  — a worker of command `i` gets the answer `r` of `backend.exists(location of chunk c)`
                    (`_worker`: `exists = await self._exists(chunk.location)`), the OBSERVATION point;
* `upload i n o`  — a worker of command `i` that saw its chunk absent completes `backend.upload_stream(n, o)`.  Between its
                    observation and its upload anything may happen: in particular another worker — of the same command or of
                    another one — may observe the same chunk absent and upload it too;
* `commit i`      — `_upload_data(snapshot location, …)`: only after `asyncio.gather` of all workers of command `i` returned;
* `read q`        — a read-only command (list-snapshots / list-files / restore) observes the store at this point (its listing
                    of `snapshots/`); it changes nothing.  `restoreSpan` is the restore whose chunk downloads happen later.

A worker takes ONE chunk occurrence at a time from the command's FIFO queue and holds it until it is done with it, so at most
`workers` occurrences are in flight per command (`window`).  `cstep` / `crun` are executable: the driver replays the per-call
event trace observed on the real backend (`repo.conc`) and must accept it.
-/
namespace Replicat.Repo

/-- one `snapshot` command: who, the chunk stream of its data (one entry per chunk OCCURRENCE), the file records, the time
stamp, the snapshot id, and the size of its worker pool (`concurrent`) -/
structure SnapCmd where
  u : User
  stream : List Content
  files : List FileRec
  ts : Nat
  sid : Nat
  workers : Nat
deriving Repr

namespace SnapCmd
def op (c : SnapCmd) : Op := .snapshot c.u c.stream c.files c.ts c.sid
def name (c : SnapCmd) : Name := .snap c.u.fam c.sid
def obj (c : SnapCmd) : Obj := .snap c.u.fam c.sid ⟨c.u.key, c.ts, dedupKeepFirstC c.stream, c.files⟩
end SnapCmd

/-- progress of one in-flight snapshot command -/
structure Prog where
  /-- chunk occurrences whose `exists` call has not been answered yet, in stream (= queue) order -/
  todo : List Content
  /-- occurrences observed ABSENT whose upload has not completed yet; each is held by one worker -/
  pending : List Content
  /-- the snapshot object has been written -/
  done : Bool
deriving DecidableEq, Repr

def Prog.init (c : SnapCmd) : Prog := ⟨c.stream, [], false⟩

structure CState where
  store : Store
  progs : List Prog
deriving Repr

/-- all commands are in flight, none has made a backend call yet (a command that starts later simply makes its calls later:
`snapshot` reads nothing before its first `exists`) -/
def CState.init (s : Store) (cmds : List SnapCmd) : CState := ⟨s, cmds.map Prog.init⟩

def CState.complete (st : CState) : Bool := st.progs.all (·.done)

/-- a regex is the list of ids it accepts (the harness evaluates the real regex); `none` = no filter -/
def predOf : Option (List Nat) → Nat → Bool
  | none => fun _ => true
  | some l => fun n => l.contains n

inductive Query
  | list (u : User) (sre : Option (List Nat))
  | listFiles (u : User) (sre fre : Option (List Nat))
  | restore (u : User) (sre fre : Option (List Nat))
deriving Repr

inductive Reply
  | rows (r : Except Err (List SnapRow))
  | fileRows (r : Except Err (List (Nat × Nat × Nat)))
  | files (r : Except Err (List FileRec))

/-- what a read-only command answers when it observes store `s` -/
def answer (enc : Bool) (s : Store) : Query → Reply
  | .list u sre => .rows (listSnapshots enc u (predOf sre) s)
  | .listFiles u sre fre => .fileRows (listFiles enc u (predOf sre) (predOf fre) s)
  | .restore u sre fre => .files (restore enc u (predOf sre) (predOf fre) s)

/-- `restore` that lists and loads the snapshots in `sList` and downloads chunk `c` later, from `later c` -/
def restoreSpan (enc : Bool) (u : User) (sre fre : Nat → Bool) (sList : Store) (later : Content → Store) : Except Err (List FileRec) :=
  match loadSnapshots enc u sre sList with
  | .error e => .error e
  | .ok ls =>
    let sel := selectFiles fre (readableNewestFirst ls)
    if sel.all (fun f => f.needs.all (fun c => chunkOk u (later c) c)) then .ok sel else .error .missing

inductive Ev
  | exists (i : Nat) (c : Content) (r : Bool)
  | upload (i : Nat) (n : Name) (o : Obj)
  | commit (i : Nat)
  | read (q : Query)
deriving Repr

/-- the occurrences whose `exists` answer may arrive next: the workers that are not busy uploading hold at most one occurrence
each, taken from the queue in order -/
def window (cmd : SnapCmd) (p : Prog) : List Content := p.todo.take (cmd.workers - p.pending.length)

/-- one backend call completes.  `none` = this call cannot happen here (the observed trace is rejected). -/
def cstep (cmds : List SnapCmd) (st : CState) : Ev → Option CState
  | .exists i c r =>
    match cmds[i]?, st.progs[i]? with
    | some cmd, some p =>
      if (window cmd p).contains c && (r == (get st.store (.chunk cmd.u.fam c)).isSome) then
        some ⟨st.store, st.progs.set i ⟨p.todo.erase c, if r then p.pending else p.pending ++ [c], p.done⟩⟩
      else none
    | _, _ => none
  | .upload i n o =>
    match cmds[i]?, st.progs[i]? with
    | some cmd, some p =>
      (match n, o with
       | .chunk f c, .chunk f' c' =>
         if f == cmd.u.fam && f' == f && c' == c && p.pending.contains c then
           some ⟨put st.store (.chunk f c) (.chunk f' c'), st.progs.set i ⟨p.todo, p.pending.erase c, p.done⟩⟩
         else none
       | _, _ => none)
    | _, _ => none
  | .commit i =>
    match cmds[i]?, st.progs[i]? with
    | some cmd, some p =>
      if p.todo.isEmpty && p.pending.isEmpty && !p.done then
        some ⟨put st.store cmd.name cmd.obj, st.progs.set i ⟨[], [], true⟩⟩
      else none
    | _, _ => none
  | .read _ => some st

/-- replay a trace of completed backend calls -/
def crun (cmds : List SnapCmd) (st : CState) : List Ev → Option CState
  | [] => some st
  | e :: es =>
    match cstep cmds st e with
    | some st' => crun cmds st' es
    | none => none

/-- the position of the first event that is rejected, if any (for the harness' diagnostics) -/
def firstRejected (cmds : List SnapCmd) (st : CState) : List Ev → Nat → Option Nat
  | [], _ => none
  | e :: es, k =>
    match cstep cmds st e with
    | some st' => firstRejected cmds st' es (k + 1)
    | none => some k

/-- the answers of the read-only commands along an accepted trace, in order -/
def replies (enc : Bool) (cmds : List SnapCmd) (st : CState) : List Ev → List Reply
  | [] => []
  | e :: es =>
    match cstep cmds st e with
    | some st' => (match e with | .read q => answer enc st.store q :: replies enc cmds st' es | _ => replies enc cmds st' es)
    | none => []

/-! ## counting racy uploads -/

def Ev.isUpload (i : Nat) (c : Content) : Ev → Bool
  | .upload j (.chunk _ c') _ => j == i && c' == c
  | _ => false

def Ev.isAbsent (i : Nat) (c : Content) : Ev → Bool
  | .exists j c' false => j == i && c' == c
  | _ => false

/-- how often command `i` uploaded chunk `c` -/
def uploads (tr : List Ev) (i : Nat) (c : Content) : Nat := tr.countP (Ev.isUpload i c)
/-- how often a worker of command `i` observed chunk `c` absent -/
def absents (tr : List Ev) (i : Nat) (c : Content) : Nat := tr.countP (Ev.isAbsent i c)

/-! ## the sequential schedule: one command after the other, one busy worker at a time -/

/-- `exists`, upload if absent, next chunk -/
def seqEvents (i : Nat) (f : Fam) : Store → List Content → List Ev
  | _, [] => []
  | s, c :: cs =>
    if (get s (.chunk f c)).isSome then .exists i c true :: seqEvents i f s cs
    else .exists i c false :: .upload i (.chunk f c) (.chunk f c) :: seqEvents i f (put s (.chunk f c) (.chunk f c)) cs

def seqTrace (i : Nat) (cmd : SnapCmd) (s : Store) : List Ev := seqEvents i cmd.u.fam s cmd.stream ++ [.commit i]

/-- the commands `rest` (numbered from `i`) one after the other, starting in store `s` -/
def seqTraceAll : Nat → Store → List SnapCmd → List Ev
  | _, _, [] => []
  | i, s, cmd :: rest => seqTrace i cmd s ++ seqTraceAll (i + 1) (snapshot cmd.u cmd.stream cmd.files cmd.ts cmd.sid s).1 rest

end Replicat.Repo
