import ReplicatModel.Generated
/-!
# Options — how one option gets its effective value (C19)

The model follows `replicat.__main__.main` step by step, for ONE option (`Gen.OptRow`, one `dest`) and the
raw values the user supplied for it in the five places an option can come from:

* the command line (`cli`: the occurrences, in order, each naming which flag of the option was used),
* the environment variable (`env`),
* the selected profile of the configuration file (`prof`: the keys of that section which target this option),
* the file's default section (`dflt`),
* the built-in default (`builtin`).

What the leaf functions do (`parse_repository`, `guess_type`, `Path`, …, i.e. the `type=` of an argparse action or the
validator of `Config.apply_known`) is a PARAMETER (`Sem.co`); the theorems hold for every such semantics, the compiled
driver receives the results of the real functions from the harness.  The ORDER of the steps is `Gen.optSteps`, read
from the AST of `main()`; the option table is `Gen.optRows`, read from the real argparse parsers.

argparse itself is modelled, not verified (DESIGN.md §4): a sub-parser parses into a fresh namespace; the value of an
option that does not occur is the action's default, which `set_defaults` replaced by the config value; a default that
is a `str` is passed through the action's `type` once more; two occurrences of different actions of one
mutual-exclusion group are an error.
-/
namespace Replicat.Options
open Replicat.Gen

/-- how a run ends without reaching the command handler -/
inductive Err
  | argparse       -- `parser.error(…)` → exit status 2 (bad CLI word, conflicting flags)
  | invalidConfig  -- `exceptions.InvalidConfig` (mutually exclusive keys in the configuration file)
  | configValue    -- a validator of `apply_known` / `apply_env` raised (ValueError, TypeError, AttributeError, OSError)
  | model          -- the request is outside the model (unknown variant, unrecognised table entry, incomplete step list)
  deriving DecidableEq, Repr, Inhabited

/-- leaf semantics: parameters of the model -/
structure Sem (V : Type) where
  /-- the function named by `OptTy` applied to a raw value; `none` = it raised -/
  co : OptTy → V → Option V
  /-- `isinstance(v, str)` -/
  isStr : V → Bool
  /-- `bool(v)` (used for `no-cache`) -/
  truthy : V → Bool
  noneV : V
  trueV : V

structure Inputs (V : Type) where
  /-- occurrences on the command line, in order: (index into `row.cli`, raw word) -/
  cli : List (Nat × V)
  env : Option V
  /-- keys of the selected profile that target this option: (index into `row.file`, raw TOML value) -/
  prof : List (Nat × V)
  dflt : List (Nat × V)
  builtin : V

/-- state of `main()` as far as one option is concerned -/
structure St (V : Type) where
  first : Option V          -- namespace value after the initial parse, if the option occurred (initial parser only)
  merged : List (Nat × V)   -- `read_config`: default section overlaid by the profile
  cfg : V                   -- field of the `Config` / backend config dataclass
  atLoad : V                -- that field when `load_backend(*cfg.repository)` ran
  defaults : Option V       -- entry of the `defaults` dict
  actionDefault : V         -- `default` of the argparse action(s) with this dest
  final : Option V          -- namespace value after the second parse
  handled : Bool

def lookup {V : Type} (l : List (Nat × V)) (i : Nat) : Option V :=
  match l with
  | [] => none
  | (k, v) :: rest => if k == i then some v else lookup rest i

/-- `defaults = sections['default']; defaults.update(sections[profile])` -/
def overlay {V : Type} (dflt prof : List (Nat × V)) : List (Nat × V) :=
  prof ++ dflt.filter (fun kv => (lookup prof kv.1).isNone)

def orErr {V : Type} (e : Err) : Option V → Except Err V
  | some v => .ok v
  | none => .error e

def isBackend (row : OptRow) : Bool := row.scope == 2

/-- value of one command-line occurrence -/
def cliValue {V : Type} (sem : Sem V) (v : OptCliVar) (raw : V) : Except Err V :=
  match v.kind with
  | .typed => orErr .argparse (sem.co v.ty raw)
  | .multi => orErr .argparse (sem.co v.ty raw)
  | .constNone => .ok sem.noneV
  | .constTrue => .ok sem.trueV
  | .other => .error .model

/-- argparse: two different actions of one mutual-exclusion group -/
def conflicts (a b : OptCliVar) : Bool :=
  a.flag != b.flag && (match a.group, b.group with
    | some g, some h => g == h
    | _, _ => false)

/-- one parse of the occurrences of this option (fresh namespace): last occurrence wins, conflicts are errors -/
def parseCli {V : Type} (sem : Sem V) (row : OptRow) : List (Nat × V) → List OptCliVar → Option V → Except Err (Option V)
  | [], _, acc => .ok acc
  | (i, raw) :: rest, seen, _ =>
    match row.cli[i]? with
    | none => .error .model
    | some v =>
      if seen.any (conflicts v) then .error .argparse
      else match cliValue sem v raw with
        | .error e => .error e
        | .ok x => parseCli sem row rest (v :: seen) (some x)

/-- keys of this option that are present in the merged file mapping -/
def presentKeys {V : Type} (vars : List OptFileVar) (merged : List (Nat × V)) (i : Nat) : List String :=
  match vars with
  | [] => []
  | fv :: rest => if (lookup merged i).isSome then fv.key :: presentKeys rest merged (i + 1) else presentKeys rest merged (i + 1)

/-- `_check_mutually_exclusive(mapping, *keys)` for every extracted call -/
def fileMutexViolated {V : Type} (row : OptRow) (merged : List (Nat × V)) : Bool :=
  optFileMutex.any (fun g => decide (2 ≤ ((presentKeys row.file merged 0).filter (fun k => g.contains k)).length))

/-- the `popset` calls of `apply_known` that target this option, in source order -/
def applyFileVars {V : Type} (sem : Sem V) (vars : List OptFileVar) (merged : List (Nat × V)) (i : Nat) (cfg : V) : Except Err V :=
  match vars with
  | [] => .ok cfg
  | fv :: rest =>
    match lookup merged i with
    | none => applyFileVars sem rest merged (i + 1) cfg
    | some raw =>
      match fv.kind with
      | .plain =>
        match sem.co fv.ty raw with
        | none => .error .configValue
        | some x => applyFileVars sem rest merged (i + 1) x
      | .nullIfTrue =>
        match sem.co fv.ty raw with
        | none => .error .configValue
        | some b => applyFileVars sem rest merged (i + 1) (if sem.truthy b then sem.noneV else cfg)
      | .other => .error .model

def applyEnvVar {V : Type} (sem : Sem V) (row : OptRow) (env : Option V) (cfg : V) : Except Err V :=
  match row.env, env with
  | some (_, ty), some raw => orErr .configValue (sem.co ty raw)
  | _, _ => .ok cfg

/-- `type` of the first action of this dest that takes a value (argparse converts a `str` default with it) -/
def firstTy : List OptCliVar → Option OptTy
  | [] => none
  | v :: rest => if v.kind == .typed || v.kind == .multi then some v.ty else firstTy rest

/-- end of `parse_known_args`: the option did not occur -/
def defaultValue {V : Type} (sem : Sem V) (row : OptRow) (d : V) : Except Err V :=
  if sem.isStr d then
    match firstTy row.cli with
    | some ty => orErr .argparse (sem.co ty d)
    | none => .ok d
  else .ok d

def step {V : Type} (sem : Sem V) (cmd : OptCommand) (row : OptRow) (inp : Inputs V) (s : OptStep) (st : St V) : Except Err (St V) :=
  match s with
  | .initialParse =>
    if row.scope == 0 then
      match parseCli sem row inp.cli [] none with
      | .error e => .error e
      | .ok f => .ok { st with first := f }
    else .ok st
  | .readConfig => .ok { st with merged := overlay inp.dflt inp.prof }
  | .applyKnown =>
    if row.scope == 0 || row.scope == 1 then
      if fileMutexViolated row st.merged then .error .invalidConfig
      else match applyFileVars sem row.file st.merged 0 st.cfg with
        | .error e => .error e
        | .ok c => .ok { st with cfg := c }
    else .ok st
  | .applyEnv =>
    if row.scope == 0 || row.scope == 1 then
      match applyEnvVar sem row inp.env st.cfg with
      | .error e => .error e
      | .ok c => .ok { st with cfg := c }
    else .ok st
  | .repoOverride =>
    if row.early then
      match st.first with
      | some v => .ok { st with cfg := v }
      | none => .ok st
    else .ok st
  | .loadBackend => .ok { st with atLoad := st.cfg }
  | .backendApplyKnown =>
    if isBackend row then
      match applyFileVars sem row.file st.merged 0 st.cfg with
      | .error e => .error e
      | .ok c => .ok { st with cfg := c }
    else .ok st
  | .backendApplyEnv =>
    if isBackend row then
      match applyEnvVar sem row inp.env st.cfg with
      | .error e => .error e
      | .ok c => .ok { st with cfg := c }
    else .ok st
  | .defaultsCfg => if !isBackend row && row.inCfg then .ok { st with defaults := some st.cfg } else .ok st
  | .defaultsBackend => if isBackend row then .ok { st with defaults := some st.cfg } else .ok st
  | .makeMainParser =>
    if cmd.setDefaults && cmd.parents then
      match st.defaults with
      | some d => .ok { st with actionDefault := d }
      | none => .ok st
    else .ok st
  | .secondParse =>
    match parseCli sem row inp.cli [] none with
    | .error e => .error e
    | .ok (some v) => .ok { st with final := some v }
    | .ok none =>
      match defaultValue sem row st.actionDefault with
      | .error e => .error e
      | .ok v => .ok { st with final := some v }
  | .handler => .ok { st with handled := true }

def run {V : Type} (sem : Sem V) (cmd : OptCommand) (row : OptRow) (inp : Inputs V) : List OptStep → St V → Except Err (St V)
  | [], st => .ok st
  | s :: rest, st =>
    match step sem cmd row inp s st with
    | .error e => .error e
    | .ok st' => run sem cmd row inp rest st'

def init {V : Type} (inp : Inputs V) : St V :=
  { first := none, merged := [], cfg := inp.builtin, atLoad := inp.builtin, defaults := none,
    actionDefault := inp.builtin, final := none, handled := false }

/-- what the command handler observes -/
structure Obs (V : Type) where
  /-- `vars(args)[dest]`; for a backend option also the keyword argument of the backend constructor -/
  final : V
  /-- the value of the config field when the backend was selected (meaningful for `repository`) -/
  atLoad : V

/-- **the pipeline**: `main()` for one option, steps in the order extracted from the source -/
def pipeline {V : Type} (sem : Sem V) (cmd : OptCommand) (row : OptRow) (inp : Inputs V) : Except Err (Obs V) :=
  match run sem cmd row inp optSteps (init inp) with
  | .error e => .error e
  | .ok st =>
    match st.handled, st.final with
    | true, some v => .ok { final := v, atLoad := st.atLoad }
    | _, _ => .error .model

def pipelineFinal {V : Type} (sem : Sem V) (cmd : OptCommand) (row : OptRow) (inp : Inputs V) : Except Err V :=
  match pipeline sem cmd row inp with
  | .error e => .error e
  | .ok o => .ok o.final

def pipelineAtLoad {V : Type} (sem : Sem V) (cmd : OptCommand) (row : OptRow) (inp : Inputs V) : Except Err V :=
  match pipeline sem cmd row inp with
  | .error e => .error e
  | .ok o => .ok o.atLoad

/-! ## the specification: first defined in the documented order, coerced once -/

/-- at most one way of setting the option per source -/
structure Simple (V : Type) where
  cli : Option (Nat × V)
  env : Option V
  prof : Option (Nat × V)
  dflt : Option (Nat × V)
  builtin : V

def Simple.toInputs {V : Type} (s : Simple V) : Inputs V :=
  { cli := s.cli.toList, env := s.env, prof := s.prof.toList, dflt := s.dflt.toList, builtin := s.builtin }

/-- the value a file key stands for.  A typed (non-string) TOML value of a backend option is taken as it is
(`port = 9877` means the same as `--port 9877`); `lower` = what the sources below say (used by `no-cache = false`). -/
def fileValue {V : Type} (sem : Sem V) (row : OptRow) (kv : Nat × V) (lower : Except Err V) : Except Err V :=
  match row.file[kv.1]? with
  | none => .error .model
  | some fv =>
    match fv.kind with
    | .plain =>
      if isBackend row && !sem.isStr kv.2 then .ok kv.2
      else orErr .configValue (sem.co fv.ty kv.2)
    | .nullIfTrue =>
      match sem.co fv.ty kv.2 with
      | none => .error .configValue
      | some b => if sem.truthy b then .ok sem.noneV else lower
    | .other => .error .model

def specBelowProfile {V : Type} (sem : Sem V) (row : OptRow) (s : Simple V) : Except Err V :=
  match s.dflt with
  | some kv => fileValue sem row kv (.ok s.builtin)
  | none => .ok s.builtin

def specBelowEnv {V : Type} (sem : Sem V) (row : OptRow) (s : Simple V) : Except Err V :=
  match s.prof with
  | some kv => fileValue sem row kv (specBelowProfile sem row s)
  | none => specBelowProfile sem row s

def specBelowCli {V : Type} (sem : Sem V) (row : OptRow) (s : Simple V) : Except Err V :=
  match row.env, s.env with
  | some (_, ty), some raw => orErr .configValue (sem.co ty raw)
  | _, _ => specBelowEnv sem row s

/-- **the specification**: command line, else environment, else profile, else default section, else built-in;
the winning raw value goes through the option's type function exactly once. -/
def spec {V : Type} (sem : Sem V) (row : OptRow) (s : Simple V) : Except Err V :=
  match s.cli with
  | some (i, raw) =>
    match row.cli[i]? with
    | none => .error .model
    | some v => cliValue sem v raw
  | none => specBelowCli sem row s

/-! ## validity of the supplied raw values (as the pipeline sees them) -/

def fileOk {V : Type} (sem : Sem V) (row : OptRow) (kv : Option (Nat × V)) : Bool :=
  match kv with
  | none => true
  | some (i, raw) =>
    match row.file[i]? with
    | none => false
    | some fv => fv.kind != .other && (sem.co fv.ty raw).isSome

def cliOk {V : Type} (sem : Sem V) (row : OptRow) (c : Option (Nat × V)) : Bool :=
  match c with
  | none => true
  | some (i, raw) =>
    match row.cli[i]? with
    | none => false
    | some v => match cliValue sem v raw with
      | .ok _ => true
      | .error _ => false

def envOk {V : Type} (sem : Sem V) (row : OptRow) (e : Option V) : Bool :=
  match row.env, e with
  | some (_, ty), some raw => (sem.co ty raw).isSome
  | _, _ => true

/-- every raw value that is present is accepted by the function that reads it -/
def valid {V : Type} (sem : Sem V) (row : OptRow) (s : Simple V) : Bool :=
  cliOk sem row s.cli && envOk sem row s.env && fileOk sem row s.prof && fileOk sem row s.dflt

/-! ## which type functions are meant to do the same thing (command line vs. file / environment) -/

/-- documented equivalences: `-c` / `concurrent`, `-p` / `password` / `REPLICAT_PASSWORD`, `-K` / `key-file`, … -/
def equivTy : OptTy → OptTy → Bool
  | .parseRepository, .parseRepository => true
  | .path, .path => true
  | .naturalNumberCli, .naturalNumberCfg => true
  | .fsencode, .strEncode => true
  | .fsencode, .environb => true
  | .readBytesCli, .readBytesCfg => true
  | .guessType, .guessType => true
  | _, _ => false

/-- flags that the documentation declares exclusive although they set different options -/
def documentedExclusive : List (String × String) := [("--shared", "--clone")]

/-! ## two flags on one command line (possibly of two different options, e.g. `--shared --clone`) -/

/-- argparse's verdict on a command line containing the flags `a` and `b` (any order) -/
def twoFlags (a b : OptCliVar) : Except Err Unit :=
  if conflicts a b then .error .argparse else .ok ()

/-- all flags a sub-command accepts -/
def flagsOf (cmd : OptCommand) : List OptCliVar :=
  (optRows.filter (fun r => r.scope != 3 || r.owner == cmd.name)).flatMap (·.cli)

/-! ## the schema of a backend-specific option — ANY backend, not only the probed ones

`cli.parser_for_backend(cls)` and `config.config_for_backend(cls)` walk the keyword-only parameters of the backend's
constructor, whatever the class is (shipped, or a custom one found through the `replicat.backends` namespace package)
and whatever its parameters look like (annotated or not, with or without default).  For each they create ONE flag
(`--<name with hyphens>`, `type` = `Gen.optBackendCliTy`), one environment variable (`<SHORT NAME>_<NAME>`, read through
`Gen.optBackendEnvTy`) and one file key (`<name with hyphens>`, read through `Gen.optBackendFileTy`).  The three type
functions come from the extractor: the two validators from the AST of `BaseBackendConfig`, the flag's `type` from the live
parsers of all probed backends — among them one whose options carry `str`, `int`, `bool`, `float`, `Optional`, `Union` and
string annotations — and it is `.other` unless it is the same function for every one of them.  The names are parameters
(strings; how they are derived from the parameter name is checked by the harness against the live parser). -/
def customBackendRow (owner dest flag envVar key : String) (builtinKind : Nat) : OptRow :=
  { dest := dest, scope := 2, owner := owner,
    cli := [{ flag := flag, flags := [flag], kind := .typed, ty := optBackendCliTy, group := none,
              dflt := if builtinKind == 4 then 0 else builtinKind }],
    env := some (envVar, optBackendEnvTy),
    file := [{ key := key, kind := .plain, ty := optBackendFileTy }],
    inCfg := true, early := false, builtinKind := builtinKind }

/-- a row of the generated table is an instance of the schema (names and kind of default read off the row itself) -/
def isCustomInstance (row : OptRow) : Bool :=
  match row.cli, row.env, row.file with
  | [v], some (e, _), [f] => row == customBackendRow row.owner row.dest v.flag e f.key row.builtinKind
  | _, _, _ => false

end Replicat.Options

/-! ## class hierarchies of backends: WHICH environment variable an option of a backend class is read from

A backend class need not derive from `Backend` directly: the shipped `S3` derives from `S3Compatible`, and a custom backend
found through the namespace package may derive from `Local`, `S3Compatible`, `B2` or from another custom backend, adding or
overriding keyword-only options.  `config.backend_env_option(cls, option)` is `f'{cls.short_name}_{option}'.upper()`, and
`cls.short_name` is what `Backend.__init_subclass__` stored when THAT class was created: the class keyword `short_name=`,
or else the fallback `Gen.optShortNameRule` (read from the AST).  The documented name is the class's own —
`<SHORT NAME>_<OPTION>`, `<CLASS NAME>_<OPTION>` without the keyword (README, "Custom backends") — never a parent's. -/
namespace Replicat.Options
open Replicat.Gen

/-- a backend class declaration, as far as its short name goes -/
structure BackendClass where
  /-- `cls.__name__` -/
  name : String
  /-- `class X(Base, short_name='…')` -/
  kwShort : Option String
  /-- a plain `short_name = '…'` in the class body -/
  attrShort : Option String
  deriving DecidableEq, Repr, Inhabited

/-- `cls.short_name` once `Backend.__init_subclass__` has run for every class of the chain; the chain is the class followed
by its base classes up to (not including) `Backend` (single inheritance).  `none` = outside the model (unrecognised rule,
empty chain).  `.inheritedAttr`: `getattr(cls, 'short_name', …)` finds the class's own attribute first, and otherwise the one
`__init_subclass__` stored on the nearest base class. -/
def shortNameOf (rule : OptShortNameRule) : List BackendClass → Option String
  | [] => none
  | c :: parents =>
    match c.kwShort with
    | some k => some k
    | none =>
      match rule with
      | .className => some c.name
      | .ownAttr => (match c.attrShort with | some a => some a | none => some c.name)
      | .inheritedAttr =>
        (match c.attrShort with
         | some a => some a
         | none => match shortNameOf rule parents with
           | some p => some p
           | none => some c.name)
      | .other => none

/-- the fallbacks under which a class's short name depends on its own declaration only -/
def ruleIsOwn : OptShortNameRule → Bool
  | .className => true
  | .ownAttr => true
  | _ => false

/-- `str.upper()` on the ASCII letters (names of classes and options are identifiers; the harness generates ASCII ones) -/
def upperAscii (s : String) : String := String.ofList (s.toList.map Char.toUpper)

/-- `f'{short}_{option}'.upper()` -/
def backendEnvName (short opt : String) : String := upperAscii (short ++ "_" ++ opt)

/-- `name.replace('_', '-')` -/
def hyphenated (opt : String) : String := String.ofList (opt.toList.map (fun ch => if ch == '_' then '-' else ch))

/-- `config.backend_env_option(cls, opt)` for the class at the head of the chain -/
def backendEnvVar (rule : OptShortNameRule) (chain : List BackendClass) (opt : String) : Option String :=
  if optBackendEnvJoinRecognised then (shortNameOf rule chain).map (fun s => backendEnvName s opt) else none

/-- the names a class declares itself -/
def ownNames (c : BackendClass) : List String := c.kwShort.toList ++ c.attrShort.toList ++ [c.name]

/-- the documented short name: the class keyword, else the class name -/
def documentedShortName (c : BackendClass) : String :=
  match c.kwShort with
  | some k => k
  | none => c.name

/-- the option row of ONE keyword-only parameter `dest` of the class at the head of the chain: the instance of the schema
`customBackendRow` whose flag / file key are derived from the parameter name and whose environment variable is derived from
the class -/
def classBackendRow (rule : OptShortNameRule) (chain : List BackendClass) (owner dest : String) (builtinKind : Nat) : Option OptRow :=
  (backendEnvVar rule chain dest).map (fun e =>
    customBackendRow owner dest ("--" ++ hyphenated dest) e (hyphenated dest) builtinKind)

def classOfDecl (d : String × Option String × Option String) : BackendClass :=
  { name := d.1, kwShort := d.2.1, attrShort := d.2.2 }

/-- every backend-specific row of the generated table whose owner is a shipped backend carries the environment variable the
model computes from the class declarations of that backend (`Gen.optShippedBackendClasses`, from the ASTs) -/
def shippedEnvNamesAgree (rule : OptShortNameRule) : Bool :=
  optShippedBackendClasses.all (fun mc =>
    optRows.all (fun row => row.scope != 2 || row.owner != mc.1 ||
      row.env.map (·.1) == backendEnvVar rule (mc.2.map classOfDecl) row.dest))

end Replicat.Options
