import ReplicatModel.Basic
import ReplicatModel.Generated
/-!
# Listing loops of the S3-compatible and the B2 adapter

`s3Loop` mirrors `S3Compatible.list_files` (replicat/backends/s3c.py): `while is_truncated:` request a page with the
current continuation token, walk over the XML elements *in document order* and react to three tags
(`Gen.s3TagTruncated` with text `Gen.s3StopText` clears the flag, `Gen.s3TagToken` stores the token, `Gen.s3TagKey` yields).
The token is sticky (a page without a token element keeps the previous one) and the flag is only ever cleared — exactly as
in the code.  A page is the list of `(tag, text)` pairs of its elements.

`b2Loop` mirrors `B2.list_files` (replicat/backends/b2.py): request, yield every `fileName`, stop when `nextFileName` is
null, otherwise continue from it.

The service is a parameter `respond` (token ↦ page).  `S3Conf` / `B2Conf` say what "protocol-conformant" means: the pages
reached by following the continuation tokens concatenate to the full list of matching names, every non-final page announces
a continuation, the final one does not.  The loops carry fuel; `Properties/C13.lean` proves that for a conformant service
fuel is never the reason for stopping.

`s3Serve` / `b2Serve` are concrete conformant services with an arbitrary page size (what the fakes of the harness do).
-/
namespace Replicat

/-- object names, prefixes, path strings: Python `str` as a list of code points -/
abbrev Name := List Char

namespace Paging

/-- an XML element the client looks at: local tag name and text -/
abbrev Elem := String × Name

structure S3State where
  truncated : Bool
  token : Option Name
deriving Repr, DecidableEq

/-- body of `for _, element in parser.read_events():` -/
def s3Event (acc : S3State × List Name) (e : Elem) : S3State × List Name :=
  if e.1 = Gen.s3TagTruncated ∧ e.2 = Gen.s3StopText.toList then ({ acc.1 with truncated := false }, acc.2)
  else if e.1 = Gen.s3TagToken then ({ acc.1 with token := some e.2 }, acc.2)
  else if e.1 = Gen.s3TagKey then (acc.1, acc.2 ++ [e.2])
  else acc

/-- `while is_truncated:` — `none` = fuel exhausted (ruled out for conformant services) -/
def s3Loop (respond : Option Name → List Elem) : Nat → S3State → Option (List Name)
  | 0, st => if st.truncated then none else some []
  | fuel + 1, st =>
    if st.truncated then
      let r := (respond st.token).foldl s3Event (st, [])
      (s3Loop respond fuel r.1).map (r.2 ++ ·)
    else some []

/-- `S3Compatible.list_files`: initial state `is_truncated = True`, `continuation_token = None` -/
def s3List (respond : Option Name → List Elem) (fuel : Nat) : Option (List Name) :=
  s3Loop respond fuel ⟨Gen.s3LoopStartsTruncated, none⟩

/-- number of requests the loop sends (for the tie: compared with the requests the fake service saw) -/
def s3Requests (respond : Option Name → List Elem) : Nat → S3State → Nat
  | 0, _ => 0
  | fuel + 1, st =>
    if st.truncated then 1 + s3Requests respond fuel ((respond st.token).foldl s3Event (st, [])).1 else 0

/-! ### what a page says (protocol side: ListObjectsV2 of the S3 REST API) -/
def tagIsTruncated : String := "IsTruncated"
def tagNextToken : String := "NextContinuationToken"
def tagKey : String := "Key"

/-- the keys of a page, in document order -/
def pageKeys (p : List Elem) : List Name := (p.filter (·.1 = tagKey)).map (·.2)
/-- the page carries `<IsTruncated>false</IsTruncated>` -/
def pageFinal (p : List Elem) : Bool := p.any (fun e => e.1 = tagIsTruncated ∧ e.2 = "false".toList)
/-- the last `<NextContinuationToken>` of the page -/
def pageToken : List Elem → Option Name
  | [] => none
  | e :: p =>
    match pageToken p with
    | some t => some t
    | none => if e.1 = tagNextToken then some e.2 else none

/-- protocol conformance of an S3 service for one listing: following the tokens from `tok` serves exactly `ks`, in `n` pages -/
inductive S3Conf (respond : Option Name → List Elem) : Option Name → List Name → Nat → Prop
  | last (tok : Option Name) (h : pageFinal (respond tok) = true) : S3Conf respond tok (pageKeys (respond tok)) 1
  | more (tok : Option Name) (t : Name) (rest : List Name) (n : Nat) (h : pageFinal (respond tok) = false)
      (ht : pageToken (respond tok) = some t) (hr : S3Conf respond (some t) rest n) :
      S3Conf respond tok (pageKeys (respond tok) ++ rest) (n + 1)

/-! ### B2 -/
structure B2Page where
  files : List Name
  next : Option Name
deriving Repr, DecidableEq

/-- `while True:` of `B2.list_files` — `none` = fuel exhausted -/
def b2Loop (respond : Option Name → B2Page) : Nat → Option Name → Option (List Name)
  | 0, _ => none
  | fuel + 1, start =>
    let pg := respond start
    match pg.next with
    | none => some pg.files
    | some s => (b2Loop respond fuel (some s)).map (pg.files ++ ·)

def b2List (respond : Option Name → B2Page) (fuel : Nat) : Option (List Name) := b2Loop respond fuel none

def b2Requests (respond : Option Name → B2Page) : Nat → Option Name → Nat
  | 0, _ => 0
  | fuel + 1, start =>
    match (respond start).next with
    | none => 1
    | some s => 1 + b2Requests respond fuel (some s)

/-- protocol conformance of a B2 service for one listing (b2_list_file_names): `n` pages serve exactly `ks` -/
inductive B2Conf (respond : Option Name → B2Page) : Option Name → List Name → Nat → Prop
  | last (start : Option Name) (h : (respond start).next = none) : B2Conf respond start (respond start).files 1
  | more (start : Option Name) (s : Name) (rest : List Name) (n : Nat) (h : (respond start).next = some s)
      (hr : B2Conf respond (some s) rest n) : B2Conf respond start ((respond start).files ++ rest) (n + 1)

/-! ### concrete services with a page size (the harness fakes) -/

/-- continuation token of the model service: the offset in unary -/
def offToken (off : Nat) : Name := List.replicate off 'x'

def tokOff : Option Name → Nat
  | none => 0
  | some t => t.length

/-- S3 service holding the matching keys `keys` (any fixed order), page size `ps` -/
def s3Serve (ps : Nat) (keys : List Name) (tok : Option Name) : List Elem :=
  let off := tokOff tok
  let more := decide (off + ps < keys.length)
  [(tagIsTruncated, if more then "true".toList else "false".toList)]
    ++ ((keys.drop off).take ps).map (fun k => (tagKey, k))
    ++ (if more then [(tagNextToken, offToken (off + ps))] else [])

/-- B2 service holding the matching live names `names` (any fixed duplicate-free order), page size `ps`;
`startFileName` = the first name to return -/
def b2Serve (ps : Nat) (names : List Name) (start : Option Name) : B2Page :=
  let cand := match start with | none => names | some s => names.dropWhile (· ≠ s)
  ⟨cand.take ps, (cand.drop ps).head?⟩

end Paging
end Replicat
