import ReplicatModel.Basic
import ReplicatModel.Generated
/-!
# Model of the content-defined chunker

`nextCut` mirrors `gclmulchunker::next_cut` (src/adapters.cpp); every guard / constant it uses is the
*generated* translation in `Replicat.Gen` (regenerated from the C++ source on every run).
`drain` / `feed` / `chunkAll` mirror the Python adapter loop `gclmulchunker.__call__`
(replicat/utils/adapters.py): a growing buffer, one-piece look-ahead deciding finality, an inner
`while True` that cuts until the cut position is 0.

Reading outside the buffer is modelled explicitly: `window` returns `none` when the 8-byte load at
`offset - 4` would leave `[0, size)`, and then every function above it returns `none`.

The keyed hash is a parameter `h : Bytes → Nat` (window ↦ key value) in every definition; the concrete
CLMUL hash lives in `Clmul.lean` and is only used by the driver.
-/
namespace Replicat

structure CParams where
  min : Nat
  max : Nat
deriving Repr, DecidableEq

/-- the property's side condition: 1 ≤ min ≤ max and an aligned length exists in [min, max] -/
def CParams.valid (p : CParams) : Prop := 1 ≤ p.min ∧ p.min ≤ p.max ∧ ceil4 p.min ≤ p.max

instance (p : CParams) : Decidable p.valid := by unfold CParams.valid; infer_instance

abbrev Hash := Bytes → Nat

/-- candidate offsets of the `for (i = start; cond(i); i += stride)` loop -/
def cands (p : CParams) : List Nat :=
  ((List.range (p.max + 1)).map (fun j => Gen.scanStart + j * Gen.scanStride)).takeWhile
    (fun i => Gen.scanContinue i p.min p.max)

/-- the 8-byte load at `&buffer[offset - 4]`; `none` = the load leaves the buffer -/
def window (buf : Bytes) (i : Nat) : Option Bytes :=
  if Gen.windowBack ≤ i ∧ i - Gen.windowBack + Gen.windowLen ≤ buf.length then
    some ((buf.drop (i - Gen.windowBack)).take Gen.windowLen)
  else none

def scanStep (h : Hash) (buf : Bytes) (acc : Nat × Nat) (i : Nat) : Option (Nat × Nat) :=
  match window buf i with
  | none => none
  | some w => if Gen.better (h w) acc.2 then some (i, h w) else some acc

def scanFrom (h : Hash) (buf : Bytes) : List Nat → Nat × Nat → Option (Nat × Nat)
  | [], acc => some acc
  | i :: is, acc =>
    match scanStep h buf acc i with
    | none => none
    | some acc' => scanFrom h buf is acc'

/-- the main rule: arg-max scan, then force up to the minimum -/
def mainCut (p : CParams) (h : Hash) (buf : Bytes) : Option Nat :=
  (scanFrom h buf (cands p) (Gen.scanInitIndex, Gen.scanInitValue)).map fun r =>
    if Gen.needForce r.1 p.min p.max then Gen.forced p.min p.max else r.1

/-- `gclmulchunker::next_cut(buffer, final)` -/
def nextCut (p : CParams) (h : Hash) (buf : Bytes) (final : Bool) : Option Nat :=
  if Gen.isTail final buf.length p.min p.max then some (Gen.tailCut buf.length p.min p.max)
  else if Gen.waits final buf.length p.min p.max then some (Gen.waitRet buf.length p.min p.max)
  else mainCut p h buf

/-- inner `while True:` of the adapter: cut until the position is 0.
`buffer[:pos]` / `del buffer[:pos]` are Python slices, i.e. `take` / `drop`. -/
def drain (p : CParams) (h : Hash) (final : Bool) : Nat → Bytes → Option (List Bytes × Bytes)
  | 0, buf => some ([], buf)
  | fuel + 1, buf =>
    match nextCut p h buf final with
    | none => none
    | some pos =>
      if pos = 0 then some ([], buf)
      else
        match drain p h final fuel (buf.drop pos) with
        | none => none
        | some (cs, rest) => some (buf.take pos :: cs, rest)

/-- fuel that is always sufficient: every productive cut removes ≥ 1 byte -/
def drainFuel (buf : Bytes) : Nat := buf.length + 1

/-- outer loop with one-piece look-ahead (`next_chunk is None` ⇒ final) -/
def feed (p : CParams) (h : Hash) : Bytes → List Bytes → Option (List Bytes)
  | _, [] => some []
  | buf, [pc] =>
    (drain p h true (drainFuel (buf ++ pc)) (buf ++ pc)).map (·.1)
  | buf, pc :: q :: ps =>
    match drain p h false (drainFuel (buf ++ pc)) (buf ++ pc) with
    | none => none
    | some (cs, rest) =>
      match feed p h rest (q :: ps) with
      | none => none
      | some cs' => some (cs ++ cs')

/-- `gclmulchunker.__call__(pieces)` -/
def chunkAll (p : CParams) (h : Hash) (pieces : List Bytes) : Option (List Bytes) :=
  feed p h [] pieces

/-- segmentation-independent prefix: main-rule cuts while at least `2·max` bytes remain -/
def greedy (p : CParams) (h : Hash) : Nat → Bytes → Option (List Bytes)
  | 0, _ => some []
  | fuel + 1, s =>
    if s.length < 2 * p.max then some []
    else
      match mainCut p h s with
      | none => none
      | some pos =>
        if pos = 0 then some []
        else (greedy p h fuel (s.drop pos)).map (s.take pos :: ·)

/-! ## handing the stream over through buffers the producer reuses

A piece is handed over as a buffer object.  By the iterator protocol the producer may rewrite that object as soon as it
is asked for the following piece (the `readinto()` / single scratch buffer idiom, or any lazily evaluated producer whose
`next()` has side effects on what it yielded before).  `now` = the bytes in the buffer when it was yielded (the stream
that was handed over), `later` = what the same object reads as after the producer has been asked for the following piece
(or has been told that the consumer is finished).  `later` is arbitrary: nothing below assumes anything about it. -/
structure Handed where
  now : Bytes
  later : Bytes
deriving Repr, DecidableEq

/-- the bytes the adapter appends to its reassembly buffer for every piece: the adapter reads piece N (`buffer += chunk`)
either before or after it requests piece N+1 -/
def seenPieces (copyFirst : Bool) (hs : List Handed) : List Bytes :=
  hs.map fun x => if copyFirst then x.now else x.later

/-- `gclmulchunker.__call__` over such a producer; the order of "read piece N" and "request piece N+1" is the one
extracted from the source (`Gen.adapterCopiesBeforePull`, tools/sections/10_handover.py) -/
def chunkAllHanded (p : CParams) (h : Hash) (hs : List Handed) : Option (List Bytes) :=
  chunkAll p h (seenPieces Gen.adapterCopiesBeforePull hs)

end Replicat
