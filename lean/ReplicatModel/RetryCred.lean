import ReplicatModel.Retry
/-!
# Credentials with a lifetime on ONE long-lived B2 backend object (property C12, sessions)

`Retry.lean` looks at one call under a *count-based* fault plan ("answer 401 to the N-th request").  Credentials do not fail that
way: an account authorisation token, an upload URL and its upload token are VALID OR NOT, from some moment on, until the client
fetches new ones — a retry with the same credential is rejected again.  This file models a *session*: a history of operations on
one `replicat.backends.b2.B2` object (which keeps `_auth`, `_bucket`, … between the calls) with credential events of the service in
between (and, scheduled by a request count, in the middle of an operation):

* `expireAccount`  every account token issued so far answers 401 `expired_auth_token` from now on (B2: after 24 hours)
* `expireUpload`   so does every upload URL / upload token issued so far
* `expireAll`      both
* `retirePods`     every upload URL issued so far answers 503 (the pod is gone; "call b2_get_upload_url again")

The client side mirrors `replicat/backends/b2.py` + `utils.requires_auth`:

* every method is `requires_auth(backoff_reauth(f))`: the first call on an object authenticates; an exception of an attempt goes
  through `Retry.policy` (the SAME extracted policy the per-call model uses): `raise`, back-off `retry`, or — `AuthRequired`, raised by
  the response hook for a 401 and by the back-off handler for every status but 429 — `authenticate()` and call again with a fresh
  try counter (`call`);
* `_get_bucket` answers from `self._bucket` once it is known, else `b2_list_buckets` (a key restricted to one bucket learns it
  from `b2_authorize_account`);
* `_get_upload_url_token` asks `b2_get_upload_url` for NEW upload credentials on every call (`Cfg.credsFresh`, extracted); a source
  that keeps the pair on the object and hands it out again is modelled too (`credsFresh = false`: `Sess.upCred`) — that is what the
  theorems of `Properties/C12.lean` exclude, with a witness that it must be excluded;
* `upload` / `upload_stream` fetch the upload credentials inside the attempt, then POST to the upload URL; every other operation
  is `_get_bucket` plus one request that carries the account token read from `self._auth` at that moment.

What an accepted upload attempt delivers is the payload (streams are rewound between attempts: `C12.masked_upload`,
`C12.never_partial` of the per-call model); here a payload is just a byte string.  Names are numbers, the store a function.
-/
namespace Replicat.Cred
open Replicat Replicat.Retry

inductive Api | authorize | listBuckets | getUploadUrl | uploadFile | download | head | hide | listNames
deriving DecidableEq, Repr

inductive Ev | expireAccount | expireUpload | expireAll | retirePods
deriving DecidableEq, Repr

abbrev Store := Nat → Option Bytes

/-- what the session model reads from the source (see `cfgB2`) -/
structure Cfg where
  base : Retry.Cfg          -- back-off policy, response hook, `requires_auth` (`Retry.b2Cfg`)
  credsFresh : Bool         -- `_get_upload_url_token` requests new upload credentials on every call, nothing is kept on the object
  decorated : Bool          -- every method of the session carries the re-authenticating back-off decorator …
  requiresAuth : Bool       -- … inside `requires_auth`
deriving DecidableEq, Repr

def cfgB2 : Cfg where
  base := Retry.b2Cfg
  credsFresh := Gen.retryB2UploadCredsFresh
  decorated := Gen.retryB2SessionDecorated
  requiresAuth := Gen.retryB2SessionRequiresAuth

/-- service and client in one record -/
structure Sess where
  -- the service: credentials are numbered in the order they are issued; those numbered below `…Live` are no longer accepted
  acctIssued : Nat
  acctLive : Nat
  upIssued : Nat
  upLive : Nat              -- upload credentials below: 401 expired_auth_token
  podLive : Nat             -- upload URLs below: 503 service_unavailable
  store : Store
  restricted : Bool         -- the application key is restricted to the bucket (`b2_authorize_account` names it)
  pending : Option (Nat × Ev)   -- an event scheduled to happen just before the (k+1)-th request from now
  -- the client: the long-lived backend object
  authed : Bool             -- `authenticate()` ran (the object has its `_async_auth_lock`)
  token : Nat               -- the account token in `self._auth`
  bucket : Bool             -- `self._bucket` is known
  upCred : Option Nat       -- upload credentials kept on the object (only by a source with `credsFresh = false`)
  -- what the service saw
  requests : Nat
  auths : Nat
  sleeps : Nat
  log : List Api            -- newest first

def Sess.init (restricted : Bool) : Sess :=
  ⟨0, 0, 0, 0, 0, fun _ => none, restricted, none, false, 0, false, none, 0, 0, 0, []⟩

def Sess.apply (s : Sess) : Ev → Sess
  | .expireAccount => { s with acctLive := s.acctIssued }
  | .expireUpload => { s with upLive := s.upIssued }
  | .expireAll => { s with acctLive := s.acctIssued, upLive := s.upIssued }
  | .retirePods => { s with podLive := s.upIssued }

/-- a request reaches the service (a scheduled event happens first) -/
def Sess.tick (s : Sess) (a : Api) : Sess :=
  let s1 : Sess := match s.pending with
    | some (0, ev) => { s.apply ev with pending := none }
    | some (k + 1, ev) => { s with pending := some (k, ev) }
    | none => s
  { s1 with requests := s1.requests + 1, log := a :: s1.log }

/-- the account token the object holds is accepted -/
def Sess.acctOk (s : Sess) : Bool := s.authed && decide (s.acctLive ≤ s.token)

/-- `B2.authenticate` (b2_authorize_account with the application key: assumed to succeed) -/
def Sess.authenticate (s : Sess) : Sess :=
  let s1 := s.tick .authorize
  { s1 with token := s1.acctIssued, acctIssued := s1.acctIssued + 1, authed := true, bucket := s1.bucket || s1.restricted,
            auths := s1.auths + 1 }

/-- prologue of `requires_auth`: the first decorated call on an object authenticates -/
def Sess.ensureAuth (s : Sess) : Sess := if s.authed then s else s.authenticate

inductive R (α : Type) | ok (a : α) | err (e : Err) | fuel
deriving DecidableEq, Repr

def R.map {α β : Type} (f : α → β) : R α → R β
  | .ok a => .ok (f a)
  | .err e => .err e
  | .fuel => .fuel

/-- `requires_auth(backoff(f))` after the prologue: attempts of `att` until the policy says stop.  One unit of fuel per attempt. -/
def call {α : Type} (pol : Err → Nat → Nat → Decision) (att : Sess → R α × Sess) : Nat → Nat → Nat → Sess → R α × Sess
  | 0, _, _, s => (.fuel, s)
  | fuel + 1, tries, rounds, s =>
    match att s with
    | (.ok a, s1) => (.ok a, s1)
    | (.fuel, s1) => (.fuel, s1)
    | (.err e, s1) =>
      match pol e tries rounds with
      | .raise e' slept => (.err e', { s1 with sleeps := s1.sleeps + slept.toNat })
      | .retry extra => call pol att fuel (tries + 1) rounds { s1 with sleeps := s1.sleeps + 1 + extra.toNat }
      | .reauth slept => call pol att fuel 1 (rounds + 1) { s1 with sleeps := s1.sleeps + slept.toNat }.authenticate

def Cfg.pol (c : Cfg) : Err → Nat → Nat → Decision := policy .b2 c.base c.decorated c.requiresAuth

/-- the error a 401 answer surfaces with (the response hook) -/
def Cfg.e401 (c : Cfg) : Err := hook c.base 401 false

/-- `B2._get_bucket` -/
def getBucket (c : Cfg) (F : Nat) (s : Sess) : R Unit × Sess :=
  call c.pol (fun s =>
    if s.bucket then (.ok (), s)
    else
      let s1 := s.tick .listBuckets
      if s1.acctOk then (.ok (), { s1 with bucket := true }) else (.err c.e401, s1)) F 1 0 s.ensureAuth

/-- `B2._get_upload_url_token` → the number of the upload credentials to use -/
def getCreds (c : Cfg) (F : Nat) (s : Sess) : R Nat × Sess :=
  call c.pol (fun s =>
    match (if c.credsFresh then none else s.upCred) with
    | some u => (.ok u, s)
    | none =>
      match getBucket c F s with
      | (.ok _, s1) =>
        let s2 := s1.tick .getUploadUrl
        if s2.acctOk then
          (.ok s2.upIssued, { s2 with upIssued := s2.upIssued + 1, upCred := if c.credsFresh then none else some s2.upIssued })
        else (.err c.e401, s2)
      | (.err e, s1) => (.err e, s1)
      | (.fuel, s1) => (.fuel, s1)) F 1 0 s.ensureAuth

/-- `B2.upload` / `B2.upload_stream` of `d` under name `n` -/
def uploadOp (c : Cfg) (F : Nat) (n : Nat) (d : Bytes) (s : Sess) : R Unit × Sess :=
  call c.pol (fun s =>
    match getCreds c F s with
    | (.ok u, s1) =>
      let s2 := s1.tick .uploadFile
      if u < s2.upLive then (.err c.e401, s2)
      else if u < s2.podLive then (.err (.status 503 false), s2)
      else (.ok (), { s2 with store := fun m => if m = n then some d else s2.store m })
    | (.err e, s1) => (.err e, s1)
    | (.fuel, s1) => (.fuel, s1)) F 1 0 s.ensureAuth

/-- every other operation: `_get_bucket`, then one request with the account token; `miss`: the service answers 404 after it
accepted the token and the method does not handle that itself (`download` of a name that is not there) -/
def acctOp (c : Cfg) (F : Nat) (api : Api) (miss : Bool) (eff : Store → Store) (s : Sess) : R Unit × Sess :=
  call c.pol (fun s =>
    match getBucket c F s with
    | (.ok _, s1) =>
      let s2 := s1.tick api
      if !s2.acctOk then (.err c.e401, s2)
      else if miss then (.err (.status 404 false), s2)
      else (.ok (), { s2 with store := eff s2.store })
    | (.err e, s1) => (.err e, s1)
    | (.fuel, s1) => (.fuel, s1)) F 1 0 s.ensureAuth

/-! ## operations, sessions, and what the abstract store says -/

inductive Op
  | upload (n : Nat) (d : Bytes)         -- `upload` and `upload_stream`
  | download (n : Nat)                   -- `download` and `download_stream`
  | exists (n : Nat)
  | delete (n : Nat)
  | list (bound : Nat)                   -- `list_files('')`; names are `0 … bound-1`
deriving DecidableEq, Repr

inductive Val | unit | bytes (b : Bytes) | bool (b : Bool) | names (l : List Nat)
deriving DecidableEq, Repr

/-- the store after the operation, by the specification `Name → Option Bytes` -/
def specStore (st : Store) : Op → Store
  | .upload n d => fun m => if m = n then some d else st m
  | .delete n => fun m => if m = n then none else st m
  | _ => st

/-- what the operation returns, read off the store it leaves -/
def specVal (st : Store) : Op → Val
  | .upload _ _ => .unit
  | .download n => .bytes ((st n).getD [])
  | .exists n => .bool (st n).isSome
  | .delete _ => .unit
  | .list bound => .names ((List.range bound).filter fun m => (st m).isSome)

structure OpRes where
  out : R Val
  requests : Nat
  auths : Nat
  sleeps : Nat
  apis : List Api            -- in the order the service saw them

/-- one operation on the object; `mid = some (k, ev)`: `ev` happens just before the (k+1)-th request of this operation (right after
the operation if it needs no more than k requests) -/
def runOp (c : Cfg) (F : Nat) (o : Op) (mid : Option (Nat × Ev)) (s : Sess) : OpRes × Sess :=
  let s0 : Sess := { s with pending := mid, log := [] }
  let p : R Unit × Sess := match o with
    | .upload n d => uploadOp c F n d s0
    | .download n => acctOp c F .download (s0.store n).isNone id s0
    | .exists _ => acctOp c F .head false id s0
    | .delete n => acctOp c F .hide false (fun st m => if m = n then none else st m) s0
    | .list _ => acctOp c F .listNames false id s0
  let s1 : Sess := match p.2.pending with
    | some (_, ev) => { p.2.apply ev with pending := none }
    | none => p.2
  (⟨p.1.map (fun _ => specVal s1.store o), s1.requests - s.requests, s1.auths - s.auths, s1.sleeps - s.sleeps, s1.log.reverse⟩, s1)

inductive Step
  | op (o : Op) (mid : Option (Nat × Ev))
  | ev (e : Ev)
deriving DecidableEq, Repr

/-- a history on one object; it ends with the first operation that does not terminate -/
def runSession (c : Cfg) (F : Nat) : List Step → Sess → List OpRes
  | [], _ => []
  | .ev e :: rest, s => runSession c F rest (s.apply e)
  | .op o mid :: rest, s =>
    let p := runOp c F o mid s
    p.1 :: (match p.1.out with
      | .fuel => []
      | _ => runSession c F rest p.2)

/-- the same history on the abstract store: what every operation returns -/
def specSession : List Step → Store → List Val
  | [], _ => []
  | .ev _ :: rest, st => specSession rest st
  | .op o _ :: rest, st => specVal (specStore st o) o :: specSession rest (specStore st o)

end Replicat.Cred
