import ReplicatModel.Generated
/-!
# How path ARGUMENTS become the list of files a snapshot records

Mirrors `replicat/utils/fs.py::iterative_scandir` / `flatten_paths`, `Repository._flatten_resolve_paths`
(`path.resolve(strict=True)`, `dict.fromkeys`) and the sort `files.sort(key=lambda file: (file.stat().st_size, str(file)))`
of `Repository.snapshot`.

* The file system is a finite tree (`Node` / `Entries`, directory order = order of the entries).  A symlink carries its
  target as components, absolute or relative to the directory it sits in.
* `walkComps` / `resolveFrom`: component-wise resolution; `..` pops the physical path (what `posixpath.realpath` does),
  a missing component is `enoent`, a component below a non-directory `enotdir`, every symlink met costs one unit of fuel.
  The SAME function is used twice with different fuel/exhaustion error, as the real code does two different things:
  - arguments: `Path.resolve(strict=True)` (CPython 3.12 `realpath`, own loop detection, NO depth limit; a loop raises
    `RuntimeError("Symlink loop from …")` = `Err.loopRT`); fuel = `argFuel` (parameter; any non-looping expansion that
    needs more is outside the model),
  - entries met while walking: `DirEntry.is_dir/is_file(follow_symlinks=True)` = kernel `stat` of the path the entry was
    REACHED by, `ELOOP` after `kernelLinkLimit = 40` symlinks in ONE lookup; `FileNotFoundError` is swallowed (→ neither
    dir nor file), every other `OSError` (ELOOP, ENOTDIR) propagates and aborts the whole snapshot.
* `walk`: the explicit stack of `iterative_scandir` (head = top).  Stack elements are (path reached by, entries of that
  directory): the real stack holds the path only and `os.scandir` looks it up again — the same directory on a file system
  that does not change during the walk (assumption of C01).
* `flattenArgs` is lazy in the real code (generator): resolve a₁, walk a₁, resolve a₂ … — the first error wins, which is
  what the sequential `match` does.
* Recorded identity = `str(path)` (`PurePath.__eq__/__hash__` compare the string), so `dedupKeys` works on the string.
-/
namespace Replicat.PathWalk

abbrev Path := List String

mutual
inductive Node where
  | file (size : Nat)
  | dir (es : Entries)
  | link (abs : Bool) (target : List String)
  | other
inductive Entries where
  | nil
  | cons (name : String) (n : Node) (rest : Entries)
end

inductive Err where
  | enoent | enotdir | eloop | loopRT | fuel
  deriving DecidableEq, Repr

def Entries.find? : Entries → String → Option Node
  | .nil, _ => none
  | .cons k n rest, name => if k = name then some n else rest.find? name

def Entries.toList : Entries → List (String × Node)
  | .nil => []
  | .cons k n rest => (k, n) :: rest.toList

/-- the kernel's MAXSYMLINKS -/
def kernelLinkLimit : Nat := 40

/-- ancestors, innermost first -/
abbrev Anc := List (String × Node)

def curNode (root : Node) : Anc → Node
  | [] => root
  | (_, n) :: _ => n

def pathOf (anc : Anc) : Path := (anc.map Prod.fst).reverse

inductive Step where
  | done (anc : Anc)
  | err (e : Err)
  | jump (anc : Anc) (rest : List String)

/-- components up to the first symlink -/
def walkComps (root : Node) : Anc → List String → Step
  | anc, [] => .done anc
  | anc, c :: r =>
    if c = ".." then walkComps root anc.tail r
    else match curNode root anc with
      | .dir es =>
        match es.find? c with
        | none => .err .enoent
        | some (.link abs t) => .jump (if abs then [] else anc) (t ++ r)
        | some n => walkComps root ((c, n) :: anc) r
      | _ => .err .enotdir

def resolveFrom (root : Node) (oof : Err) : Nat → Anc → List String → Except Err Anc
  | 0, anc, rest =>
    match walkComps root anc rest with
    | .done a => .ok a
    | .err e => .error e
    | .jump _ _ => .error oof
  | f + 1, anc, rest =>
    match walkComps root anc rest with
    | .done a => .ok a
    | .err e => .error e
    | .jump a r => resolveFrom root oof f a r

/-- `Path.resolve(strict=True)` of an absolute argument: the physical path and the node there -/
def resolveArg (root : Node) (argFuel : Nat) (p : Path) : Except Err (Path × Node) :=
  match resolveFrom root .loopRT argFuel [] p with
  | .ok a => .ok (pathOf a, curNode root a)
  | .error e => .error e

/-- kernel `stat` (following) of a path -/
def statFollow (root : Node) (p : Path) : Except Err Node :=
  match resolveFrom root .eloop kernelLinkLimit [] p with
  | .ok a => .ok (curNode root a)
  | .error e => .error e

inductive Kind where
  | isDir (es : Entries)
  | isFile (size : Nat)
  | neither

/-- `entry.is_dir(follow_symlinks=follow)` then `elif entry.is_file(follow_symlinks=follow)` for the entry `n` reached by `p`.
Non-links are decided by `d_type`; a link is `stat`ed (once, cached in the DirEntry). -/
def classify (root : Node) (follow : Bool) (p : Path) : Node → Except Err Kind
  | .dir es => .ok (.isDir es)
  | .file s => .ok (.isFile s)
  | .other => .ok .neither
  | .link _ _ =>
    if follow then
      match statFollow root p with
      | .ok (.dir es) => .ok (.isDir es)
      | .ok (.file s) => .ok (.isFile s)
      | .ok _ => .ok .neither
      | .error .enoent => .ok .neither
      | .error e => .error e
    else .ok .neither

abbrev Frame := Path × Entries
abbrev Found := Path × Nat

/-- one `with os.scandir(start) as it: for entry in it:` — directories to push (in entry order), files yielded (in entry order) -/
def scan (root : Node) (follow : Bool) (start : Path) : Entries → Except Err (List Frame × List Found)
  | .nil => .ok ([], [])
  | .cons name n rest =>
    match classify root follow (start ++ [name]) n with
    | .error e => .error e
    | .ok k =>
      match scan root follow start rest with
      | .error e => .error e
      | .ok (ds, fs) =>
        match k with
        | .isDir es => .ok ((start ++ [name], es) :: ds, fs)
        | .isFile s => .ok (ds, (start ++ [name], s) :: fs)
        | .neither => .ok (ds, fs)

/-- `stack.append` of `ds` one by one, then `stack.pop()` (LIFO, head = top) or `stack.pop(0)` (FIFO, head = front) -/
def push (lifo : Bool) (ds stack : List Frame) : List Frame :=
  if lifo then ds.reverse ++ stack else stack ++ ds

def walk (root : Node) (follow lifo : Bool) : Nat → List Frame → Except Err (List Found)
  | _, [] => .ok []
  | 0, _ :: _ => .error .fuel
  | n + 1, (start, es) :: stack =>
    match scan root follow start es with
    | .error e => .error e
    | .ok (ds, fs) =>
      match walk root follow lifo n (push lifo ds stack) with
      | .error e => .error e
      | .ok rest => .ok (fs ++ rest)

structure Cfg where
  follow : Bool
  lifo : Bool
  dedup : Bool
  argFuel : Nat
  walkFuel : Nat

/-- the configuration read from the source (`tools/sections/01_pathwalk.py`) -/
def genCfg (argFuel walkFuel : Nat) : Cfg :=
  { follow := Gen.pwWalkFollow, lifo := Gen.pwLifo, dedup := Gen.pwDedup, argFuel := argFuel, walkFuel := walkFuel }

/-- one element of `flatten_paths` after `resolve`: directory → walked, file → itself, neither → silently skipped -/
def flattenOne (cfg : Cfg) (root : Node) (p : Path) : Node → Except Err (List Found)
  | .dir es => walk root cfg.follow cfg.lifo cfg.walkFuel [(p, es)]
  | .file s => .ok [(p, s)]
  | _ => .ok []

def flattenArgs (cfg : Cfg) (root : Node) : List Path → Except Err (List Found)
  | [] => .ok []
  | a :: as =>
    match resolveArg root cfg.argFuel a with
    | .error e => .error e
    | .ok (p, n) =>
      match flattenOne cfg root p n with
      | .error e => .error e
      | .ok l =>
        match flattenArgs cfg root as with
        | .error e => .error e
        | .ok r => .ok (l ++ r)

def pathStr (p : Path) : String := "/" ++ "/".intercalate p

abbrev Rec := String × Nat

def toRec (f : Found) : Rec := (pathStr f.1, f.2)

/-- `list(dict.fromkeys(…))`: first occurrence of every key, in order -/
def dedupKeys : List Rec → List String → List Rec
  | [], _ => []
  | r :: rs, seen => if r.1 ∈ seen then dedupKeys rs seen else r :: dedupKeys rs (r.1 :: seen)

/-- `Repository._flatten_resolve_paths` -/
def flattenResolve (cfg : Cfg) (root : Node) (args : List Path) : Except Err (List Rec) :=
  match flattenArgs cfg root args with
  | .error e => .error e
  | .ok l => .ok (if cfg.dedup then dedupKeys (l.map toRec) [] else l.map toRec)

/-- the key `(file.stat().st_size, str(file))` -/
def keyLe (a b : Rec) : Bool := decide (a.2 < b.2) || (a.2 == b.2 && decide (a.1 ≤ b.1))

def sortFiles (l : List Rec) : List Rec := l.mergeSort keyLe

/-- the order `Repository.snapshot` streams the files in -/
def snapshotOrder (cfg : Cfg) (root : Node) (args : List Path) : Except Err (List Rec) :=
  match flattenResolve cfg root args with
  | .error e => .error e
  | .ok l => .ok (sortFiles l)

/-! measures for the termination theorems -/
mutual
def Node.dirCount : Node → Nat
  | .dir es => 1 + es.dirCount
  | _ => 0
def Entries.dirCount : Entries → Nat
  | .nil => 0
  | .cons _ n rest => n.dirCount + rest.dirCount
end

mutual
def Node.noLinks : Node → Bool
  | .dir es => es.noLinks
  | .link _ _ => false
  | _ => true
def Entries.noLinks : Entries → Bool
  | .nil => true
  | .cons _ n rest => n.noLinks && rest.noLinks
end

end Replicat.PathWalk
