import ReplicatModel.Basic
import ReplicatModel.Generated
/-!
# The stack of file wrappers the commands put around a stream, and the loop that drains it

`replicat/utils/__init__.py`: `_RateLimitedFileWrapper`, `TQDMIOBase` / `TQDMIOReader` / `TQDMIOWriter`, `iter_chunks`;
`tqdm.utils.CallbackIOWrapper` (third party, part of the stack of upload_objects / download_objects);
`replicat/repository.py`: the order of wrapping at the four call sites.

* `File` — io.BytesIO / a binary file opened `w+b` (positions, zero fill, what raises), plus `cap`: a stream whose
  `read(n ≥ 0)` returns at most `cap` bytes per call (`cap = 0`: never short).
* a wrapper layer = for each of read / write / seek / tell / truncate either "not defined" (AttributeError) or
  "hand the arguments to the same method of the wrapped object, return its result, then tell somebody" (`Effect`).
  `layerSpec` is the model; `specTable` renders it and is compared with `Gen.ioWrapperTable` (probed from the classes).
* the wrappers keep no state of their own besides the tracker / limiter, which are modelled as the list of calls they
  receive (`Ev`); the tracker's counter is `trackerN` of that list.
-/
namespace Replicat.IOStack

inductive Kind | bytesio | osfile
  deriving DecidableEq, Repr

structure File where
  kind : Kind
  content : Bytes
  pos : Nat
  cap : Nat
  deriving DecidableEq, Repr

inductive Meth | read | write | seek | tell | truncate
  deriving DecidableEq, Repr

inductive Op
  | read (n : Option Int)
  | write (d : Bytes)
  | seek (off : Int) (whence : Nat)
  | tell
  | truncate (n : Option Int)
  deriving DecidableEq, Repr

def Op.meth : Op → Meth
  | .read _ => .read
  | .write _ => .write
  | .seek _ _ => .seek
  | .tell => .tell
  | .truncate _ => .truncate

/-- `noMethod`: AttributeError (the wrapper has no such method); `invalid`: ValueError / OSError(EINVAL) of the file -/
inductive Res
  | bytes (b : Bytes)
  | num (n : Nat)
  | noMethod
  | invalid
  deriving DecidableEq, Repr

def File.avail (f : File) : Nat := f.content.length - f.pos

/-- number of bytes `read(n)` returns: `None` / negative = everything that is left -/
def File.readLen (f : File) (n : Option Int) : Nat :=
  match n with
  | none => f.avail
  | some k =>
    if k < 0 then f.avail
    else if f.cap = 0 then min k.toNat f.avail else min (min k.toNat f.avail) f.cap

def File.read (f : File) (n : Option Int) : File × Res :=
  let k := f.readLen n
  ({ f with pos := f.pos + k }, .bytes ((f.content.drop f.pos).take k))

/-- overwrite + extend; a gap left by a seek past the end is filled with zeros; an empty write changes nothing -/
def File.write (f : File) (d : Bytes) : File × Res :=
  if d.length = 0 then (f, .num 0)
  else
    let base := f.content ++ List.replicate (f.pos - f.content.length) (0 : UInt8)
    ({ f with content := base.take f.pos ++ d ++ base.drop (f.pos + d.length), pos := f.pos + d.length }, .num d.length)

/-- whence 0/1/2; other values raise.  A negative target: whence 0 raises; whence 1/2 — BytesIO clamps to 0, a file raises -/
def File.seek (f : File) (off : Int) (whence : Nat) : File × Res :=
  let base : Option Int :=
    if whence = 0 then some 0 else if whence = 1 then some (f.pos : Int)
    else if whence = 2 then some (f.content.length : Int) else none
  match base with
  | none => (f, .invalid)
  | some b =>
    let t := b + off
    if t < 0 then
      (if whence = 0 then (f, .invalid)
       else match f.kind with
         | .bytesio => ({ f with pos := 0 }, .num 0)
         | .osfile => (f, .invalid))
    else ({ f with pos := t.toNat }, .num t.toNat)

def File.tell (f : File) : File × Res := (f, .num f.pos)

/-- `truncate(None)` = at the position; the position never moves; BytesIO never grows, a file is extended with zeros -/
def File.truncate (f : File) (n : Option Int) : File × Res :=
  let size : Int := match n with | none => (f.pos : Int) | some k => k
  if size < 0 then (f, .invalid)
  else
    let s := size.toNat
    let c := if s < f.content.length then f.content.take s
             else match f.kind with
               | .bytesio => f.content
               | .osfile => f.content ++ List.replicate (s - f.content.length) (0 : UInt8)
    ({ f with content := c }, .num s)

def File.apply (f : File) : Op → File × Res
  | .read n => f.read n
  | .write d => f.write d
  | .seek o w => f.seek o w
  | .tell => f.tell
  | .truncate n => f.truncate n

/-! ## wrapper layers -/

inductive Layer
  | tqdmReader | tqdmWriter
  | callback (onWrite : Bool)      -- tqdm.utils.CallbackIOWrapper(cb, stream, 'write' | 'read')
  | limiter                        -- _RateLimitedFileWrapper
  deriving DecidableEq, Repr

/-- calls received by the progress tracker (`update`, `reset`), the limiter (`pause`) and the byte counter callback -/
inductive Ev
  | update (n : Nat)
  | reset (total : Option Nat)
  | pause (isWrite : Bool) (bytes : Nat)
  | callback (n : Nat)
  deriving DecidableEq, Repr

/-- what a wrapper method does after the wrapped object's method of the same name returned `r` -/
inductive Effect
  | nothing
  | updateLen        -- tracker.update(len(r))
  | updateRes        -- tracker.update(r)
  | resetUpdateRes   -- tracker.reset(); tracker.update(r)
  | resetRes         -- tracker.reset(r)
  | pauseReadLen     -- limiter.pause_reads(len(r) / read_limit − elapsed)
  | pauseWriteRes    -- limiter.pause_writes(r / write_limit − elapsed)
  | cbLenRes         -- callback(len(r))
  | cbLenArg         -- callback(len(data))
  deriving DecidableEq, Repr

def layerSpec : Layer → Meth → Option Effect
  | .tqdmReader, .read => some .updateLen
  | .tqdmReader, .seek => some .resetUpdateRes
  | .tqdmReader, .truncate => some .resetRes
  | .tqdmReader, _ => none
  | .tqdmWriter, .write => some .updateRes
  | .tqdmWriter, .seek => some .resetUpdateRes
  | .tqdmWriter, .truncate => some .resetRes
  | .tqdmWriter, _ => none
  | .callback false, .read => some .cbLenRes
  | .callback true, .write => some .cbLenArg
  | .callback _, _ => some .nothing
  | .limiter, .read => some .pauseReadLen
  | .limiter, .write => some .pauseWriteRes
  | .limiter, _ => some .nothing

/-- the calls an effect makes; nothing when the wrapped call raised (the exception passes before any of them) -/
def effEvents (e : Effect) (op : Op) (r : Res) : List Ev :=
  match r with
  | .noMethod => []
  | .invalid => []
  | .bytes b =>
    (match e with
     | .updateLen => [.update b.length]
     | .pauseReadLen => [.pause false b.length]
     | .cbLenRes => [.callback b.length]
     | _ => [])
  | .num n =>
    (match e with
     | .updateRes => [.update n]
     | .resetUpdateRes => [.reset none, .update n]
     | .resetRes => [.reset (some n)]
     | .pauseWriteRes => [.pause true n]
     | .cbLenArg => (match op with | .write d => [.callback d.length] | _ => [])
     | _ => [])

/-- one call through the layers (outermost first).  The wrapped call happens first, then the layer's own calls. -/
def stackStep : List Layer → File → Op → File × Res × List Ev
  | [], f, op => let fr := f.apply op; (fr.1, fr.2, [])
  | l :: ls, f, op =>
    match layerSpec l op.meth with
    | none => (f, .noMethod, [])
    | some e => let r := stackStep ls f op; (r.1, r.2.1, r.2.2 ++ effEvents e op r.2.1)

def runStack (ls : List Layer) : File → List Op → File × List Res × List Ev
  | f, [] => (f, [], [])
  | f, op :: ops =>
    let a := stackStep ls f op
    let b := runStack ls a.1 ops
    (b.1, a.2.1 :: b.2.1, a.2.2 ++ b.2.2)

/-- the stack offers a method iff every layer has it (`__getattr__` of the callback wrapper passes everything through) -/
def offers (ls : List Layer) (m : Meth) : Bool := ls.all (fun l => (layerSpec l m).isSome)

/-- the SPECIFICATION: the bare file, except that a method the wrapper does not have raises and changes nothing -/
def bareStep (ls : List Layer) (f : File) (op : Op) : File × Res :=
  if offers ls op.meth then f.apply op else (f, .noMethod)

def runBare (ls : List Layer) : File → List Op → File × List Res
  | f, [] => (f, [])
  | f, op :: ops => let a := bareStep ls f op; let b := runBare ls a.1 ops; (b.1, a.2 :: b.2)

/-- the plain file, no wrapper at all -/
def runFile : File → List Op → File × List Res
  | f, [] => (f, [])
  | f, op :: ops => let a := f.apply op; let b := runFile a.1 ops; (b.1, a.2 :: b.2)

/-! ## the tracker (tqdm: `update(n)`: n += n; `reset(total)`: n = 0 and, if given, total = total) -/

def trackerStep (n : Nat) : Ev → Nat
  | .update k => n + k
  | .reset _ => 0
  | _ => n

def trackerN (n0 : Nat) (evs : List Ev) : Nat := evs.foldl trackerStep n0

def totalStep (t : Option Nat) : Ev → Option Nat
  | .reset (some k) => some k
  | _ => t

def trackerTotal (t0 : Option Nat) (evs : List Ev) : Option Nat := evs.foldl totalStep t0

/-- bytes moved by a result, as the tracker of a stack counts them -/
def Res.moved : Res → Nat
  | .bytes b => b.length
  | .num n => n
  | _ => 0

/-! ## `iter_chunks(file, chunk_size)` = `iter(lambda: file.read(chunk_size), b'')` -/

structure Drain where
  file : File
  pieces : List Bytes
  events : List Ev
  /-- ended by an empty read (not by an exception, not by the fuel) -/
  ended : Bool

def iterChunks (ls : List Layer) (cs : Int) : Nat → File → Drain
  | 0, f => ⟨f, [], [], false⟩
  | fuel + 1, f =>
    let r := stackStep ls f (.read (some cs))
    match r.2.1 with
    | .bytes b =>
      if b.length = 0 then ⟨r.1, [], r.2.2, true⟩
      else let d := iterChunks ls cs fuel r.1; ⟨d.file, b :: d.pieces, r.2.2 ++ d.events, d.ended⟩
    | _ => ⟨r.1, [], r.2.2, false⟩

/-- enough for every file: each non-empty read moves the position by at least one -/
def drainFuel (f : File) : Nat := f.avail + 1

def drain (ls : List Layer) (cs : Int) (f : File) : Drain := iterChunks ls cs (drainFuel f) f

/-- what the backends' retry does: `stream.seek(0)` through the stack, then the upload loop again -/
def rewindDrain (ls : List Layer) (cs : Int) (f : File) : Drain :=
  drain ls cs (stackStep ls f (.seek 0 0)).1

/-! ## the stacks of the four commands, outermost first (`limited`: a rate limit was given) -/

inductive Cmd | snapshot | restore | uploadObjects | downloadObjects
  deriving DecidableEq, Repr

def Cmd.name : Cmd → String
  | .snapshot => "snapshot" | .restore => "restore"
  | .uploadObjects => "upload_objects" | .downloadObjects => "download_objects"

def commandStack (c : Cmd) (limited : Bool) : List Layer :=
  let lim := if limited then [Layer.limiter] else []
  match c with
  | .snapshot => .tqdmReader :: lim
  | .restore => .tqdmWriter :: lim
  | .uploadObjects => .tqdmReader :: .callback false :: lim
  | .downloadObjects => .tqdmWriter :: .callback true :: lim

/-! ## rendering of the model's tables in the vocabulary of the extractor (tools/sections/20_iostack.py) -/

def Meth.name : Meth → String
  | .read => "read" | .write => "write" | .seek => "seek" | .tell => "tell" | .truncate => "truncate"

def Effect.code : Effect → String
  | .nothing => ""
  | .updateLen => "tracker.update(len(r))"
  | .updateRes => "tracker.update(r)"
  | .resetUpdateRes => "tracker.reset();tracker.update(r)"
  | .resetRes => "tracker.reset(r)"
  | .pauseReadLen => "limiter.pause_reads(len(r))"
  | .pauseWriteRes => "limiter.pause_writes(r)"
  | .cbLenRes => "callback(len(r))"
  | .cbLenArg => "callback(len(data))"

def Layer.name : Layer → String
  | .tqdmReader => "TQDMIOReader" | .tqdmWriter => "TQDMIOWriter"
  | .callback false => "CallbackIOWrapper:read" | .callback true => "CallbackIOWrapper:write"
  | .limiter => "_RateLimitedFileWrapper"

def allMeths : List Meth := [.read, .write, .seek, .tell, .truncate]

/-- (class, method, method of the wrapped object that receives the arguments and whose result is returned, what follows);
    `-` = the class has no such method -/
def specRows (l : Layer) : List (String × String × String × String) :=
  allMeths.map (fun m => match layerSpec l m with
    | none => (l.name, m.name, "-", "")
    | some e => (l.name, m.name, m.name, e.code))

def specTable : List (String × String × String × String) :=
  specRows .limiter ++ specRows .tqdmReader ++ specRows .tqdmWriter ++ specRows (.callback false) ++ specRows (.callback true)

def layerNames (ls : List Layer) : List String :=
  ls.map (fun l => if l = .limiter then "limiter?" else l.name)

/-- (command, layers from the outermost one; `limiter?` = only when a rate limit is given) -/
def siteTable : List (String × List String) :=
  [Cmd.snapshot, .restore, .uploadObjects, .downloadObjects].map (fun c => (c.name, layerNames (commandStack c true)))

end Replicat.IOStack
