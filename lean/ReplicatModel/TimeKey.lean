import ReplicatModel.Generated
/-!
# What the snapshot order is computed from (C15, time zones)

The repository model (`Repo.lean`) orders snapshots by `Body.ts`, the snapshot's UTC timestamp.  The code orders them by a KEY it
derives from the recorded `'utc_timestamp'` string, in a process that has a local time zone.  This file models that key as a
function of (kind of key, zone of the running process, UTC value), with the kinds the extractor assigns
(`tools/sections/15_timekey.py` → `Gen.restoreSortKeyCode`, `Gen.listSnapshotsSortKeyCode`, `Gen.listFilesSortKeyCode`,
`Gen.recordedClockCode`).  Core Lean only.
-/
namespace Replicat.TimeKey

/-- what a sort key (or the recorded value) is, as a function of the snapshot's UTC timestamp -/
inductive KeyKind where
  | utcString      -- the recorded string / str() of the naive UTC datetime
  | naiveUtc       -- a naive datetime holding the UTC value
  | utcInstant     -- aware datetime / epoch number obtained by declaring the value to be UTC
  | localEpoch     -- the naive UTC value re-read as LOCAL time: `naive.timestamp()`, `time.mktime`, `naive.astimezone()`
  | localWall      -- the instant on the LOCAL wall clock: `datetime.now()`, `fromtimestamp(x)`, `time.localtime`
  | unrecognised
  deriving DecidableEq, Repr

def KeyKind.ofCode : Nat → KeyKind
  | 0 => .utcString
  | 1 => .naiveUtc
  | 2 => .utcInstant
  | 3 => .localEpoch
  | 4 => .localWall
  | _ => .unrecognised

/-- kinds whose value does not involve the zone of the running process at all -/
def KeyKind.zoneFree : KeyKind → Bool
  | .utcString | .naiveUtc | .utcInstant => true
  | _ => false

/-- The time zone of a process as the C library presents it: epoch second ↦ wall-clock second (both counted from
1970-01-01 00:00:00).  An ARBITRARY function — every rule set, every gap (spring forward) and fold (fall back). -/
abbrev Zone := Int → Int

/-- CPython's `datetime._mktime` (`local_to_seconds`, fold = 0): the epoch second a naive wall-clock value `t` is taken for by
`naive.timestamp()` / `naive.astimezone()`.  In a gap no `u` has `loc u = t`; the later of the two candidates is returned. -/
def pyMktime (loc : Zone) (t : Int) : Int :=
  let a := loc t - t
  let u1 := t - a
  let t1 := loc u1
  let b := if t1 == t then loc (u1 - 86400) - (u1 - 86400) else t1 - u1
  if t1 == t && a == b then u1
  else
    let u2 := t - b
    let t2 := loc u2
    if t2 == t then u2 else if t1 == t then u1 else max u1 u2

/-- the key of kind `k`, computed in a process whose zone is `loc`, for the UTC value `t` -/
def sortKey (k : KeyKind) (loc : Zone) (t : Int) : Int :=
  match k with
  | .localEpoch => pyMktime loc t
  | .localWall => loc t
  | _ => t            -- zone-free kinds: order-isomorphic to the UTC value; `unrecognised`: excluded by hypothesis wherever used

/-- the kinds read from the source -/
def restoreKey : KeyKind := .ofCode Gen.restoreSortKeyCode
def listSnapshotsKey : KeyKind := .ofCode Gen.listSnapshotsSortKeyCode
def listFilesKey : KeyKind := .ofCode Gen.listFilesSortKeyCode
/-- what `snapshot` stores as 'utc_timestamp', as a function of the true instant (zone = the snapshotting machine's) -/
def recordedClock : KeyKind := .ofCode Gen.recordedClockCode

/-- a zone with one transition at epoch second `at`: offset `before` until then, `after` from then on -/
def stepZone (at' before after : Int) : Zone := fun u => if u < at' then u + before else u + after

end Replicat.TimeKey
