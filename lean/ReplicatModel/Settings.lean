import ReplicatModel.Generated
/-!
# C17 — settings acceptance (`Repository.init`, `add_key`, `adapters.from_config`, adapter constructors)

Executable model of what replicat *currently does* with a settings dictionary:

* `validateShape`      — `_validate_settings` (unknown keys, `isinstance` against the schema)
* `fromConfig`         — `adapters.from_config` (look the adapter up by name, `inspect.signature(...).bind`, apply defaults)
* `construct`          — the adapter constructor: the generated guards (`Gen.adapterTable`) with Python comparison
                         semantics, followed by the hand-modelled rest of `__init__` (`// 8`, `getattr(hashlib, …)`)
* `stage` / `runStages`— the statements of `Repository.init` in the order found in the source (`Gen.initStages`),
                         including WHERE the config is uploaded
* `usable`             — the documented preconditions of the primitives (specification, third-party facts)
* `Ring`, `stepKey`    — symbolic key files for chains of `add-key` (ideal KDF / AEAD)

Where Python raises, the model returns the exception class (`Err`).  Core Lean only.
-/
namespace Replicat.Settings
open Replicat.Gen

/-- Python exception classes distinguished by the model -/
inductive Err where
  | replicatError | lookupError | typeError | valueError | attributeError | overflowError | keyError | memoryError
  | other (what : String)
  deriving DecidableEq, Repr

abbrev R := Except Err

/-! ## values -/

/-- an adapter argument: a scalar or *some* mapping (never inspected by a constructor, only compared / type-tested) -/
inductive Arg where
  | val (v : Val)
  | mapping
  deriving DecidableEq, Repr

abbrev Args := List (String × Arg)

/-- second level of a settings dictionary (the values inside `encryption`, or the arguments inside `hashing`) -/
inductive V2 where
  | val (v : Val)
  | args (a : Args)
  deriving Repr

/-- first level (values of the top-level keys) -/
inductive V1 where
  | val (v : Val)
  | m (kvs : List (String × V2))
  deriving Repr

abbrev Settings := List (String × V1)

def V2.toArg : V2 → Arg
  | .val v => .val v
  | .args _ => .mapping

/-- numeric value of int / bool / finite float (Python's numeric tower: `True == 1`) -/
def numOf : Val → Option Rat
  | .int i => some (i : Rat)
  | .bool b => some (if b then 1 else 0)
  | .float q => some q
  | _ => none

/-- `isinstance(v, int)` — bool is a subclass of int -/
def intLike : Arg → Option Int
  | .val (.int i) => some i
  | .val (.bool b) => some (if b then 1 else 0)
  | _ => none

def cmpRat (op : CmpOp) (a b : Rat) : Bool :=
  match op with
  | .lt => decide (a < b) | .le => decide (a ≤ b) | .gt => decide (b < a) | .ge => decide (b ≤ a)
  | .eq => decide (a = b) | .ne => !decide (a = b)

def cmpStr (op : CmpOp) (a b : String) : Bool :=
  match op with
  | .lt => decide (a < b) | .le => !decide (b < a) | .gt => decide (b < a) | .ge => !decide (a < b)
  | .eq => decide (a = b) | .ne => !decide (a = b)

def isNumeric (v : Val) : Bool := (numOf v).isSome || v == .nan

/-- Python `a <op> b` for the value universe: numbers compare numerically (NaN: everything false except `!=`), strings
lexicographically by code point, `None`/mappings/mixed types support only `==`/`!=`; an unsupported ordering raises TypeError. -/
def pyCmp (op : CmpOp) (a b : Arg) : R Bool :=
  match a, b with
  | .val x, .val y =>
    match numOf x, numOf y with
    | some p, some q => pure (cmpRat op p q)
    | _, _ =>
      if isNumeric x && isNumeric y then pure (op == .ne)          -- a NaN is involved
      else match x, y with
        | .str s, .str t => pure (cmpStr op s t)
        | _, _ =>
          match op with
          | .eq => pure (decide (x = y))
          | .ne => pure (!decide (x = y))
          | _ => throw .typeError
  | _, _ =>
    match op with
    | .eq => pure false      -- a mapping against anything that is not the same object (contents are not modelled)
    | .ne => pure true
    | _ => throw .typeError

/-- `x in (i₁, i₂, …)` — equality against int literals (`256.0 in (128, 192, 256)` is True, `True in (1,)` is True) -/
def pyIn (a : Arg) (vals : List Int) : Bool :=
  match a with
  | .val (.int j) => vals.contains j
  | .val (.bool b) => vals.contains (if b then 1 else 0)
  | .val (.float q) => vals.any (fun i => decide (q = (i : Rat)))
  | _ => false

def lookupArg (args : Args) (p : String) : R Arg :=
  match args.lookup p with
  | some a => pure a
  | none => throw (.other "unbound parameter")

/-- Python `x + k` for an int literal `k` -/
def pyAddInt (a : Arg) (k : Int) : R Arg :=
  match a with
  | .val (.int i) => .ok (.val (.int (i + k)))
  | .val (.bool b) => .ok (.val (.int ((if b then 1 else 0) + k)))
  | .val (.float q) => .ok (.val (.float (q + (k : Rat))))
  | .val .nan => .ok (.val .nan)
  | _ => .error .typeError

def evalTerm (args : Args) : GTerm → R Arg
  | .param p => lookupArg args p
  | .lit i => pure (.val (.int i))
  | .add a k => do pyAddInt (← evalTerm args a) k

/-- a guard condition, with Python's short-circuit `and` / `or` -/
def evalCond (args : Args) : GCond → R Bool
  | .cmp op a b => do pyCmp op (← evalTerm args a) (← evalTerm args b)
  | .chain a o1 b o2 c => do
      let x ← evalTerm args a
      let y ← evalTerm args b
      if (← pyCmp o1 x y) then pyCmp o2 y (← evalTerm args c) else pure false
  | .isIn a vals => do pure (pyIn (← evalTerm args a) vals)
  | .notIn a vals => do pure (!pyIn (← evalTerm args a) vals)
  | .isInt a => do pure (intLike (← evalTerm args a)).isSome
  | .neg c => do pure (!(← evalCond args c))
  | .conj c d => do if (← evalCond args c) then evalCond args d else pure false
  | .disj c d => do if (← evalCond args c) then pure true else evalCond args d

def errOfName (n : String) : Err :=
  if n == "ValueError" then .valueError
  else if n == "TypeError" then .typeError
  else if n == "exceptions.ReplicatError" then .replicatError
  else if n == "LookupError" then .lookupError
  else .other n

def runGuards (args : Args) : List Guard → R Unit
  | [] => pure ()
  | g :: gs => do
      if (← evalCond args g.cond) then throw (errOfName g.raises)
      runGuards args gs

/-! ## `adapters.from_config` -/

def findRow (name : String) : Option AdapterRow := adapterTable.find? (fun r => r.name == name)

def hasKey (kv : Args) (k : String) : Bool := kv.any (fun p => p.1 == k)

/-- `dict.setdefault('name', default)` -/
def withDefaultName (kv : Args) (dflt : String) : Args :=
  if hasKey kv "name" then kv else kv ++ [("name", .val (.str dflt))]

def bindArgs (row : AdapterRow) (rest : Args) : R Args :=
  if rest.any (fun p => !(row.params.any (fun q => q.1 == p.1))) then throw .replicatError        -- unexpected keyword
  else if row.params.any (fun q => q.2.isNone && !hasKey rest q.1) then throw .replicatError      -- missing required
  else pure (row.params.map (fun q => (q.1, match rest.lookup q.1 with
                                              | some a => a
                                              | none => match q.2 with
                                                | some d => .val d
                                                | none => .val .none)))

def fromConfig (kv : Args) : R (AdapterRow × Args) :=
  match kv.lookup "name" with
  | none => throw .typeError                         -- from_config() missing 1 required positional argument
  | some .mapping => throw .typeError                -- unhashable
  | some (.val (.str n)) =>
    match findRow n with
    | none => throw .lookupError
    | some row => do
      let a ← bindArgs row (kv.filter (fun p => p.1 != "name"))
      pure (row, a)
  | some (.val _) => throw .lookupError

/-! ## constructors -/

structure Inst where
  row : AdapterRow
  args : Args
  /-- `key_bytes` / `_nonce_bytes` exist only on the AEAD cipher adapters -/
  keyBytes : Option Arg := none
  nonceBytes : Option Arg := none
  deriving Repr

/-- Python `x // 8` -/
def floorDiv8 : Arg → R Arg
  | .val (.int i) => pure (.val (.int (i / 8)))
  | .val (.bool _) => pure (.val (.int 0))
  | .val (.float q) => pure (.val (.float ((q / 8).floor : Int)))
  | .val .nan => pure (.val .nan)
  | _ => throw .typeError

def constArg (row : AdapterRow) (k : String) : R Arg :=
  match row.consts.lookup k with
  | some i => pure (.val (.int i))
  | none => throw .attributeError

/-- `adapter_type(**adapter_args)`: the generated guards, then the hand-modelled remainder of `__init__` -/
def construct (row : AdapterRow) (args : Args) : R Inst :=
  match runGuards args row.guards with
  | .error e => .error e
  | .ok _ =>
    if row.name == "aes_gcm" then
      -- self._key_bytes, self._nonce_bytes = self.key_bits // 8, self.nonce_bits // 8
      match lookupArg args "key_bits" with
      | .error e => .error e
      | .ok kbits =>
        match floorDiv8 kbits with
        | .error e => .error e
        | .ok kb =>
          match lookupArg args "nonce_bits" with
          | .error e => .error e
          | .ok nbits =>
            match floorDiv8 nbits with
            | .error e => .error e
            | .ok nb => .ok { row, args, keyBytes := some kb, nonceBytes := some nb }
    else if row.name == "chacha20_poly1305" then
      match constArg row "key_bits" with
      | .error e => .error e
      | .ok kbits =>
        match floorDiv8 kbits with
        | .error e => .error e
        | .ok kb =>
          match constArg row "nonce_bits" with
          | .error e => .error e
          | .ok nbits =>
            match floorDiv8 nbits with
            | .error e => .error e
            | .ok nb => .ok { row, args, keyBytes := some kb, nonceBytes := some nb }
    else if row.name == "sha2" || row.name == "sha3" then
      -- getattr(hashlib, f'sha{bits}'): a float that passed the membership test (256.0) has no such attribute
      match lookupArg args "bits" with
      | .ok (.val (.int _)) => .ok { row, args }
      | .ok _ => .error .attributeError
      | .error e => .error e
    else .ok { row, args }

def hasKind (row : AdapterRow) (k : String) : Bool := row.kinds.contains k

/-! ## third-party primitives (hand model of the library checks that `init` runs into) -/

def isPow2 (n : Int) : Bool := decide (0 < n) && (n.toNat &&& (n.toNat - 1)) == 0

/-- conversion to an unsigned machine integer (`cryptography`'s Rust binding, `os.urandom`) -/
def toUnsigned (a : Arg) : R Int :=
  match intLike a with
  | some i => if i < 0 then throw .overflowError else pure i
  | none => throw .typeError

def unsignedArg (args : Args) (p : String) : R Int :=
  match lookupArg args p with
  | .error e => .error e
  | .ok a => toUnsigned a

/-- `Scrypt(salt, length, n, r, p).derive(pwd)`: argument conversion, then the library's value checks -/
def scryptDerive (args : Args) : R Unit :=
  match unsignedArg args "length" with
  | .error e => .error e
  | .ok _ =>
    match unsignedArg args "n" with
    | .error e => .error e
    | .ok n =>
      match unsignedArg args "r" with
      | .error e => .error e
      | .ok r =>
        match unsignedArg args "p" with
        | .error e => .error e
        | .ok p =>
          if n < 2 || !isPow2 n then .error .valueError
          else if r < 1 then .error .valueError
          else if p < 1 then .error .valueError
          else if decide ((2 : Int) ^ (16 * r.toNat) ≤ n) then .error .memoryError      -- RFC 7914: N < 2^(128·r/8)
          else .ok ()

/-- `hashlib.blake2b(..., digest_size=length)` -/
def blake2bSize (a : Arg) : R Unit :=
  match intLike a with
  | some i => if 1 ≤ i ∧ i ≤ 64 then pure () else throw .valueError
  | none => throw .typeError

def kdfDerive (k : Inst) : R Unit :=
  if !hasKind k.row "KDFAdapter" then .error .attributeError
  else if k.row.name == "scrypt" then scryptDerive k.args
  else if k.row.name == "blake2b" then
    match lookupArg k.args "length" with
    | .error e => .error e
    | .ok l => blake2bSize l
  else .ok ()

/-- `os.urandom(n)` -/
def urandom (a : Arg) : R Int :=
  match intLike a with
  | some i => if i < 0 then throw .valueError else pure i
  | none => throw .typeError

/-- `cipher.encrypt(data, key)` of the AEAD mixin with a key of `key_bytes` bytes (the user key is derived with
`length = key_bytes`): `cipher_class(key)` checks the key size, `os.urandom(_nonce_bytes)`, then the library's nonce check -/
def cipherEncrypt (c : Inst) : R Unit :=
  match c.keyBytes, c.nonceBytes with
  | some kb, some nb =>
    if c.row.name == "aes_gcm" then
      if !(intLike kb == some 16 || intLike kb == some 24 || intLike kb == some 32) then .error .valueError
      else
        match urandom nb with
        | .error e => .error e
        | .ok n => if 8 ≤ n ∧ n ≤ 128 then .ok () else .error .valueError
    else
      if !(intLike kb == some 32) then .error .valueError
      else
        match urandom nb with
        | .error e => .error e
        | .ok n => if n = 12 then .ok () else .error .valueError
  | _, _ => .error .attributeError

/-! ## `_validate_settings` -/

inductive Shape where | mapping | noneType | other
  deriving DecidableEq, Repr

def V1.shape : V1 → Shape
  | .m _ => .mapping
  | .val .none => .noneType
  | .val _ => .other

def V2.shape : V2 → Shape
  | .args _ => .mapping
  | .val .none => .noneType
  | .val _ => .other

def shapeAllowed (allowed : List String) : Shape → Bool
  | .mapping => allowed.contains "Mapping"
  | .noneType => allowed.contains "NoneType"
  | .other => false

def validateShape (schema : List (String × List String)) (obj : List (String × Shape)) : R Unit :=
  if obj.any (fun p => !(schema.any (fun q => q.1 == p.1))) then throw .replicatError
  else if obj.any (fun p => match schema.lookup p.1 with
                            | some al => !shapeAllowed al p.2
                            | none => true) then throw .replicatError
  else pure ()

def validateInit (s : Settings) : R Unit := do
  validateShape initSchema (s.map (fun p => (p.1, p.2.shape)))
  match s.lookup "encryption" with
  | none => pure ()
  | some (.val .none) => pure ()
  | some (.m kvs) => validateShape initEncryptionSchema (kvs.map (fun p => (p.1, p.2.shape)))
  | some (.val _) => throw .attributeError

/-! ## the state threaded through `Repository.init` -/

structure Config where
  hashing : AdapterRow × Args
  chunking : AdapterRow × Args
  cipher : Option (AdapterRow × Args)
  deriving Repr

structure Props where
  chunker : Inst
  hasher : Inst
  cipher : Option Inst
  deriving Repr

structure KeyMat where
  userKdf : Inst
  deriving Repr

/-- what `init` has computed so far (local variables of the function) -/
structure Core where
  config : Option Config := none
  props : Option Props := none
  key : Option KeyMat := none
  derived : Bool := false          -- `_instantiate_key` ran (user key derived from the password)
  sealed : Bool := false           -- private section encrypted
  deriving Repr

structure St where
  core : Core := {}
  puts : List String := []         -- names uploaded to the backend, in order
  deriving Repr

def St.config (st : St) : Option Config := st.core.config
def St.props (st : St) : Option Props := st.core.props
def St.key (st : St) : Option KeyMat := st.core.key

def sectionArgs (s : Settings) (key : String) : R Args :=
  match s.lookup key with
  | none => pure []
  | some (.m kvs) => pure (kvs.map (fun p => (p.1, p.2.toArg)))
  | some (.val _) => throw .attributeError

/-- `settings.get('encryption', {})`: `none` = the key is there and is `None` (unencrypted repository) -/
def encryptionSettings (s : Settings) : R (Option (List (String × V2))) :=
  match s.lookup "encryption" with
  | none => pure (some [])
  | some (.val .none) => pure none
  | some (.m kvs) => pure (some kvs)
  | some (.val _) => throw .attributeError

def subArgs (enc : List (String × V2)) (key : String) : R Args :=
  match enc.lookup key with
  | none => pure []
  | some (.args a) => pure a
  | some (.val _) => throw .attributeError

/-- one slot of `_make_config`: default name, `from_config`, and — if the source has one (`Gen.kindChecks`, none today) —
the `issubclass(type, adapters.<Base>)` check -/
def slotConfig (slot : String) (kv : Args) (dflt : String) : R (AdapterRow × Args) :=
  match fromConfig (withDefaultName kv dflt) with
  | .error e => .error e
  | .ok p =>
    match kindChecks.lookup slot with
    | some base => if hasKind p.1 base then .ok p else .error .replicatError
    | none => .ok p

def makeConfig (s : Settings) : R Config :=
  match sectionArgs s "hashing" with
  | .error e => .error e
  | .ok kvh =>
    match slotConfig "hashing" kvh defaultHasher with
    | .error e => .error e
    | .ok h =>
      match sectionArgs s "chunking" with
      | .error e => .error e
      | .ok kvc =>
        match slotConfig "chunking" kvc defaultChunker with
        | .error e => .error e
        | .ok c =>
          match encryptionSettings s with
          | .error e => .error e
          | .ok none => .ok { hashing := h, chunking := c, cipher := none }
          | .ok (some enc) =>
            match subArgs enc "cipher" with
            | .error e => .error e
            | .ok kvci =>
              match slotConfig "cipher" kvci defaultCipher with
              | .error e => .error e
              | .ok ci => .ok { hashing := h, chunking := c, cipher := some ci }

def constructCipher (ci : Option (AdapterRow × Args)) : R (Option Inst) :=
  match ci with
  | none => .ok none
  | some (row, args) =>
    match construct row args with
    | .error e => .error e
    | .ok c => .ok (some c)

/-- `_instantiate_config`: the stored config carries complete argument lists, so binding them again (`from_config`) cannot
fail and returns the same arguments; the cipher is constructed first, then the chunker, then the hasher -/
def instantiateConfig (cfg : Config) : R Props :=
  match constructCipher cfg.cipher with
  | .error e => .error e
  | .ok ci =>
    match construct cfg.chunking.1 cfg.chunking.2 with
    | .error e => .error e
    | .ok ch =>
      match construct cfg.hashing.1 cfg.hashing.2 with
      | .error e => .error e
      | .ok ha => .ok { chunker := ch, hasher := ha, cipher := ci }

/-- the `private` section made by `_make_key(private=None)`: default shared KDF and MAC from the class constants, a fresh
shared key (`cipher.generate_key()` = `os.urandom(key_bytes)`), salts, MAC key and the chunker's key -/
def freshPrivate (kb : Arg) (chunker : Inst) : R Unit :=
  match fromConfig [("name", .val (.str defaultSharedKdf)), ("length", kb)] with
  | .error e => .error e
  | .ok (srow, sargs) =>
    match construct srow sargs with
    | .error e => .error e
    | .ok sk =>
      match fromConfig [("name", .val (.str defaultMac))] with
      | .error e => .error e
      | .ok (mrow, margs) =>
        match construct mrow margs with
        | .error e => .error e
        | .ok mac =>
          match urandom kb with                                        -- cipher.generate_key()
          | .error e => .error e
          | .ok _ =>
            if !hasKind sk.row "KDFAdapter" then .error .attributeError            -- shared_kdf.generate_derivation_params()
            else if !hasKind mac.row "MACAdapter" then .error .attributeError      -- mac.generate_mac_params()
            else if !hasKind chunker.row "ChunkerAdapter" then .error .attributeError   -- chunker.generate_chunking_params()
            else .ok ()

/-- `_make_key(cipher=…, chunker=…, settings=…, private=None | given)`; `kdfSettings` = `encryption.kdf` of the settings -/
def makeKey (cipher chunker : Inst) (kdfSettings : Args) (fresh : Bool) : R KeyMat :=
  match cipher.keyBytes with
  | none => .error .attributeError                                     -- cipher.key_bytes
  | some kb =>
    if hasKey (withDefaultName kdfSettings defaultUserKdf) "length" then .error .typeError   -- multiple values for 'length'
    else
      match fromConfig (withDefaultName kdfSettings defaultUserKdf ++ [("length", kb)]) with
      | .error e => .error e
      | .ok (krow, kargs) =>
        match construct krow kargs with
        | .error e => .error e
        | .ok userKdf =>
          match (if fresh then freshPrivate kb chunker else .ok ()) with
          | .error e => .error e
          | .ok _ =>
            if !hasKind userKdf.row "KDFAdapter" then .error .attributeError       -- user_kdf.generate_derivation_params()
            else if userKdf.row.name == "scrypt" then
              match lookupArg userKdf.args "length" with
              | .error e => .error e
              | .ok l =>
                match urandom l with
                | .error e => .error e
                | .ok _ => .ok { userKdf }
            else .ok { userKdf }

/-- one statement of `Repository.init`, as far as the local variables are concerned -/
def stageCore (settings : Option Settings) (pwPresent : Bool) (st : Core) : InitStage → R Core
  | .validate =>
    match settings with
    | some (kv :: rest) => do validateInit (kv :: rest); pure st
    | _ => pure st                                               -- `if settings:` — None and {} skip validation
  | .makeConfig => do
    let cfg ← makeConfig (settings.getD [])
    pure { st with config := some cfg }
  | .instantiateConfig =>
    match st.config with
    | none => throw (.other "config not built yet")
    | some cfg => do pure { st with props := some (← instantiateConfig cfg) }
  | .passwordCheck => if pwPresent then pure st else throw .replicatError
  | .makeKey =>
    match st.props with
    | none => throw (.other "props not built yet")
    | some p =>
      match p.cipher with
      | none => throw (.other "no cipher")
      | some c => do
        let enc ← encryptionSettings (settings.getD [])
        let kdf ← subArgs (enc.getD []) "kdf"
        pure { st with key := some (← makeKey c p.chunker kdf true) }
  | .instantiateKey =>
    match st.key with
    | none => throw (.other "key not made yet")
    | some k => do kdfDerive k.userKdf; pure { st with derived := true }
  | .encryptPrivate =>
    match st.props with
    | some { cipher := some c, .. } => if st.derived then do cipherEncrypt c; pure { st with sealed := true }
                                       else throw (.other "no user key yet")
    | _ => throw (.other "no cipher")
  | .uploadConfig =>
    match st.config with
    | none => throw (.other "config not built yet")
    | some _ => pure st

/-- one statement of `Repository.init`: the only statement that touches the backend is the config upload -/
def stage (settings : Option Settings) (pwPresent : Bool) (st : St) (sg : InitStage) : R St :=
  match stageCore settings pwPresent st.core sg with
  | .error e => .error e
  | .ok c => .ok { core := c, puts := if sg = .uploadConfig then st.puts ++ ["config"] else st.puts }

def St.encrypted (st : St) : Bool :=
  match st.props with
  | some p => p.cipher.isSome
  | none => false

/-- Runs the statements in the given order.  The result is the last state reached and, if a statement raised, the error:
the backend keeps whatever was uploaded before the failure. -/
def runStages (settings : Option Settings) (pwPresent : Bool) : List (InitStage × Bool) → St → St × Option Err
  | [], st => (st, none)
  | (sg, encOnly) :: rest, st =>
    if encOnly && !st.encrypted then runStages settings pwPresent rest st
    else match stage settings pwPresent st sg with
      | .ok st' => runStages settings pwPresent rest st'
      | .error e => (st, some e)

/-- `Repository.init(password=…, settings=…)` on an empty backend, statement order as in the current source -/
def runInit (settings : Option Settings) (pwPresent : Bool) : St × Option Err :=
  runStages settings pwPresent initStages {}

def accept (settings : Option Settings) (pwPresent : Bool) : Bool := (runInit settings pwPresent).2.isNone

/-- The order of `init` this model was written against; `Properties/C17.lean` proves `initStages = canonicalStages`
(bridge) — an edit that moves the upload breaks that proof. -/
def canonicalStages : List (InitStage × Bool) :=
  [(.validate, false), (.makeConfig, false), (.instantiateConfig, false),
   (.passwordCheck, true), (.makeKey, true), (.instantiateKey, true), (.encryptPrivate, true),
   (.uploadConfig, false)]

/-! ## `usable`: documented preconditions of the primitives (specification) -/

def argOf (args : Args) (p : String) : Arg := (args.lookup p).getD (.val .none)

def isPlainIntIn (a : Arg) (vals : List Int) : Bool :=
  match a with
  | .val (.int i) => vals.contains i
  | _ => false

def intBetween (a : Arg) (lo hi : Int) : Bool :=
  match intLike a with
  | some i => decide (lo ≤ i) && decide (i ≤ hi)
  | none => false

/-- Smallest digest the hashing slot may have.  `hashlib.blake2b` takes 1…64 bytes, but chunk names ARE digests: with a
one-byte digest any 257 chunks collide (pigeonhole) and restore silently returns another chunk's bytes, so the
ideal-hash assumption of the whole framework needs a floor.  16 bytes is the smallest BLAKE2b output replicat itself
ever asks for (key derivation for AES-128). -/
def minDigestBytes : Int := 16

/-- hashing slot: a hash adapter whose digest size the library accepts and that is long enough to name chunks -/
def hasherUsable (p : AdapterRow × Args) : Bool :=
  hasKind p.1 "HashAdapter" &&
  (if p.1.name == "blake2b" then intBetween (argOf p.2 "length") minDigestBytes 64
   else if p.1.name == "sha2" || p.1.name == "sha3" then isPlainIntIn (argOf p.2 "bits") [224, 256, 384, 512]
   else false)

/-- chunking slot: a chunker adapter with integer lengths, 1 ≤ min ≤ max -/
def chunkerUsable (p : AdapterRow × Args) : Bool :=
  hasKind p.1 "ChunkerAdapter" && p.1.name == "gclmulchunker" &&
  (match intLike (argOf p.2 "min_length"), intLike (argOf p.2 "max_length") with
   | some mn, some mx => decide (1 ≤ mn) && decide (mn ≤ mx)
   | _, _ => false)

/-- cipher slot: an AEAD cipher adapter; AES key of 128/192/256 bits, AES-GCM nonce of 8…128 bytes; ChaCha20-Poly1305 fixed -/
def cipherUsable (p : AdapterRow × Args) : Bool :=
  hasKind p.1 "CipherAdapter" &&
  (if p.1.name == "aes_gcm" then
     isPlainIntIn (argOf p.2 "key_bits") [128, 192, 256] &&
     (match intLike (argOf p.2 "nonce_bits") with
      | some nb => decide (8 ≤ nb / 8) && decide (nb / 8 ≤ 128)
      | none => false)
   else if p.1.name == "chacha20_poly1305" then
     p.1.consts.lookup "key_bits" == some 256 && p.1.consts.lookup "nonce_bits" == some 96
   else false)

/-- key-derivation slot: a KDF adapter; scrypt with n a power of two > 1 (and < 2^(16 r)), r, p ≥ 1 -/
def kdfUsable (p : AdapterRow × Args) : Bool :=
  hasKind p.1 "KDFAdapter" &&
  (if p.1.name == "scrypt" then
     (match intLike (argOf p.2 "length"), intLike (argOf p.2 "n"), intLike (argOf p.2 "r"), intLike (argOf p.2 "p") with
      | some l, some n, some r, some pp =>
        decide (0 ≤ l) && decide (2 ≤ n) && isPow2 n && decide (1 ≤ r) && decide (1 ≤ pp) && decide (n < (2 : Int) ^ (16 * r.toNat))
      | _, _, _, _ => false)
   else if p.1.name == "blake2b" then intBetween (argOf p.2 "length") 1 64
   else false)

/-- what `init` leaves behind when it returns normally: the uploaded config and (encrypted repositories) the key file's KDF -/
def usable (st : St) : Bool :=
  match st.config with
  | none => false
  | some cfg =>
    hasherUsable cfg.hashing && chunkerUsable cfg.chunking &&
    (match cfg.cipher with
     | none => true
     | some ci => cipherUsable ci &&
       (match st.key with
        | some k => kdfUsable (k.userKdf.row, k.userKdf.args)
        | none => false))

def isIntLike (a : Arg) : Bool := (intLike a).isSome

/-- why a slot is not usable — the stable part of a finding's signature -/
def hasherWhy (p : AdapterRow × Args) : String :=
  if !hasKind p.1 "HashAdapter" then "hashing:wrong-kind"
  else if p.1.name == "blake2b" then
    (if !isIntLike (argOf p.2 "length") then "hashing:blake2b:non-integer"
     else if !intBetween (argOf p.2 "length") 1 64 then "hashing:blake2b:out-of-range"
     else "hashing:blake2b:digest-too-short")
  else "hashing:" ++ p.1.name ++ ":parameters"

def chunkerWhy (p : AdapterRow × Args) : String :=
  if !hasKind p.1 "ChunkerAdapter" then "chunking:wrong-kind"
  else match intLike (argOf p.2 "min_length"), intLike (argOf p.2 "max_length") with
    | some mn, some mx => if mn < 1 then "chunking:" ++ p.1.name ++ ":below-one"
                          else if mx < mn then "chunking:" ++ p.1.name ++ ":min-above-max"
                          else "chunking:" ++ p.1.name ++ ":parameters"
    | _, _ => "chunking:" ++ p.1.name ++ ":non-integer"

def cipherWhy (p : AdapterRow × Args) : String :=
  if !hasKind p.1 "CipherAdapter" then "cipher:wrong-kind"
  else if p.1.name == "aes_gcm" && !isPlainIntIn (argOf p.2 "key_bits") [128, 192, 256] then "cipher:aes_gcm:key-bits"
  else if p.1.name == "aes_gcm" then "cipher:aes_gcm:nonce"
  else "cipher:" ++ p.1.name ++ ":parameters"

def kdfWhy (p : AdapterRow × Args) : String :=
  if !hasKind p.1 "KDFAdapter" then "kdf:wrong-kind" else "kdf:" ++ p.1.name ++ ":parameters"

/-- failing slots of `usable`, for the harness (signature of a finding) -/
def unusableWhy (st : St) : List String :=
  match st.config with
  | none => ["no-config"]
  | some cfg =>
    (if hasherUsable cfg.hashing then [] else [hasherWhy cfg.hashing]) ++
    (if chunkerUsable cfg.chunking then [] else [chunkerWhy cfg.chunking]) ++
    (match cfg.cipher with
     | none => []
     | some ci =>
       (if cipherUsable ci then [] else [cipherWhy ci]) ++
       (match st.key with
        | some k => if kdfUsable (k.userKdf.row, k.userKdf.args) then [] else [kdfWhy (k.userKdf.row, k.userKdf.args)]
        | none => ["kdf:no-key"]))

/-! ## the region of the settings space in which `init` exercises nothing (D12)

`init` never calls the hasher, and calls the chunker only to draw its key (encrypted repositories); their parameters
reach the stored config unchecked.  `checkedElsewhere s` says: *the input* names a hash adapter / chunker adapter with
parameters the primitives accept (after defaults).  It is a predicate on the settings, decidable, and it is exactly the
extra hypothesis of `accept_implies_usable_partial`. -/

def hashingInputOk (s : Settings) : Bool :=
  match sectionArgs s "hashing" with
  | .error _ => false
  | .ok kv =>
    match slotConfig "hashing" kv defaultHasher with
    | .ok p => hasherUsable p
    | .error _ => true          -- rejected anyway

def chunkingInputOk (s : Settings) : Bool :=
  match sectionArgs s "chunking" with
  | .error _ => false
  | .ok kv =>
    match slotConfig "chunking" kv defaultChunker with
    | .ok p => chunkerUsable p
    | .error _ => true

def checkedElsewhere (s : Option Settings) : Bool :=
  hashingInputOk (s.getD []) && chunkingInputOk (s.getD [])

/-- number of `if …: raise` guards the source currently has at the head of an adapter's `__init__` -/
def guardCount (name : String) : Nat :=
  match findRow name with
  | some r => r.guards.length
  | none => 0

def guardsOf (name : String) : List Guard :=
  match findRow name with
  | some r => r.guards
  | none => []

/-- the constructor guards of the candidate validation patch for D12 (see the report of C17):
`if not isinstance(length, int) or not 16 <= length <= 64: raise ValueError(…)` -/
def blake2bFixGuards : List Guard :=
  [⟨.disj (.neg (.isInt (.param "length"))) (.neg (.chain (.lit 16) .le (.param "length") .le (.lit 64))), "ValueError"⟩]

/-- `if not isinstance(min_length, int) or not isinstance(max_length, int): raise …; if min_length < 1: raise …;
if min_length > max_length: raise …` -/
def chunkerFixGuards : List Guard :=
  [⟨.disj (.neg (.isInt (.param "min_length"))) (.neg (.isInt (.param "max_length"))), "ValueError"⟩,
   ⟨.cmp .lt (.param "min_length") (.lit 1), "ValueError"⟩,
   ⟨.cmp .gt (.param "min_length") (.param "max_length"), "ValueError"⟩]

/-- `/repo` carries the candidate patch (false on the unpatched source) -/
def d12FixedInSource : Bool :=
  decide (guardsOf "blake2b" = blake2bFixGuards) && decide (guardsOf "gclmulchunker" = chunkerFixGuards) &&
  kindChecks.lookup "hashing" == some "HashAdapter" && kindChecks.lookup "chunking" == some "ChunkerAdapter"

/-- does `_make_config` check the adapter kind of this slot? -/
def kindChecked (slot : String) : Bool := (kindChecks.lookup slot).isSome

/-! ## add-key: acceptance of the settings -/

def validateAddKey (s : Settings) : R Unit := do
  validateShape addKeySchema (s.map (fun p => (p.1, p.2.shape)))
  match s.lookup "encryption" with
  | none => throw .keyError                                    -- settings['encryption']
  | some (.m kvs) => validateShape addKeyEncryptionSchema (kvs.map (fun p => (p.1, p.2.shape)))
  | some (.val _) => throw .attributeError

def addKeyValidate (settings : Option Settings) : R Unit :=
  match settings with
  | some (kv :: rest) => validateAddKey (kv :: rest)
  | _ => .ok ()                                                 -- `if settings:`

/-- `Repository.add_key(password=…, settings=…, shared=…)` on a repository whose stored config instantiates to `props`;
`unlocked` = the caller unlocked it before.  Never touches the backend (`Gen.addKeyUploads`). -/
def addKey (settings : Option Settings) (pwPresent shared unlocked : Bool) (props : Props) : R KeyMat :=
  match addKeyValidate settings with
  | .error e => .error e
  | .ok _ =>
    if !pwPresent then .error .replicatError
    else if shared && !unlocked then .error .replicatError
    else
      match props.cipher with
      | none => .error .replicatError                            -- Repository is not encrypted
      | some c =>
        match encryptionSettings (settings.getD []) with
        | .error e => .error e
        | .ok enc =>
          match subArgs (enc.getD []) "kdf" with
          | .error e => .error e
          | .ok kdf =>
            match makeKey c props.chunker kdf (!shared) with
            | .error e => .error e
            | .ok k =>
              match kdfDerive k.userKdf with                      -- _instantiate_key: derive the user key
              | .error e => .error e
              | .ok _ =>
                match cipherEncrypt c with                        -- encrypt the private portion
                | .error e => .error e
                | .ok _ => .ok k

/-! ## symbolic key files (ideal KDF and AEAD) for chains of add-key -/

abbrev Pw := Nat

/-- `kdf(parameters, salt, password)` — a free constructor: two derived keys are equal iff all three inputs are -/
structure UserKey (κ : Type) where
  kdf : κ
  salt : Nat
  pw : Pw
  deriving DecidableEq, Repr

/-- a key file: public KDF parameters and salt, and the private section `enc(userkey, private)`; `family` stands for the
shared secrets (shared key, MAC key, chunker key) -/
structure KeyFile (κ : Type) where
  kdf : κ
  salt : Nat
  sealedWith : UserKey κ
  family : Nat
  deriving DecidableEq, Repr

/-- `_instantiate_key`: derive the user key from the offered password, open the private section (AEAD: succeeds iff the key matches) -/
def unlockKey {κ : Type} [DecidableEq κ] (k : KeyFile κ) (pw : Pw) : Option Nat :=
  if (⟨k.kdf, k.salt, pw⟩ : UserKey κ) = k.sealedWith then some k.family else none

inductive KeyOp (κ : Type) where
  /-- `add-key` without flags: new secrets -/
  | independent (newPw : Pw) (kdf : κ)
  /-- `add-key --shared`: unlock with key #`via` and `usingPw`, copy its secrets, new password -/
  | shared (via : Nat) (usingPw : Pw) (newPw : Pw) (kdf : κ)
  /-- `add-key --clone`: same, and the new key gets the unlocking password -/
  | clone (via : Nat) (usingPw : Pw) (kdf : κ)
  deriving Repr

structure Ring (κ : Type) where
  /-- every key produced so far, with the password it was produced for -/
  keys : List (KeyFile κ × Pw)
  /-- supply of fresh values (`os.urandom`) -/
  next : Nat
  deriving Repr

def mkKey {κ : Type} (kdf : κ) (salt : Nat) (pw : Pw) (family : Nat) : KeyFile κ :=
  { kdf, salt, sealedWith := ⟨kdf, salt, pw⟩, family }

def initRing {κ : Type} (pw : Pw) (kdf : κ) : Ring κ :=
  { keys := [(mkKey kdf 0 pw 1, pw)], next := 2 }

/-- one add-key invocation; `valid kdf = false` models KDF parameters the library refuses (no key is produced) -/
def stepKey {κ : Type} [DecidableEq κ] (valid : κ → Bool) (r : Ring κ) : KeyOp κ → Ring κ
  | .independent pw kdf =>
    if valid kdf then { keys := r.keys ++ [(mkKey kdf r.next pw (r.next + 1), pw)], next := r.next + 2 } else r
  | .shared i upw pw kdf =>
    match r.keys[i]? with
    | none => r
    | some (k, _) =>
      match unlockKey k upw with
      | none => r                                               -- unlock fails: DecryptionError, nothing produced
      | some fam => if valid kdf then { keys := r.keys ++ [(mkKey kdf r.next pw fam, pw)], next := r.next + 1 } else r
  | .clone i upw kdf =>
    match r.keys[i]? with
    | none => r
    | some (k, _) =>
      match unlockKey k upw with
      | none => r
      | some fam => if valid kdf then { keys := r.keys ++ [(mkKey kdf r.next upw fam, upw)], next := r.next + 1 } else r

def runKeyOps {κ : Type} [DecidableEq κ] (valid : κ → Bool) (r : Ring κ) : List (KeyOp κ) → Ring κ
  | [] => r
  | op :: ops => runKeyOps valid (stepKey valid r op) ops

end Replicat.Settings
