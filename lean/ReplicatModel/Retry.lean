import ReplicatModel.Basic
import ReplicatModel.Generated
/-!
# Retry, rewind and re-authentication around streamed transfers (property C12)

Mirrors, per backend, what one *attempt* of `upload_stream` / `download_stream` does to the payload stream, the sink and the
visible object when a fault hits it at a given place, and the retry machinery wrapped around the attempts:

* `backoff.on_exception(…, max_tries=…, giveup=…)` — `while True: tries += 1; try … except exc: if giveup(e) or tries == max_tries:
  raise; <on_backoff handlers>; sleep` (backoff/_async.py, _sync.py; note the *equality* test on `tries`); the `giveup=`
  predicate is a status code for the HTTP adapters and, for the local adapter, a set of OSError classes (errno values — the
  extractor tabulates the predicate over `Gen.retryOsUniverse`; the current source has no such predicate: the set is empty);
* the `try: … except: [temp.unlink();] stream.seek(0); raise` of every streaming method (replicat/backends/local.py, s3c.py, b2.py);
* S3: the payload digest is computed once, outside the retry loop, over the stream from its current position, then `seek(0)`;
  the body is `iter(lambda: stream.read(c), b'')` from the current position, `content-length` is the declared length;
* B2: the response hook turns a 401 into `AuthRequired`; the back-off handler `_wait_and_trigger_reauth` sleeps for `Retry-After`,
  returns for a 429 and raises `AuthRequired` for every other status; `AuthRequired` is not an `httpx.HTTPError`, so it leaves the
  back-off loop without a sleep, and `utils.requires_auth` re-authenticates and calls the decorated method again — a fresh `tries`
  counter (replicat/utils/__init__.py).  Nothing in the current source bounds the number of these rounds (`Cfg.reauthLimit = none`).

Everything that is a constant, a guard or "is this call there" comes from `Replicat.Gen` (tools/sections/12_retry.py) through
`cfgOf`; the functions below take the configuration as a parameter so that the theorems can also talk about configurations the
source does not have (no rewind, no truncate, a bounded number of re-authentication rounds).

A *fault plan* is a list of faults consumed one per attempt; when it is exhausted no further fault is injected.  The services
(`httpUp`) accept an upload only if the body has the declared length (and, for S3, hashes to the signed digest — ideal hash: the
digest *is* the byte string), otherwise they answer 400; they never store a partial body.
-/
namespace Replicat.Retry

inductive Backend | local | s3 | b2
deriving DecidableEq, Repr

/-- what the model reads from the source (see `cfgOf`) -/
structure Cfg where
  maxTries : Option Nat          -- `max_tries=` of the back-off decorator
  catches : Bool                 -- the decorator catches the adapter's error class (OSError resp. httpx.HTTPError)
  giveupStatus : Option Nat      -- status for which `giveup=` says True
  giveupOs : List Nat            -- local: errno classes of OSError for which `giveup=` says True (0 = an OSError without errno)
  upRewind : Option Nat          -- `stream.seek(k)` in the except-branch of the upload (none: no seek)
  upCatchAll : Bool              -- that branch catches everything and re-raises
  upUnlink : Bool                -- local: `temp.unlink()` in that branch
  upDecorated : Bool             -- the upload method carries the back-off decorator
  downRewind : Option Nat
  downCatchAll : Bool
  downTruncate : Bool            -- `stream.truncate(length)` inside the try, before the copy
  downDecorated : Bool
  digestRewind : Option Nat      -- S3: `stream.seek(k)` at the end of `_get_stream_hexdigest`
  hookAuthStatus : Option Nat    -- B2: status the response hook turns into AuthRequired
  plainRetryStatus : Option Nat  -- B2: status for which the back-off handler returns (plain retry)
  handlerRaisesAuth : Bool       -- B2: the handler raises AuthRequired for every other status
  handlerSleepsRetryAfter : Bool -- B2: the handler sleeps when the response carries Retry-After
  upRequiresAuth : Bool          -- B2: `requires_auth` wraps the back-off decorator
  downRequiresAuth : Bool
  reauthOnAuthRequired : Bool    -- `requires_auth` answers AuthRequired with authenticate() + calling again
  reauthLimit : Option Nat       -- bound on the re-authentication rounds of one call (none: unbounded)
deriving DecidableEq, Repr

def localCfg : Cfg where
  maxTries := Gen.retryLocalMaxTries
  catches := Gen.retryLocalCatchesOSError
  giveupStatus := none
  giveupOs := Gen.retryLocalGiveupErrnos
  upRewind := Gen.retryLocalUpRewind
  upCatchAll := Gen.retryLocalUpCatchAll
  upUnlink := Gen.retryLocalUpUnlink
  upDecorated := Gen.retryLocalUpDecorated
  downRewind := Gen.retryLocalDownRewind
  downCatchAll := Gen.retryLocalDownCatchAll
  downTruncate := Gen.retryLocalDownTruncate
  downDecorated := Gen.retryLocalDownDecorated
  digestRewind := none
  hookAuthStatus := none
  plainRetryStatus := none
  handlerRaisesAuth := false
  handlerSleepsRetryAfter := false
  upRequiresAuth := false
  downRequiresAuth := false
  reauthOnAuthRequired := false
  reauthLimit := none

def s3Cfg : Cfg where
  maxTries := Gen.retryS3MaxTries
  catches := Gen.retryS3CatchesHTTPError
  giveupStatus := Gen.retryS3GiveupStatus
  giveupOs := []
  upRewind := Gen.retryS3UpRewind
  upCatchAll := Gen.retryS3UpCatchAll
  upUnlink := false
  upDecorated := Gen.retryS3UpDecorated && Gen.retryS3DigestOutsideRetry
  downRewind := Gen.retryS3DownRewind
  downCatchAll := Gen.retryS3DownCatchAll
  downTruncate := Gen.retryS3DownTruncate
  downDecorated := Gen.retryS3DownDecorated
  digestRewind := Gen.retryS3DigestRewind
  hookAuthStatus := none
  plainRetryStatus := none
  handlerRaisesAuth := false
  handlerSleepsRetryAfter := false
  upRequiresAuth := false
  downRequiresAuth := false
  reauthOnAuthRequired := false
  reauthLimit := none

def b2Cfg : Cfg where
  maxTries := Gen.retryB2MaxTries
  catches := Gen.retryB2CatchesHTTPError
  giveupStatus := Gen.retryB2GiveupStatus
  giveupOs := []
  upRewind := Gen.retryB2UpRewind
  upCatchAll := Gen.retryB2UpCatchAll
  upUnlink := false
  upDecorated := Gen.retryB2UpDecorated
  downRewind := Gen.retryB2DownRewind
  downCatchAll := Gen.retryB2DownCatchAll
  downTruncate := Gen.retryB2DownTruncate
  downDecorated := Gen.retryB2DownDecorated
  digestRewind := none
  hookAuthStatus := Gen.retryB2HookAuthStatus
  plainRetryStatus := Gen.retryB2PlainRetryStatus
  handlerRaisesAuth := Gen.retryB2HandlerRaisesAuth
  handlerSleepsRetryAfter := Gen.retryB2HandlerSleepsRetryAfter
  upRequiresAuth := Gen.retryB2UpRequiresAuth
  downRequiresAuth := Gen.retryB2DownRequiresAuth
  reauthOnAuthRequired := Gen.retryReauthOnAuthRequired
  reauthLimit := Gen.retryReauthLimit

def cfgOf : Backend → Cfg
  | .local => localCfg
  | .s3 => s3Cfg
  | .b2 => b2Cfg

/-- the number of tries a configuration allows (0 when the decorator has no `max_tries`: then nothing is bounded) -/
def Cfg.budget (cfg : Cfg) : Nat := match cfg.maxTries with | some m => m | none => 0

/-! ## streams -/

/-- the payload stream of an upload (`io.BytesIO`, a file opened `'rb'`, or a wrapper that forwards `read` / `seek`) -/
structure Src where
  data : Bytes
  pos : Nat
deriving DecidableEq, Repr

/-- `stream.read(c)` -/
def Src.read (s : Src) (c : Nat) : Bytes × Src :=
  let b := (s.data.drop s.pos).take c
  (b, { s with pos := s.pos + b.length })

/-- the `stream.seek(k)` of an except-branch, if the branch has one -/
def Src.rewind (s : Src) : Option Nat → Src
  | some k => { s with pos := k }
  | none => s

/-- the sink of a download: `io.BytesIO` (`file = false`: `truncate` never extends) or a real file (zero-fills) -/
structure Sink where
  buf : Bytes
  pos : Nat
  file : Bool
deriving DecidableEq, Repr

def zeros (n : Nat) : Bytes := List.replicate n 0

def Sink.truncate (k : Sink) (n : Nat) : Sink :=
  { k with buf := k.buf.take n ++ (if k.file then zeros (n - k.buf.length) else []) }

/-- `stream.write(b)`: overwrite at the position, zero-fill a gap, extend -/
def Sink.write (k : Sink) (b : Bytes) : Sink :=
  { k with buf := k.buf.take k.pos ++ zeros (k.pos - k.buf.length) ++ b ++ k.buf.drop (k.pos + b.length), pos := k.pos + b.length }

def Sink.rewind (k : Sink) : Option Nat → Sink
  | some p => { k with pos := p }
  | none => k

/-! ## faults and errors -/

/-- where a fault hits an attempt.  Kinds that do not apply to a backend / direction are ignored (the attempt runs undisturbed),
as are positions behind the end of the transfer for the local copy loop. -/
inductive Fault
  | pre                                  -- local: opening the temp file / the object fails; HTTP: connection error before any byte
  | mktemp                               -- local upload: creating the temp file fails (outside the try)
  | src (j : Nat)                        -- local upload: read #j of the payload stream fails
  | mid (j : Nat)                        -- upload: write #j to the temp file fails / the connection breaks after j body chunks;
                                         -- local download: read #j of the object fails
  | sink (j : Nat)                       -- local download: write #j to the sink fails
  | trunc                                -- local download: `stream.truncate` fails
  | cut (k : Nat)                        -- HTTP download: the response body breaks after k bytes
  | status (code : Nat) (retryAfter : Bool)  -- HTTP: complete request, the service answers `code` and stores nothing
  | lost                                 -- HTTP upload: complete request, stored, the response is lost
  | rename                               -- local upload: `os.replace` fails
  | errno (k : Nat) (f : Fault)          -- local: fault `f`, surfacing as an OSError of class `k` (its errno: 2 = ENOENT →
                                         -- FileNotFoundError, 13 = EACCES → PermissionError, 28 = ENOSPC, …; 0 = no errno)
                                         -- instead of the default EIO; e.g. `errno 2 mktemp` = the freshly created directory is
                                         -- gone again when the temp file is created (a concurrent `clean` removed it)
deriving DecidableEq, Repr

/-- the errno of an injected OSError that does not say otherwise -/
def EIO : Nat := 5

/-- the place a fault hits (`errno k f` hits where `f` hits) -/
def Fault.base : Fault → Fault
  | .errno _ f => f
  | f => f

/-- the errno class a (local) fault surfaces with -/
def Fault.osClass : Fault → Nat
  | .errno k _ => k
  | _ => EIO

def faultBase (f : Option Fault) : Option Fault := f.map Fault.base
def faultClass : Option Fault → Nat
  | some x => x.osClass
  | none => EIO

inductive Err
  | os (errno : Nat)                     -- OSError of the class with this errno (0: none)
  | transport
  | status (code : Nat) (retryAfter : Bool)
  | auth                                 -- replicat.exceptions.AuthRequired
deriving DecidableEq, Repr

/-- result of one attempt: the exception (if any), the state it leaves, the bytes that reached the other side in this attempt -/
structure Att (σ : Type) where
  err : Option Err
  st : σ
  recv : Nat

/-! ## the copy loops -/

inductive CopyEnd | done | fault | fuel
deriving DecidableEq, Repr

/-- `shutil.copyfileobj(src, dst, length=c)`: `while True: buf = read(c); if not buf: break; write(buf)` with an optional failing
read (#rf) and an optional failing write (#wf).  `wr` is the destination (`++` for a temp file, `Sink.write` for a sink). -/
def copyLoop {ω : Type} (wr : ω → Bytes → ω) (c : Nat) (rf wf : Option Nat) : Nat → Nat → Src → ω → CopyEnd × Src × ω
  | 0, _, s, w => (.fuel, s, w)
  | fuel + 1, i, s, w =>
    if rf = some i then (.fault, s, w)
    else
      let r := s.read c
      if r.1 = [] then (.done, r.2, w)
      else if wf = some i then (.fault, r.2, w)
      else copyLoop wr c rf wf fuel (i + 1) r.2 (wr w r.1)

/-- the transport pulls `n` pieces of `iter(lambda: stream.read(c), b'')` -/
def readChunks (c : Nat) : Nat → Src → Bytes × Src
  | 0, s => ([], s)
  | n + 1, s =>
    let r := s.read c
    if r.1 = [] then ([], r.2)
    else
      let q := readChunks c n r.2
      (r.1 ++ q.1, q.2)

/-- `response.aiter_bytes(c)`: the body in pieces of `c` bytes (the last one shorter) -/
def chunkList (c : Nat) : Nat → Bytes → List Bytes
  | 0, _ => []
  | fuel + 1, d => if c = 0 ∨ d = [] then [] else d.take c :: chunkList c fuel (d.drop c)

/-! ## uploads -/

structure UState where
  src : Src
  visible : Option Bytes      -- the object as the directory / the service shows it
  temps : Nat                 -- temporary files left behind (local)
deriving DecidableEq, Repr

/-- `except: …; stream.seek(k); raise` -/
def exceptUp (cfg : Cfg) (st : UState) : UState :=
  if cfg.upCatchAll then { st with src := st.src.rewind cfg.upRewind } else st

def faultSrc : Option Fault → Option Nat | some (.src j) => some j | _ => none
def faultMid : Option Fault → Option Nat | some (.mid j) => some j | _ => none
def faultSink : Option Fault → Option Nat | some (.sink j) => some j | _ => none

/-- `Local.upload_stream` with a fault at place `f` that surfaces as an OSError of class `k` -/
def localUpAt (cfg : Cfg) (c : Nat) (k : Nat) (f : Option Fault) (st : UState) : Att UState :=
  if f = some .mktemp then ⟨some (.os k), st, 0⟩         -- `_destination_temp` is outside the try: no unlink, no seek
  else
    let fail (s : Src) (n : Nat) : Att UState :=
      ⟨some (.os k), exceptUp cfg { st with src := s, temps := if cfg.upCatchAll && cfg.upUnlink then st.temps else st.temps + 1 }, n⟩
    if f = some .pre then fail st.src 0
    else
      match copyLoop (· ++ ·) c (faultSrc f) (faultMid f) (st.src.data.length + 1) 0 st.src [] with
      | (.done, s, t) => if f = some .rename then fail s t.length else ⟨none, { st with src := s, visible := some t }, t.length⟩
      | (_, s, t) => fail s t.length

/-- `Local.upload_stream` -/
def localUp (cfg : Cfg) (c : Nat) (f : Option Fault) (st : UState) : Att UState :=
  localUpAt cfg c (faultClass f) (faultBase f) st

/-- B2's `_raise_for_status_hook`: one status becomes AuthRequired -/
def hook (cfg : Cfg) (code : Nat) (ra : Bool) : Err :=
  if cfg.hookAuthStatus = some code then .auth else .status code ra

/-- does the body hash to the signed digest (ideal hash: the digest is the byte string); `none`: nothing was signed -/
def digestMatches : Option Bytes → Bytes → Bool
  | some d, body => decide (body = d)
  | none, _ => true

/-- `S3Compatible._put_object_stream` / `B2.upload_stream` against a service that checks the declared length (and, if a digest
was signed, the digest) and stores only complete bodies -/
def httpUp (cfg : Cfg) (c declared : Nat) (digest : Option Bytes) (f : Option Fault) (st : UState) : Att UState :=
  let r : Att UState :=
    match f with
    | some .pre => ⟨some .transport, st, 0⟩
    | some (.mid j) =>
      let p := readChunks c j st.src
      ⟨some .transport, { st with src := p.2 }, p.1.length⟩
    | _ =>
      let p := readChunks c (st.src.data.length + 1) st.src
      let st1 : UState := { st with src := p.2 }
      match f with
      | some (.status code ra) => ⟨some (hook cfg code ra), st1, p.1.length⟩
      | _ =>
        if p.1.length = declared ∧ digestMatches digest p.1 = true then
          let st2 : UState := { st1 with visible := some p.1 }
          if f = some .lost then ⟨some .transport, st2, p.1.length⟩ else ⟨none, st2, p.1.length⟩
        else if f = some .lost then ⟨some .transport, st1, p.1.length⟩     -- refused, and the 400 never arrives
        else ⟨some (hook cfg 400 false), st1, p.1.length⟩
  match r.err with
  | none => r
  | some _ => { r with st := exceptUp cfg r.st }

/-- `_get_stream_hexdigest`: read to the end, `seek(k)`; the digest stands for the bytes read (ideal hash) -/
def s3Digest (cfg : Cfg) (st : UState) : Bytes × UState :=
  let d := st.src.data.drop st.src.pos
  (d, { st with src := ({ st.src with pos := st.src.pos + d.length } : Src).rewind cfg.digestRewind })

/-! ## downloads -/

def exceptDown (cfg : Cfg) (k : Sink) : Sink :=
  if cfg.downCatchAll then k.rewind cfg.downRewind else k

/-- `Local.download_stream` with a fault at place `f` that surfaces as an OSError of class `e` -/
def localDownAt (cfg : Cfg) (c : Nat) (obj : Bytes) (e : Nat) (f : Option Fault) (st : Sink) : Att Sink :=
  if f = some .pre then ⟨some (.os e), st, 0⟩            -- `open` is outside the try
  else if f = some .trunc ∧ cfg.downTruncate = true then ⟨some (.os e), exceptDown cfg st, 0⟩
  else
    let k := if cfg.downTruncate then st.truncate obj.length else st
    match copyLoop Sink.write c (faultMid f) (faultSink f) (obj.length + 1) 0 ⟨obj, 0⟩ k with
    | (.done, _, k') => ⟨none, k', k'.pos - st.pos⟩
    | (_, _, k') => ⟨some (.os e), exceptDown cfg k', k'.pos - st.pos⟩

/-- `Local.download_stream` -/
def localDown (cfg : Cfg) (c : Nat) (obj : Bytes) (f : Option Fault) (st : Sink) : Att Sink :=
  localDownAt cfg c obj (faultClass f) (faultBase f) st

/-- `S3Compatible.download_stream` / `B2.download_stream`: errors before the body (connection, status) are raised outside the try -/
def httpDown (cfg : Cfg) (c : Nat) (obj : Bytes) (f : Option Fault) (st : Sink) : Att Sink :=
  match f with
  | some .pre => ⟨some .transport, st, 0⟩
  | some (.status code ra) => ⟨some (hook cfg code ra), st, 0⟩
  | _ =>
    let k := if cfg.downTruncate then st.truncate obj.length else st
    match f with
    | some (.cut n) =>
      let got := obj.take (min n obj.length / c * c)      -- only complete pieces reach the loop body before the error
      ⟨some .transport, exceptDown cfg ((chunkList c (got.length + 1) got).foldl Sink.write k), got.length⟩
    | _ => ⟨none, (chunkList c (obj.length + 1) obj).foldl Sink.write k, obj.length⟩

/-! ## the retry machinery -/

inductive Decision
  | raise (e : Err) (slept : Bool)       -- the call ends with `e` (after a Retry-After sleep of the handler, if `slept`)
  | retry (extra : Bool)                 -- back-off sleep (plus the handler's Retry-After sleep, if `extra`), next try
  | reauth (slept : Bool)                -- AuthRequired reaches `requires_auth`: authenticate, call again (fresh `tries`)
deriving DecidableEq, Repr

/-- `max_tries_exceeded = (tries == max_tries_value)` -/
def limitHit (m : Option Nat) (tries : Nat) : Bool := match m with | some k => tries == k | none => false

def reauthAllowed (cfg : Cfg) (rounds : Nat) : Bool := match cfg.reauthLimit with | some l => decide (rounds < l) | none => true

/-- what happens to exception `e` of try number `tries` (counted from 1) in re-authentication round `rounds` (from 0) -/
def policy (b : Backend) (cfg : Cfg) (decorated requiresAuth : Bool) (e : Err) (tries rounds : Nat) : Decision :=
  let viaAuth (slept : Bool) : Decision :=
    if requiresAuth && cfg.reauthOnAuthRequired && reauthAllowed cfg rounds then .reauth slept else .raise .auth slept
  match e with
  | .auth => viaAuth false
  | _ =>
    let caught : Bool := decorated && cfg.catches && (match e with | .os _ => b == .local | _ => b != .local)
    let giveup : Bool := match e with
      | .status code _ => cfg.giveupStatus == some code
      | .os k => cfg.giveupOs.contains k
      | _ => false
    if !caught then .raise e false
    else if giveup || limitHit cfg.maxTries tries then .raise e false
    else
      match b, e with
      | .b2, .status code ra =>
        let slept := ra && cfg.handlerSleepsRetryAfter
        if cfg.plainRetryStatus == some code then .retry slept
        else if cfg.handlerRaisesAuth then viaAuth slept
        else .retry slept
      | _, _ => .retry false

inductive Outcome | ok | error (e : Err) | fuel
deriving DecidableEq, Repr

structure Res (σ : Type) where
  outcome : Outcome
  attempts : Nat
  sleeps : Nat
  reauths : Nat
  received : List Nat              -- per attempt
  history : List (Option Bytes)    -- per attempt: the visible object (uploads) / the sink content (downloads) afterwards
  final : σ

def Res.bump {σ : Type} (r : Res σ) (sl ra recv : Nat) (vis : Option Bytes) : Res σ :=
  { r with attempts := r.attempts + 1, sleeps := r.sleeps + sl, reauths := r.reauths + ra, received := recv :: r.received,
           history := vis :: r.history }

/-- back-off loop + `requires_auth` recursion.  One unit of fuel per attempt; `Properties/C12.lean` shows that with the current
rewinds the fuel is never the reason for stopping once it exceeds the length of the plan. -/
def loop {σ : Type} (att : Option Fault → σ → Att σ) (pol : Err → Nat → Nat → Decision) (vis : σ → Option Bytes) :
    Nat → Nat → Nat → List Fault → σ → Res σ
  | 0, _, _, _, st => ⟨.fuel, 0, 0, 0, [], [], st⟩
  | fuel + 1, tries, rounds, plan, st =>
    let a := att plan.head? st
    match a.err with
    | none => ⟨.ok, 1, 0, 0, [a.recv], [vis a.st], a.st⟩
    | some e =>
      match pol e tries rounds with
      | .raise e' slept => ⟨.error e', 1, slept.toNat, 0, [a.recv], [vis a.st], a.st⟩
      | .retry extra => (loop att pol vis fuel (tries + 1) rounds plan.tail a.st).bump (1 + extra.toNat) 0 a.recv (vis a.st)
      | .reauth slept => (loop att pol vis fuel 1 (rounds + 1) plan.tail a.st).bump slept.toNat 1 a.recv (vis a.st)

def upAttempt (b : Backend) (cfg : Cfg) (c declared : Nat) (digest : Option Bytes) : Option Fault → UState → Att UState :=
  match b with
  | .local => localUp cfg c
  | _ => httpUp cfg c declared digest

def upPolicy (b : Backend) (cfg : Cfg) : Err → Nat → Nat → Decision :=
  policy b cfg cfg.upDecorated (b == .b2 && cfg.upRequiresAuth)

/-- `upload_stream(name, stream, declared, c)` with the stream at `pos0`, the object currently `old` -/
def runUp (b : Backend) (cfg : Cfg) (c fuel : Nat) (plan : List Fault) (data : Bytes) (pos0 declared : Nat) (old : Option Bytes) :
    Res UState :=
  let st0 : UState := ⟨⟨data, pos0⟩, old, 0⟩
  match b with
  | .s3 =>
    let p := s3Digest cfg st0
    loop (upAttempt b cfg c declared (some p.1)) (upPolicy b cfg) (·.visible) fuel 1 0 plan p.2
  | _ => loop (upAttempt b cfg c declared none) (upPolicy b cfg) (·.visible) fuel 1 0 plan st0

def downAttempt (b : Backend) (cfg : Cfg) (c : Nat) (obj : Bytes) : Option Fault → Sink → Att Sink :=
  match b with
  | .local => localDown cfg c obj
  | _ => httpDown cfg c obj

def downPolicy (b : Backend) (cfg : Cfg) : Err → Nat → Nat → Decision :=
  policy b cfg cfg.downDecorated (b == .b2 && cfg.downRequiresAuth)

/-- `download_stream(name, stream, c)` of the object `obj` into a sink that holds `sink0` and stands at `spos0` -/
def runDown (b : Backend) (cfg : Cfg) (c fuel : Nat) (plan : List Fault) (obj sink0 : Bytes) (spos0 : Nat) (file : Bool) : Res Sink :=
  loop (downAttempt b cfg c obj) (downPolicy b cfg) (fun k => some k.buf) fuel 1 0 plan ⟨sink0, spos0, file⟩

end Replicat.Retry
