import ReplicatModel.Generated
/-!
# Scheduling models (C09): slots, snapshot pipeline, restore locks, restore finalisation

Four small transition systems with an explicit scheduler choice at every step (an *event*); a *schedule* is a list of events and
`run step s₀ evs = some s` says that every event of the schedule was enabled when it was taken.  Nothing is bounded: any number
of slots, workers, chunks, writer jobs, loaders, files.

* `Slots`   — `Repository._slots`, `_acquire_slot`, `_acquire_slot_threadsafe` (S1)
* `Snap`    — `Repository.snapshot`: `_chunk_producer` → `chunk_queue` (bounded) → `_worker` × N, `abort`, final upload (S2)
* `Locks`   — `Repository.restore._write_chunk_ref`: `glock`, `flocks`, `flocks_refcounts` (S3, writers)
* `Fin`     — `Repository.restore._download_chunk`: pending digest sets, `files_metadata.pop` (S3, loaders / finaliser)
* `Life`    — slot requests of loader threads against the life of the event loop (S1′)
* `Lat`     — slot requests under transfer latency: a virtual clock, `delay`, and the expiry of a *bounded* request (S1″)

Shapes read from the source on every run (`Replicat.Gen`, tools/sections/09_sched.py): slot numbering, release-in-`finally`,
the worker's loop test, the abort protocol, the delete-at-zero guard of the lock table, whether the slot request gives up after
a time-out (`slotWaitBounded`, `slotWaitTimeoutMs`; `unmodelledTimedWaits` lists finite waits the model has no transition for) and — as *parameters* of `Fin` / `Snap`, so
that the other behaviour stays expressible — whether the emptiness decision is taken under the lock, and whether the producer's
`chunk_queue.put` is a loop of timed attempts that re-tests the abort flag (or one blocking call).

What is NOT here (claim is partial): pre-emption inside CPython byte code between the instrumented points, the GIL, the event
loop's internals; liveness is deadlock freedom (+ a bound on the number of progress steps), not a time bound.
-/
namespace Replicat.Sched

/-- a schedule is legal iff every event is enabled in the state it is taken in -/
def run {σ ε : Type} (step : σ → ε → Option σ) : σ → List ε → Option σ
  | s, [] => some s
  | s, e :: es => match step s e with
    | some s' => run step s' es
    | none => none

/-- executable acceptance test used by the driver: final state, or the index of the first event that is not enabled -/
def accepts {σ ε : Type} (step : σ → ε → Option σ) : σ → List ε → Nat → Except Nat σ
  | s, [], _ => .ok s
  | s, e :: es, i => match step s e with
    | some s' => accepts step s' es (i + 1)
    | none => .error i

/-! ## S1 — the slot queue -/

/-- life of one `with self._acquire_slot…:` block, named by the slot it holds -/
inductive HPhase
  | acquired            -- `slot = await self._slots.get()` returned
  | calling             -- the backend transfer is in flight
  | returned (ok : Bool) -- the body ended (normally / by an exception)
deriving DecidableEq, Repr

structure Slots where
  free : List Nat
  held : List Nat
  leaked : List Nat          -- slots whose block ended without `put_nowait` (only possible when the release is not in `finally`)
  phase : Nat → HPhase

inductive SlotEv
  | acquire (s : Nat)
  | start (s : Nat)
  | finish (s : Nat) (ok : Bool)
  | release (s : Nat)        -- the block is left
deriving Repr

/-- `for slot in range(2, concurrent + 2): self._slots.put_nowait(slot)` -/
def Slots.init (n : Nat) : Slots := ⟨List.range' Gen.slotBase (Gen.slotCount n), [], [], fun _ => .acquired⟩

def setAt {α : Type} (f : Nat → α) (k : Nat) (v : α) : Nat → α := fun x => if x = k then v else f x

/-- `fin` = the release is in a `finally` clause (`Gen.slotReleaseInFinally`) -/
def Slots.step (fin : Bool) (σ : Slots) : SlotEv → Option Slots
  | .acquire s =>
    if s ∈ σ.free then some { σ with free := σ.free.erase s, held := s :: σ.held, phase := setAt σ.phase s .acquired } else none
  | .start s =>
    if s ∈ σ.held ∧ σ.phase s = .acquired then some { σ with phase := setAt σ.phase s .calling } else none
  | .finish s ok =>
    if s ∈ σ.held ∧ (σ.phase s = .acquired ∨ σ.phase s = .calling) then some { σ with phase := setAt σ.phase s (.returned ok) } else none
  | .release s =>
    if s ∈ σ.held then
      match σ.phase s with
      | .returned ok =>
        if ok || fin then some { σ with free := s :: σ.free, held := σ.held.erase s }
        else some { σ with leaked := s :: σ.leaked, held := σ.held.erase s }
      | _ => none
    else none

/-- backend transfers in flight -/
def Slots.inflight (σ : Slots) : Nat := (σ.held.filter (fun s => σ.phase s == .calling)).length

/-! ## S2 — snapshot: producer → bounded queue → N workers -/

inductive WPhase
  | idle               -- at the loop test / polling
  | busy (k : Nat)     -- took chunk `k`, is checking / uploading it
  | exited             -- left the loop normally
  | failed             -- raised
deriving DecidableEq, Repr

structure Snap where
  total : Nat            -- chunks the producer is going to produce
  cap : Nat              -- `queue.Queue(maxsize=self._concurrent * 10)`
  produced : Nat
  queue : List Nat
  prodFinished : Bool    -- `_chunk_producer` returned (in its thread)
  prodDone : Bool        -- `chunk_producer.done()` as seen on the event loop
  abort : Bool
  workers : List WPhase
  processed : List Nat   -- chunks for which `_chunk_done` ran, latest first
  lost : List Nat        -- chunks taken by a worker that failed (ghost)
  uploaded : Bool        -- the snapshot object was uploaded
  inPut : Bool           -- the producer is past the abort test for chunk `produced`, inside `chunk_queue.put(chunk…)`
deriving Repr

inductive SnapEv
  | enterPut | put | prodStop | prodVisible
  | take (w : Nat) | poll (w : Nat) | exit (w : Nat) | finish (w : Nat) (ok : Bool)
  | raiseAbort | upload
deriving Repr

def Snap.init (total n : Nat) : Snap :=
  ⟨total, Gen.queueFactor * n, 0, [], false, false, false, List.replicate n .idle, [], [], false, false⟩

def anyFailed (ws : List WPhase) : Bool := ws.any (· == .failed)
def anyExited (ws : List WPhase) : Bool := ws.any (· == .exited)
def allExited (ws : List WPhase) : Bool := ws.all (· == .exited)
def allStopped (ws : List WPhase) : Bool := ws.all (fun p => p == .exited || p == .failed)

/-- `rechecks` = the producer's put is a loop of timed attempts with the abort test in between (`Gen.producerRechecksWhileFull`);
`false` = one blocking `chunk_queue.put(chunk)` after a single abort test: a producer waiting on a full queue never looks at the
flag again -/
def Snap.step (rechecks : Bool) (s : Snap) : SnapEv → Option Snap
  | .enterPut =>
    -- chunk `produced` is ready, `if abort.is_set(): return` was not taken, the producer calls `chunk_queue.put`
    if !s.prodFinished ∧ !s.inPut ∧ s.produced < s.total ∧ !(s.abort && Gen.producerStopsOnAbort) then some { s with inPut := true } else none
  | .put =>
    -- `chunk_queue.put(chunk…)` succeeded: there was room (a put that has been entered may follow a set flag)
    if !s.prodFinished ∧ s.inPut ∧ s.produced < s.total ∧ s.queue.length < s.cap then
      some { s with queue := s.queue ++ [s.produced], produced := s.produced + 1, inPut := false } else none
  | .prodStop =>
    -- `_chunk_producer` returns: after the last chunk, or at an abort test — the one before the put or (`rechecks` only) the one
    -- between two timed attempts of a put that found the queue full
    if !s.prodFinished ∧ (s.produced = s.total ∨ (s.abort ∧ Gen.producerStopsOnAbort ∧ (!s.inPut ∨ rechecks))) then
      some { s with prodFinished := true } else none
  | .prodVisible =>
    if s.prodFinished ∧ !s.prodDone then some { s with prodDone := true } else none
  | .take w =>
    -- loop test passed (evaluated before or after a concurrent put), `get_nowait()` returned the head
    match s.workers[w]?, s.queue with
    | some .idle, k :: rest =>
      if Gen.workerContinues false s.prodDone || Gen.workerContinues true s.prodDone then
        some { s with queue := rest, workers := s.workers.set w (.busy k) } else none
    | _, _ => none
  | .poll w =>
    -- loop test passed, `get_nowait()` raised `queue.Empty`, the worker sleeps
    match s.workers[w]? with
    | some .idle => if s.queue.isEmpty ∧ Gen.workerContinues true s.prodDone then some s else none
    | _ => none
  | .exit w =>
    match s.workers[w]? with
    | some .idle => if Gen.workerContinues s.queue.isEmpty s.prodDone = false then some { s with workers := s.workers.set w .exited } else none
    | _ => none
  | .finish w ok =>
    match s.workers[w]? with
    | some (.busy k) =>
      if ok then some { s with workers := s.workers.set w .idle, processed := k :: s.processed }
      else some { s with workers := s.workers.set w .failed, lost := k :: s.lost }
    | _ => none
  | .raiseAbort =>
    -- `except: abort.set(); raise` around the gather
    if anyFailed s.workers ∧ Gen.abortOnWorkerFailure ∧ !s.abort then some { s with abort := true } else none
  | .upload =>
    -- gather returned normally, `await chunk_producer` returned, the snapshot object is uploaded
    if allExited s.workers ∧ s.prodDone ∧ !s.uploaded then some { s with uploaded := true } else none

/-- events that change the state (everything except the poll stutter) -/
def SnapEv.progress : SnapEv → Bool
  | .poll _ => false
  | _ => true

/-- the operation is over: every worker stopped, the producer is done, and either the snapshot object went out or a worker failed -/
def Snap.finished (s : Snap) : Bool := allStopped s.workers && s.prodDone && (s.uploaded || anyFailed s.workers)

/-- potential that every progress step decreases (→ bound on the length of any schedule without polls) -/
def wWeight : WPhase → Nat
  | .idle => 1 | .busy _ => 2 | .exited => 0 | .failed => 0

def Snap.measure (s : Snap) : Nat :=
  4 * (s.total - s.produced) + 2 * s.queue.length + (s.workers.map wWeight).sum
    + (if s.prodFinished then 0 else 1) + (if s.prodDone then 0 else 1) + (if s.abort then 0 else 1) + (if s.uploaded then 0 else 1)
    + (if s.inPut then 0 else 1)

/-- the progress events that can possibly be enabled in a state with `n` workers (`poll` is the stutter) -/
def Snap.candidates (n : Nat) : List SnapEv :=
  [.enterPut, .put, .prodStop, .prodVisible, .raiseAbort, .upload] ++
    (List.range n).flatMap (fun w => [.take w, .exit w, .finish w true, .finish w false])

/-- one worker, queue bound `c`: the producer fills the queue, the worker takes the first chunk, the producer queues one more and
enters the put of chunk `c + 1` on the full queue; then the worker's transfer fails and the abort flag is raised -/
def Snap.floodSchedule (c : Nat) : List SnapEv :=
  (List.replicate c [SnapEv.enterPut, SnapEv.put]).flatten ++
    [.take 0, .enterPut, .put, .enterPut, .finish 0 false, .raiseAbort]

/-- nothing can move any more although the operation is not over: a hang -/
def Snap.stuck (rechecks : Bool) (s : Snap) : Bool :=
  !s.finished && (Snap.candidates s.workers.length).all (fun e => (Snap.step rechecks s e).isNone)

/-! ## S3 (writers) — per-file write locks with reference counts -/

structure Locks where
  glock : Option (Bool × Nat)   -- holder of `glock`: (is a writer job?, id)
  flocks : Nat → Option Nat     -- `flocks`: file ↦ lock object
  refc : Nat → Nat              -- `flocks_refcounts` (absent = 0)
  owner : Nat → Option Nat      -- lock object ↦ job inside `with flock:`
  next : Nat                    -- fresh lock objects
  pc : Nat → Nat                -- job ↦ program counter (see `Locks.step`)
  seen : Nat → Option Nat       -- job ↦ result of its `flocks[restore_to]` look-up
  lk : Nat → Option Nat         -- job ↦ the lock object it uses
  regs : Nat → List Nat         -- ghost: file ↦ jobs registered for it
  err : Bool                    -- a `KeyError` was raised

/-- program of one `_write_chunk_ref` job:
`0 —gAcq→ 1 —look→ 2 —commit→ 3 —gRel→ 4 —fAcq→ 5 —write→ 6 —fRel→ 7 —gAcq→ 8 —unreg→ 9 —gRel→ 10` -/
inductive LockEv
  | gAcq (j : Nat) | look (j : Nat) | commit (j : Nat) | gRel (j : Nat)
  | fAcq (j : Nat) | write (j : Nat) | fRel (j : Nat) | unreg (j : Nat)
  | extAcq (a : Nat) | extRel (a : Nat)      -- `glock` taken / released by somebody else (a loader)
deriving Repr

def Locks.init : Locks :=
  ⟨none, fun _ => none, fun _ => 0, fun _ => none, 0, fun _ => 0, fun _ => none, fun _ => none, fun _ => [], false⟩

/-- `atZero` = the table entries are deleted only when the count reaches zero (`Gen.flockDelAtZero`) -/
def Locks.step (atZero : Bool) (fileOf : Nat → Nat) (σ : Locks) : LockEv → Option Locks
  | .gAcq j =>
    if (σ.pc j = 0 ∨ σ.pc j = 7) ∧ σ.glock = none then some { σ with glock := some (true, j), pc := setAt σ.pc j (σ.pc j + 1) } else none
  | .look j =>
    if σ.pc j = 1 then some { σ with pc := setAt σ.pc j 2, seen := setAt σ.seen j (σ.flocks (fileOf j)) } else none
  | .commit j =>
    if σ.pc j = 2 then
      let f := fileOf j
      match σ.seen j with
      | none =>      -- `except KeyError: flock = flocks[restore_to] = threading.Lock(); flocks_refcounts[restore_to] = 1`
        some { σ with pc := setAt σ.pc j 3, flocks := setAt σ.flocks f (some σ.next), refc := setAt σ.refc f 1, next := σ.next + 1,
                      lk := setAt σ.lk j (some σ.next), regs := setAt σ.regs f (j :: σ.regs f) }
      | some l =>    -- `else: flocks_refcounts[restore_to] += 1`
        some { σ with pc := setAt σ.pc j 3, refc := setAt σ.refc f (σ.refc f + 1), lk := setAt σ.lk j (some l),
                      regs := setAt σ.regs f (j :: σ.regs f) }
    else none
  | .gRel j =>
    if (σ.pc j = 3 ∨ σ.pc j = 9) ∧ σ.glock = some (true, j) then some { σ with glock := none, pc := setAt σ.pc j (σ.pc j + 1) } else none
  | .fAcq j =>
    if σ.pc j = 4 then
      match σ.lk j with
      | some l => if σ.owner l = none then some { σ with pc := setAt σ.pc j 5, owner := setAt σ.owner l (some j) } else none
      | none => none
    else none
  | .write j => if σ.pc j = 5 then some { σ with pc := setAt σ.pc j 6 } else none
  | .fRel j =>
    if σ.pc j = 6 then
      match σ.lk j with
      | some l => some { σ with pc := setAt σ.pc j 7, owner := setAt σ.owner l none }
      | none => none
    else none
  | .unreg j =>
    if σ.pc j = 8 then
      let f := fileOf j
      match σ.flocks f with
      | none => some { σ with pc := setAt σ.pc j 9, err := true }       -- `flocks_refcounts[restore_to] -= 1` → KeyError
      | some _ =>
        let c := σ.refc f - 1
        if !atZero || c == 0 then
          some { σ with pc := setAt σ.pc j 9, flocks := setAt σ.flocks f none, refc := setAt σ.refc f 0, regs := setAt σ.regs f ((σ.regs f).erase j) }
        else
          some { σ with pc := setAt σ.pc j 9, refc := setAt σ.refc f c, regs := setAt σ.regs f ((σ.regs f).erase j) }
    else none
  | .extAcq a => if σ.glock = none then some { σ with glock := some (false, a) } else none
  | .extRel a => if σ.glock = some (false, a) then some { σ with glock := none } else none

/-- inside `with flock:` -/
def inCrit (p : Nat) : Bool := p == 5 || p == 6
/-- between registration and un-registration -/
def registered (p : Nat) : Bool := 3 ≤ p && p ≤ 8
/-- inside a `with glock:` block -/
def holdsG (p : Nat) : Bool := p == 1 || p == 2 || p == 3 || p == 8 || p == 9

/-! ## S3 (loaders) — pending digest sets and the finaliser -/

/-- one `_download_chunk(digest, refs)` call: `refs` = target file of every reference (a file may occur several times),
`paths` = `referenced_paths` (each file once) -/
structure Loader where
  d : Nat
  refs : List Nat
  paths : List Nat
deriving Repr, DecidableEq

inductive LPhase
  | dl                                   -- acquiring the slot / downloading / verifying
  | writing (todo : List Nat)            -- writer jobs submitted, `todo` not yet finished
  | fin (todo : List Nat)                -- in the loop over `referenced_paths`
  | removed (f : Nat) (todo : List Nat)  -- (old code) digest removed, lock released, emptiness not tested yet
  | popping (f : Nat) (todo : List Nat)  -- decided to finalise `f`, `files_metadata.pop` not done yet
  | done
  | failed                               -- `KeyError`
deriving Repr, DecidableEq

structure Fin where
  phase : Nat → LPhase          -- by digest
  pending : Nat → List Nat      -- `files_digests[file]`
  hasMeta : Nat → Bool          -- `file in files_metadata`
  finCount : Nat → Nat          -- how many times the file was finalised
  written : Nat → List Nat      -- ghost: files written so far on behalf of loader `d`

inductive FinEv
  | downloaded (d : Nat) | write (d f : Nat) | joined (d : Nat)
  | remove (d f : Nat) | test (d f : Nat) | pop (d f : Nat) | finish (d : Nat)
deriving Repr

def lookupLoader (L : List Loader) (d : Nat) : Option Loader := L.find? (fun l => l.d == d)

/-- `files_digests[f]` before the loaders start: the digests of all loaders that reference `f` -/
def pending₀ (L : List Loader) (f : Nat) : List Nat := (L.filter (fun l => l.paths.contains f)).map (·.d)

def Fin.init (L : List Loader) : Fin :=
  ⟨fun d => match lookupLoader L d with | some _ => .dl | none => .done, pending₀ L, fun _ => true, fun _ => 0, fun _ => []⟩

/-- `underLock` = `finished = not digests` is evaluated inside the `with glock:` that removes the digest
(`Gen.finaliseDecidedUnderLock`; `false` = the code before 6be86ef) -/
def Fin.step (underLock : Bool) (L : List Loader) (σ : Fin) : FinEv → Option Fin
  | .downloaded d =>
    match lookupLoader L d, σ.phase d with
    | some l, .dl => some { σ with phase := setAt σ.phase d (.writing l.refs) }
    | _, _ => none
  | .write d f =>
    match σ.phase d with
    | .writing todo => if f ∈ todo then some { σ with phase := setAt σ.phase d (.writing (todo.erase f)), written := setAt σ.written d (f :: σ.written d) } else none
    | _ => none
  | .joined d =>
    -- `for future in as_completed(writer_futures): future.result()` is over
    -- (`Gen.loaderJoinsWritersFirst`: the finalisation loop starts only after that loop)
    match lookupLoader L d, σ.phase d with
    | some l, .writing todo =>
      if todo.isEmpty || !Gen.loaderJoinsWritersFirst then some { σ with phase := setAt σ.phase d (.fin l.paths) } else none
    | _, _ => none
  | .remove d f =>
    match σ.phase d with
    | .fin todo =>
      if f ∈ todo then
        let p := (σ.pending f).erase d
        let σ' := { σ with pending := setAt σ.pending f p }
        if underLock then
          some { σ' with phase := setAt σ.phase d (if p.isEmpty then .popping f (todo.erase f) else .fin (todo.erase f)) }
        else some { σ' with phase := setAt σ.phase d (.removed f (todo.erase f)) }
      else none
    | _ => none
  | .test d f =>
    match σ.phase d with
    | .removed g todo =>
      if g = f then some { σ with phase := setAt σ.phase d (if (σ.pending f).isEmpty then .popping f todo else .fin todo) } else none
    | _ => none
  | .pop d f =>
    match σ.phase d with
    | .popping g todo =>
      if g = f then
        if σ.hasMeta f then
          some { σ with phase := setAt σ.phase d (.fin todo), hasMeta := setAt σ.hasMeta f false, finCount := setAt σ.finCount f (σ.finCount f + 1) }
        else some { σ with phase := setAt σ.phase d .failed }      -- `files_metadata.pop(file_path)` → KeyError
      else none
    | _ => none
  | .finish d =>
    match σ.phase d with
    | .fin [] => some { σ with phase := setAt σ.phase d .done }
    | _ => none

/-- well-formed loader table: one loader per digest, `paths` = the set of files in `refs` -/
def LoadersWF (L : List Loader) : Prop :=
  (L.map (·.d)).Nodup ∧ ∀ l ∈ L, l.paths.Nodup ∧ (∀ f ∈ l.paths, f ∈ l.refs) ∧ (∀ f ∈ l.refs, f ∈ l.paths)

instance (L : List Loader) : Decidable (LoadersWF L) := by unfold LoadersWF; infer_instance

/-- which file a loader is about to finalise -/
def poppingFile : LPhase → Option Nat
  | .popping f _ => some f
  | _ => none

/-- the loader has joined all its writer jobs -/
def pastWriting : LPhase → Bool
  | .dl => false | .writing _ => false | _ => true


/-! ## S1′ — slot requests from loader threads and the life of the event loop

`_acquire_slot_threadsafe` blocks its thread in `run_coroutine_threadsafe(self._slots.get(), loop).result()`; the request is served
by the event loop.  `asyncio.run` stops the loop as soon as the operation has returned.  Counters only (threads are anonymous). -/

structure Life where
  free : Nat        -- slots in the queue
  held : Nat        -- slots held by a thread whose transfer is in flight
  waiting : Nat     -- threads blocked waiting for a slot
  queued : Nat      -- downloads still in the executor's queue
  failed : Bool     -- a loader raised
  returned : Bool   -- the operation returned to `asyncio.run`
  closed : Bool     -- the loop does not run callbacks any more
  lost : Nat        -- slots released after the loop stopped
deriving Repr, DecidableEq

inductive LifeEv
  | begin            -- a loader thread takes the next queued download and asks for a slot
  | grant            -- the loop serves a request
  | finish (ok : Bool) -- a transfer ends; the slot is handed back (`call_soon_threadsafe(put_nowait)`)
  | dropQueued       -- (patched code) `loader.shutdown(cancel_futures=True)` after a failure
  | ret              -- the operation returns (normally: everything done; after a failure: see `joins`)
  | cancelWaiter     -- `asyncio.run` cancels a pending `_slots.get()` task; that thread's job fails
  | close            -- the loop stops
deriving Repr, DecidableEq

def Life.init (n jobs : Nat) : Life := ⟨n, 0, 0, jobs, false, false, false, 0⟩

/-- `joins` = after a failure the operation drops the queued downloads and waits for the running loaders before it re-raises
(`Gen.restoreJoinsLoadersOnFailure`) -/
def Life.step (joins : Bool) (σ : Life) : LifeEv → Option Life
  | .begin => if 0 < σ.queued then some { σ with queued := σ.queued - 1, waiting := σ.waiting + 1 } else none
  | .grant => if !σ.closed ∧ 0 < σ.waiting ∧ 0 < σ.free then some { σ with waiting := σ.waiting - 1, free := σ.free - 1, held := σ.held + 1 } else none
  | .finish ok =>
    if 0 < σ.held then
      let σ' := { σ with held := σ.held - 1, failed := σ.failed || !ok }
      if σ.closed then some { σ' with lost := σ.lost + 1 } else some { σ' with free := σ.free + 1 }
    else none
  | .dropQueued => if joins ∧ σ.failed ∧ !σ.returned then some { σ with queued := 0 } else none
  | .ret =>
    if σ.returned then none
    else if σ.queued = 0 ∧ σ.waiting = 0 ∧ σ.held = 0 then some { σ with returned := true }
    else if σ.failed ∧ !joins then some { σ with returned := true }      -- `gather` re-raises the first exception at once
    else none
  | .cancelWaiter => if σ.returned ∧ !σ.closed ∧ 0 < σ.waiting then some { σ with waiting := σ.waiting - 1, failed := true } else none
  | .close => if σ.returned ∧ !σ.closed then some { σ with closed := true } else none

/-! ## S1″ — slot requests under transfer latency (virtual time)

How long a backend transfer takes is not in the hands of replicat: between the start and the end of a transfer any amount of time
may pass.  `delay d` lets `d` milliseconds pass (at any moment: an over-approximation).  A slot request is stamped with the time
it was issued; if the request is a *bounded* wait (`tmo = some T`: `….result(timeout=T)`, `wait_for(…, T)`) it may give up once
`T` ms have passed (`expire`), and the job that issued it raises although no transfer failed.  With `tmo = none` (the request
blocks until a slot is free — `Gen.slotWaitBounded = false`) there is no such transition.  Counters only (threads are anonymous);
the slot queue serves its waiters first-come first-served. -/

structure Lat where
  free : Nat             -- slots in the queue
  held : Nat             -- slots held by a job whose transfer is in flight
  waiting : List Nat     -- one entry per blocked request: the time it was issued (oldest first)
  queued : Nat           -- jobs that have not asked for a slot yet
  done : Nat             -- jobs whose transfer completed
  timedOut : Nat         -- jobs that gave up waiting and raised
  now : Nat              -- virtual clock (ms)
deriving Repr, DecidableEq

inductive LatEv
  | request            -- a job asks for a slot
  | grant              -- the queue hands a free slot to the oldest waiter; its transfer starts
  | finish             -- a transfer completes (after whatever time it took); the slot goes back
  | delay (d : Nat)    -- `d` ms pass (a transfer takes its time)
  | expire             -- the oldest bounded request whose time is up gives up: the job raises
deriving Repr, DecidableEq

def Lat.init (n jobs : Nat) : Lat := ⟨Gen.slotCount n, 0, [], jobs, 0, 0, 0⟩

/-- the bound of the slot request as the source has it -/
def Lat.tmo : Option Nat := if Gen.slotWaitBounded then some Gen.slotWaitTimeoutMs else none

def Lat.step (tmo : Option Nat) (σ : Lat) : LatEv → Option Lat
  | .request => if 0 < σ.queued then some { σ with queued := σ.queued - 1, waiting := σ.waiting ++ [σ.now] } else none
  | .grant =>
    match σ.waiting with
    | _ :: rest => if 0 < σ.free then some { σ with waiting := rest, free := σ.free - 1, held := σ.held + 1 } else none
    | [] => none
  | .finish => if 0 < σ.held then some { σ with held := σ.held - 1, free := σ.free + 1, done := σ.done + 1 } else none
  | .delay d => some { σ with now := σ.now + d }
  | .expire =>
    match tmo, σ.waiting with
    | some T, t₀ :: rest => if t₀ + T ≤ σ.now then some { σ with waiting := rest, timedOut := σ.timedOut + 1 } else none
    | _, _ => none

/-- the events other than the passage of time -/
def Lat.moves : List LatEv := [.request, .grant, .finish, .expire]

/-- nothing is queued, waiting or in flight any more -/
def Lat.quiet (σ : Lat) : Bool := σ.queued == 0 && σ.waiting.isEmpty && σ.held == 0

/-- one slot, two jobs: the second request waits while the first transfer takes `d` ms -/
def Lat.slowSchedule (d : Nat) : List LatEv := [.request, .grant, .request, .delay d, .expire]

end Replicat.Sched
