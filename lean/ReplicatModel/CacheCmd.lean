import ReplicatModel.Repo
/-!
# Commands run by a client that has a snapshot cache directory  (C18)

`Repo.lean` models `_download_snapshot_threadsafe` with a cache (`viaCache`, `loadSnapshotsC`, `cacheAfterLoad`).  Every command
of replicat that reads snapshots (`delete`, `clean`, `restore`, `list-snapshots`, `list-files`) does so through `_load_snapshots`
and nothing else touches the cache, except that `delete_snapshots` unlinks the cache entry of every snapshot it deletes.
So the cached variant of a command is the command with `loadSnapshots` replaced by `loadSnapshotsC cache`.  To keep that
substitution checked (not re-typed), each command of `Repo.lean` is first factored as `<cmd>From (result of the load)`; the
factorisations are proved equal to the `Repo.lean` definitions (`Lemmas/CacheCmd.lean`, by `rfl`).

A cache is an ARBITRARY association list `location ↦ payload`: absent, a valid copy, `Obj.blob _` (empty file, a proper prefix
left by an interrupted `write_bytes`, garbage), the bytes of another snapshot / another repository's snapshot (`Obj.snap f' sid' _`
under the key of `(f, sid)`), entries for snapshots that no longer exist (stale).
-/
namespace Replicat.CacheCmd
open Replicat.Repo

/-! ## the commands as functions of what `_load_snapshots` returned -/

def deletePlanFrom (u : User) (sids : List Nat) (r : Except Err (List Loaded)) : Except Err DeletePlan :=
  match r with
  | .error e => .error e
  | .ok ls =>
    if ls.any (fun l => sids.contains l.sid && l.data.isNone) then .error .differentKey
    else if sids.any (fun sid => !ls.any (fun l => l.sid == sid)) then .error .notAvailable
    else
      let gone := ls.filter (fun l => sids.contains l.sid)
      let keep := ls.filter (fun l => !sids.contains l.sid)
      let keepChunks := keep.flatMap (·.chunks)
      let toDelete := (gone.flatMap (·.chunks)).filter (fun c => !keepChunks.contains c)
      .ok ⟨gone.map (fun l => .snap l.fam l.sid), toDelete.map (fun c => .chunk u.fam c)⟩

def deleteFrom (s : Store) (p : Except Err DeletePlan) : Except Err Store :=
  match p with
  | .error e => .error e
  | .ok p => .ok (delAll (delAll s p.snaps) p.chunks)

def cleanPlanFrom (enc : Bool) (u : User) (s : Store) (r : Except Err (List Loaded)) : Except Err (List Name) :=
  match r with
  | .error e => .error e
  | .ok ls =>
    let referenced := ls.flatMap (·.chunks)
    .ok (s.filterMap fun e =>
      match e.1 with
      | .chunk f c =>
        if f == u.fam && referenced.contains c then none
        else if enc && !(f == u.fam) then none
        else some (.chunk f c)
      | _ => none)

def cleanFrom (s : Store) (p : Except Err (List Name)) : Except Err Store :=
  match p with
  | .error e => .error e
  | .ok ns => .ok (delAll s ns)

def restoreFrom (u : User) (fre : Nat → Bool) (s : Store) (r : Except Err (List Loaded)) : Except Err (List FileRec) :=
  match r with
  | .error e => .error e
  | .ok ls =>
    let sel := selectFiles fre (readableNewestFirst ls)
    if sel.all (fun f => f.needs.all (chunkOk u s)) then .ok sel else .error .missing

def listSnapshotsFrom (r : Except Err (List Loaded)) : Except Err (List SnapRow) :=
  match r with
  | .error e => .error e
  | .ok ls => .ok ((ls.map fun l => (⟨l.sid, l.data.map (·.ts), l.data.map (·.files.length)⟩ : SnapRow)).mergeSort rowGE)

def listFilesFrom (fre : Nat → Bool) (r : Except Err (List Loaded)) : Except Err (List (Nat × Nat × Nat)) :=
  match r with
  | .error e => .error e
  | .ok ls => .ok ((readableNewestFirst ls).flatMap fun b => (b.files.filter (fun f => fre f.path)).map (fun f => (b.ts, f.path, f.ver)))

/-! ## the cached commands: `loadSnapshots` ↦ `loadSnapshotsC cache` -/

def all : Nat → Bool := fun _ => true

def deletePlanC (cache : Option Cache) (enc : Bool) (u : User) (sids : List Nat) (s : Store) : Except Err DeletePlan :=
  deletePlanFrom u sids (loadSnapshotsC cache enc u all s)

def deleteSnapshotsC (cache : Option Cache) (enc : Bool) (u : User) (sids : List Nat) (s : Store) : Except Err Store :=
  deleteFrom s (deletePlanC cache enc u sids s)

def cleanPlanC (cache : Option Cache) (enc : Bool) (u : User) (s : Store) : Except Err (List Name) :=
  cleanPlanFrom enc u s (loadSnapshotsC cache enc u all s)

def cleanC (cache : Option Cache) (enc : Bool) (u : User) (s : Store) : Except Err Store :=
  cleanFrom s (cleanPlanC cache enc u s)

def restoreC (cache : Option Cache) (enc : Bool) (u : User) (sre fre : Nat → Bool) (s : Store) : Except Err (List FileRec) :=
  restoreFrom u fre s (loadSnapshotsC cache enc u sre s)

def listSnapshotsC (cache : Option Cache) (enc : Bool) (u : User) (sre : Nat → Bool) (s : Store) : Except Err (List SnapRow) :=
  listSnapshotsFrom (loadSnapshotsC cache enc u sre s)

def listFilesC (cache : Option Cache) (enc : Bool) (u : User) (sre fre : Nat → Bool) (s : Store) : Except Err (List (Nat × Nat × Nat)) :=
  listFilesFrom fre (loadSnapshotsC cache enc u sre s)

/-- one command of a client whose cache directory currently holds `cache` (`none` = `--no-cache`) -/
def stepC (cache : Option Cache) (enc : Bool) (s : Store) : Op → Store
  | .snapshot u stream files ts sid => (snapshot u stream files ts sid s).1        -- snapshot never reads snapshots
  | .delete u sids => match deleteSnapshotsC cache enc u sids s with | .ok s' => s' | .error _ => s
  | .clean u => match cleanC cache enc u s with | .ok s' => s' | .error _ => s

/-- a history in which the cache the acting client sees is given per command — ANY sequence of caches: shared or separate
directories, left over from earlier commands, edited, truncated or emptied in between. -/
def runC (enc : Bool) (s : Store) : List (Option Cache × Op) → Store
  | [] => s
  | (c, op) :: rest => runC enc (stepC c enc s op) rest

/-- the read-only commands, as one observable -/
inductive Query
  | list (u : User) (sre : Nat → Bool)
  | listFiles (u : User) (sre fre : Nat → Bool)
  | restore (u : User) (sre fre : Nat → Bool)

inductive Answer
  | rows (r : Except Err (List SnapRow))
  | fileRows (r : Except Err (List (Nat × Nat × Nat)))
  | restored (r : Except Err (List FileRec))

def answer (enc : Bool) (s : Store) : Query → Answer
  | .list u sre => .rows (listSnapshots enc u sre s)
  | .listFiles u sre fre => .fileRows (listFiles enc u sre fre s)
  | .restore u sre fre => .restored (restore enc u sre fre s)

def answerC (cache : Option Cache) (enc : Bool) (s : Store) : Query → Answer
  | .list u sre => .rows (listSnapshotsC cache enc u sre s)
  | .listFiles u sre fre => .fileRows (listFilesC cache enc u sre fre s)
  | .restore u sre fre => .restored (restoreC cache enc u sre fre s)

/-- the error (if any) a mutating command reports -/
def stepErrC (cache : Option Cache) (enc : Bool) (s : Store) : Op → Option Err
  | .snapshot .. => none
  | .delete u sids => match deleteSnapshotsC cache enc u sids s with | .ok _ => none | .error e => some e
  | .clean u => match cleanC cache enc u s with | .ok _ => none | .error e => some e

def stepErr (enc : Bool) (s : Store) : Op → Option Err
  | .snapshot .. => none
  | .delete u sids => match deleteSnapshots enc u sids s with | .ok _ => none | .error e => some e
  | .clean u => match clean enc u s with | .ok _ => none | .error e => some e

/-! ## what the commands do to the cache -/

/-- `delete_snapshots`: `_delete_cached(location)` for every deleted snapshot (after the load stored what it downloaded) -/
def cacheAfterDelete (cache : Cache) (enc : Bool) (u : User) (sids : List Nat) (s : Store) : Cache :=
  let c1 := cacheAfterLoad cache enc u all s
  match deletePlanC (some cache) enc u sids s with
  | .error _ => c1
  | .ok p => delAll c1 p.snaps

/-! ## the code before the cached copy was verified (what `viaCache` is when `Gen.cacheVerified = false`) -/

def viaCacheU (cache : Option Cache) (f : Fam) (sid : Nat) (o : Obj) : Obj :=
  match cache with
  | none => o
  | some c => match get c (.snap f sid) with
    | none => o
    | some cached => cached

def loadSnapshotsU (cache : Option Cache) (enc : Bool) (u : User) (re : Nat → Bool) (s : Store) : Except Err (List Loaded) :=
  sequenceE (s.filterMap fun e =>
    match e.1 with
    | .snap f sid => if re sid && visible enc u f then some (loadOne enc u f sid (viaCacheU cache f sid e.2)) else none
    | _ => none)

/-! ## the cache DIRECTORY: `_store_cached`, one file-system operation at a time

The sections above treat a store as one total step (`cacheAfterLoad`).  A command can be killed hard (SIGKILL, OOM, power loss:
no Python handler runs) between any two file-system operations of `_store_cached`, or inside its write, and other clients sharing
the directory run their own operations in between.  What such a run leaves is not only an entry with some content but also
whatever OTHER files the store creates next to it (a temporary).  The operations `_store_cached` performs are read from its AST by
the extractor (`Gen.cacheStorePlanRaw`, decoded by `storePlan`); the model executes them on the part of the directory that belongs
to one entry name. -/

/-- which file an operation of `_store_cached` addresses: the entry itself, or the temporary it keeps next to it -/
inductive Slot
  | entry | temp
deriving DecidableEq, Repr

inductive FsOp
  | mkdirParents (existOk : Bool)           -- `file.parent.mkdir(parents=True, exist_ok=…)`
  | create (t : Slot) (excl : Bool)         -- open for writing: 'wb' (create or truncate) / 'xb' (fails if the name exists)
  | write (t : Slot)                        -- the payload goes to the file opened under that name (a kill leaves any prefix)
  | rename (src dst : Slot)                 -- `os.replace`
  | unlink (t : Slot) (missingOk : Bool)
deriving DecidableEq, Repr

inductive FsErr
  | exists | missing
deriving DecidableEq, Repr

/-- what the directory holds for ONE entry name: the entry file, the temporary next to it, whether the parent directory exists.
`Obj.blob 0` is an empty file, `Obj.blob (j+1)` a torn write; any other payload is as in `Cache`. -/
structure Loc where
  entry : Option Obj
  temp : Option Obj
  parent : Bool
deriving DecidableEq, Repr

def getSlot (l : Loc) : Slot → Option Obj
  | .entry => l.entry
  | .temp => l.temp

def setSlot (l : Loc) (t : Slot) (x : Option Obj) : Loc :=
  match t with
  | .entry => { l with entry := x }
  | .temp => { l with temp := x }

/-- one operation; `o` is the payload being stored.  A write goes to the open FILE: it cannot fail because of names (if the name
was unlinked or renamed away meanwhile the bytes go to a file the name no longer denotes). -/
def stepFs (o : Obj) (l : Loc) : FsOp → Except FsErr Loc
  | .mkdirParents ok => if l.parent && !ok then .error .exists else .ok { l with parent := true }
  | .create t excl =>
    if !l.parent then .error .missing
    else match getSlot l t with
      | some _ => if excl then .error .exists else .ok (setSlot l t (some (.blob 0)))
      | none => .ok (setSlot l t (some (.blob 0)))
  | .write t =>
    match getSlot l t with
    | some _ => .ok (setSlot l t (some o))
    | none => .ok l
  | .rename a b =>
    match getSlot l a with
    | none => .error .missing
    | some x => .ok (setSlot (setSlot l a none) b (some x))
  | .unlink t mo =>
    match getSlot l t with
    | none => if mo then .ok l else .error .missing
    | some _ => .ok (setSlot l t none)

def runOps (o : Obj) : List FsOp → Loc → Except FsErr Loc
  | [], l => .ok l
  | op :: rest, l => match stepFs o l op with
    | .error e => .error e
    | .ok l' => runOps o rest l'

/-- the same, with OTHER clients acting on the same names before each operation (`envs`: one arbitrary transformation per
operation; what they may do is restricted by `EnvOk` in the theorems) -/
def runOpsI (o : Obj) : List FsOp → List (Loc → Loc) → Loc → Except FsErr Loc
  | [], _, l => .ok l
  | op :: rest, envs, l => match stepFs o ((envs.headD id) l) op with
    | .error e => .error e
    | .ok l' => runOpsI o rest envs.tail l'

/-- a temporary whose name is unique to the run (pid / uuid / `tempfile`) is absent when the store starts, whatever earlier runs
left; a deterministic one is whatever the directory holds under that name -/
def startLoc (tempUnique : Bool) (l : Loc) : Loc := if tempUnique then { l with temp := none } else l

def runStore (ops : List FsOp) (tempUnique : Bool) (o : Obj) (l : Loc) : Except FsErr Loc :=
  runOps o ops (startLoc tempUnique l)

/-- the write at hand was torn: the file holds a proper prefix -/
def tearOp (j : Nat) (l : Loc) : Option FsOp → Loc
  | some (.write t) => (match getSlot l t with | some _ => setSlot l t (some (.blob (j + 1))) | none => l)
  | _ => l

/-- **a hard kill**: the first `k` operations ran; `tear = some j`: the process died inside operation `k` (if that is a write) -/
def killed (ops : List FsOp) (tempUnique : Bool) (k : Nat) (tear : Option Nat) (o : Obj) (l : Loc) : Except FsErr Loc :=
  match runOps o (ops.take k) (startLoc tempUnique l) with
  | .error e => .error e
  | .ok l' => .ok (match tear with | none => l' | some j => tearOp j l' ops[k]?)

/-! ### static safety of a plan: no operation can fail, whatever the directory holds and whatever other clients do meanwhile

state = (the parent directory is known to exist, this run's UNIQUE temporary is known to exist).  Nothing is known about the
entry (another client may create, replace or evict it at any time) nor about a temporary with a deterministic name (another
client — or an earlier, killed run — owns the same name). -/
def safeStep (tu : Bool) : Bool × Bool → FsOp → Option (Bool × Bool)
  | (_, tmp), .mkdirParents ok => if ok then some (true, tmp) else none
  | (par, tmp), .create .entry excl => if par && !excl then some (par, tmp) else none
  | (par, tmp), .create .temp excl => if par && (!excl || (tu && !tmp)) then some (par, tu) else none
  | st, .write _ => some st
  | (par, tmp), .rename .temp b => if tu && tmp then some (par, b == .temp) else none
  | _, .rename .entry _ => none
  | (par, tmp), .unlink .temp mo => if mo || (tu && tmp) then some (par, false) else none
  | (par, tmp), .unlink .entry mo => if mo then some (par, tmp) else none

def planSafeFrom (tu : Bool) : Bool × Bool → List FsOp → Bool
  | _, [] => true
  | st, op :: rest => match safeStep tu st op with
    | none => false
    | some st' => planSafeFrom tu st' rest

def planSafe (tu : Bool) (ops : List FsOp) : Bool := planSafeFrom tu (false, false) ops

/-- does a completed, undisturbed run leave the payload under the entry name?  (`none` = unknown, `some full`) -/
def effStep : Option Bool × Option Bool → FsOp → Option Bool × Option Bool
  | st, .mkdirParents _ => st
  | (_, t), .create .entry _ => (some false, t)
  | (e, _), .create .temp _ => (e, some false)
  | (e, t), .write .entry => (e.map fun _ => true, t)
  | (e, t), .write .temp => (e, t.map fun _ => true)
  | (_, t), .rename .temp .entry => (t, none)
  | (e, _), .rename .entry .temp => (none, e)
  | st, .rename _ _ => st
  | (_, t), .unlink .entry _ => (none, t)
  | (e, _), .unlink .temp _ => (e, none)

def planEffective (ops : List FsOp) : Bool := (ops.foldl effStep (none, none)).1 == some true

/-! ### the plan of the code at hand (decoded from `Generated.lean`) -/
def decodeSlot : String → Option Slot
  | "entry" => some .entry
  | "temp" => some .temp
  | _ => none

def decodeOp : String × String × String × Bool → Option FsOp
  | ("mkdir", _, _, ok) => some (.mkdirParents ok)
  | ("create", t, _, excl) => (decodeSlot t).map fun t => .create t excl
  | ("write", t, _, _) => (decodeSlot t).map fun t => .write t
  | ("rename", a, b, _) => match decodeSlot a, decodeSlot b with
    | some a, some b => some (.rename a b)
    | _, _ => none
  | ("unlink", t, _, mo) => (decodeSlot t).map fun t => .unlink t mo
  | _ => none

/-- `none`: the extractor did not recognise `_store_cached` (the theorems that need the plan then do not compile) -/
def storePlan : Option (List FsOp) :=
  if Gen.cacheStoreRecognised then Gen.cacheStorePlanRaw.mapM decodeOp else none

/-- the plan was recognised, cannot fail (`planSafe`) and leaves the payload under the entry name (`planEffective`) -/
def storePlanOk : Bool :=
  match storePlan with
  | some p => planSafe Gen.cacheTempUnique p && planEffective p
  | none => false

/-! ### a command of a client whose cache directory is `d` — with the stores it performs -/

structure CDir where
  entries : Cache            -- the files under entry names (what `_get_cached` can read)
  temps : Cache              -- deterministic temporaries lying next to entries, keyed by the entry's name
  noParent : List Name       -- entries whose parent directory does not exist (yet)

def CDir.loc (d : CDir) (n : Name) : Loc := ⟨get d.entries n, get d.temps n, !d.noParent.contains n⟩

/-- the snapshots `_load_snapshots` downloads, verifies and then stores (same condition as `cacheAfterLoad`) -/
def toStore (c : Cache) (enc : Bool) (u : User) (re : Nat → Bool) (s : Store) : List (Name × Obj) :=
  s.filter fun e =>
    match e.1, e.2 with
    | .snap f sid, .snap f' sid' _ => re sid && visible enc u f && f' == f && sid' == sid && !cacheUsable c f sid
    | _, _ => false

inductive CErr
  | repo (e : Err)           -- what the command reports without a cache too
  | store (e : FsErr)        -- `_store_cached` raised: the command fails BECAUSE of the cache directory
deriving DecidableEq, Repr

/-- `_load_snapshots` of a client with cache directory `d`: a failing store fails the command -/
def loadSnapshotsD (plan : List FsOp) (tu : Bool) (d : CDir) (enc : Bool) (u : User) (re : Nat → Bool) (s : Store) :
    Except CErr (List Loaded) :=
  match loadSnapshotsC (some d.entries) enc u re s with
  | .error e => .error (.repo e)
  | .ok ls =>
    match (toStore d.entries enc u re s).findSome? (fun e =>
        match runStore plan tu e.2 (d.loc e.1) with | .error x => some x | .ok _ => none) with
    | some x => .error (.store x)
    | none => .ok ls

def liftErr {α : Type} : Except Err α → Except CErr α
  | .error e => .error (.repo e)
  | .ok a => .ok a

end Replicat.CacheCmd
