import ReplicatModel.Repo
/-!
# Commands run by a client that has a snapshot cache directory  (C18)

`Repo.lean` models `_download_snapshot_threadsafe` with a cache (`viaCache`, `loadSnapshotsC`, `cacheAfterLoad`).  Every command
of replicat that reads snapshots (`delete`, `clean`, `restore`, `list-snapshots`, `list-files`) does so through `_load_snapshots`
and nothing else touches the cache, except that `delete_snapshots` unlinks the cache entry of every snapshot it deletes.
So the cached variant of a command is the command with `loadSnapshots` replaced by `loadSnapshotsC cache`.  To keep that
substitution checked (not re-typed), each command of `Repo.lean` is first factored as `<cmd>From (result of the load)`; the
factorisations are proved equal to the `Repo.lean` definitions (`Lemmas/CacheCmd.lean`, by `rfl`).

A cache is an ARBITRARY association list `location ↦ payload`: absent, a valid copy, `Obj.blob _` (empty file, a proper prefix
left by an interrupted `write_bytes`, garbage), the bytes of another snapshot / another repository's snapshot (`Obj.snap f' sid' _`
under the key of `(f, sid)`), entries for snapshots that no longer exist (stale).
-/
namespace Replicat.CacheCmd
open Replicat.Repo

/-! ## the commands as functions of what `_load_snapshots` returned -/

def deletePlanFrom (u : User) (sids : List Nat) (r : Except Err (List Loaded)) : Except Err DeletePlan :=
  match r with
  | .error e => .error e
  | .ok ls =>
    if ls.any (fun l => sids.contains l.sid && l.data.isNone) then .error .differentKey
    else if sids.any (fun sid => !ls.any (fun l => l.sid == sid)) then .error .notAvailable
    else
      let gone := ls.filter (fun l => sids.contains l.sid)
      let keep := ls.filter (fun l => !sids.contains l.sid)
      let keepChunks := keep.flatMap (·.chunks)
      let toDelete := (gone.flatMap (·.chunks)).filter (fun c => !keepChunks.contains c)
      .ok ⟨gone.map (fun l => .snap l.fam l.sid), toDelete.map (fun c => .chunk u.fam c)⟩

def deleteFrom (s : Store) (p : Except Err DeletePlan) : Except Err Store :=
  match p with
  | .error e => .error e
  | .ok p => .ok (delAll (delAll s p.snaps) p.chunks)

def cleanPlanFrom (enc : Bool) (u : User) (s : Store) (r : Except Err (List Loaded)) : Except Err (List Name) :=
  match r with
  | .error e => .error e
  | .ok ls =>
    let referenced := ls.flatMap (·.chunks)
    .ok (s.filterMap fun e =>
      match e.1 with
      | .chunk f c =>
        if f == u.fam && referenced.contains c then none
        else if enc && !(f == u.fam) then none
        else some (.chunk f c)
      | _ => none)

def cleanFrom (s : Store) (p : Except Err (List Name)) : Except Err Store :=
  match p with
  | .error e => .error e
  | .ok ns => .ok (delAll s ns)

def restoreFrom (u : User) (fre : Nat → Bool) (s : Store) (r : Except Err (List Loaded)) : Except Err (List FileRec) :=
  match r with
  | .error e => .error e
  | .ok ls =>
    let sel := selectFiles fre (readableNewestFirst ls)
    if sel.all (fun f => f.needs.all (chunkOk u s)) then .ok sel else .error .missing

def listSnapshotsFrom (r : Except Err (List Loaded)) : Except Err (List SnapRow) :=
  match r with
  | .error e => .error e
  | .ok ls => .ok ((ls.map fun l => (⟨l.sid, l.data.map (·.ts), l.data.map (·.files.length)⟩ : SnapRow)).mergeSort rowGE)

def listFilesFrom (fre : Nat → Bool) (r : Except Err (List Loaded)) : Except Err (List (Nat × Nat × Nat)) :=
  match r with
  | .error e => .error e
  | .ok ls => .ok ((readableNewestFirst ls).flatMap fun b => (b.files.filter (fun f => fre f.path)).map (fun f => (b.ts, f.path, f.ver)))

/-! ## the cached commands: `loadSnapshots` ↦ `loadSnapshotsC cache` -/

def all : Nat → Bool := fun _ => true

def deletePlanC (cache : Option Cache) (enc : Bool) (u : User) (sids : List Nat) (s : Store) : Except Err DeletePlan :=
  deletePlanFrom u sids (loadSnapshotsC cache enc u all s)

def deleteSnapshotsC (cache : Option Cache) (enc : Bool) (u : User) (sids : List Nat) (s : Store) : Except Err Store :=
  deleteFrom s (deletePlanC cache enc u sids s)

def cleanPlanC (cache : Option Cache) (enc : Bool) (u : User) (s : Store) : Except Err (List Name) :=
  cleanPlanFrom enc u s (loadSnapshotsC cache enc u all s)

def cleanC (cache : Option Cache) (enc : Bool) (u : User) (s : Store) : Except Err Store :=
  cleanFrom s (cleanPlanC cache enc u s)

def restoreC (cache : Option Cache) (enc : Bool) (u : User) (sre fre : Nat → Bool) (s : Store) : Except Err (List FileRec) :=
  restoreFrom u fre s (loadSnapshotsC cache enc u sre s)

def listSnapshotsC (cache : Option Cache) (enc : Bool) (u : User) (sre : Nat → Bool) (s : Store) : Except Err (List SnapRow) :=
  listSnapshotsFrom (loadSnapshotsC cache enc u sre s)

def listFilesC (cache : Option Cache) (enc : Bool) (u : User) (sre fre : Nat → Bool) (s : Store) : Except Err (List (Nat × Nat × Nat)) :=
  listFilesFrom fre (loadSnapshotsC cache enc u sre s)

/-- one command of a client whose cache directory currently holds `cache` (`none` = `--no-cache`) -/
def stepC (cache : Option Cache) (enc : Bool) (s : Store) : Op → Store
  | .snapshot u stream files ts sid => (snapshot u stream files ts sid s).1        -- snapshot never reads snapshots
  | .delete u sids => match deleteSnapshotsC cache enc u sids s with | .ok s' => s' | .error _ => s
  | .clean u => match cleanC cache enc u s with | .ok s' => s' | .error _ => s

/-- a history in which the cache the acting client sees is given per command — ANY sequence of caches: shared or separate
directories, left over from earlier commands, edited, truncated or emptied in between. -/
def runC (enc : Bool) (s : Store) : List (Option Cache × Op) → Store
  | [] => s
  | (c, op) :: rest => runC enc (stepC c enc s op) rest

/-- the read-only commands, as one observable -/
inductive Query
  | list (u : User) (sre : Nat → Bool)
  | listFiles (u : User) (sre fre : Nat → Bool)
  | restore (u : User) (sre fre : Nat → Bool)

inductive Answer
  | rows (r : Except Err (List SnapRow))
  | fileRows (r : Except Err (List (Nat × Nat × Nat)))
  | restored (r : Except Err (List FileRec))

def answer (enc : Bool) (s : Store) : Query → Answer
  | .list u sre => .rows (listSnapshots enc u sre s)
  | .listFiles u sre fre => .fileRows (listFiles enc u sre fre s)
  | .restore u sre fre => .restored (restore enc u sre fre s)

def answerC (cache : Option Cache) (enc : Bool) (s : Store) : Query → Answer
  | .list u sre => .rows (listSnapshotsC cache enc u sre s)
  | .listFiles u sre fre => .fileRows (listFilesC cache enc u sre fre s)
  | .restore u sre fre => .restored (restoreC cache enc u sre fre s)

/-- the error (if any) a mutating command reports -/
def stepErrC (cache : Option Cache) (enc : Bool) (s : Store) : Op → Option Err
  | .snapshot .. => none
  | .delete u sids => match deleteSnapshotsC cache enc u sids s with | .ok _ => none | .error e => some e
  | .clean u => match cleanC cache enc u s with | .ok _ => none | .error e => some e

def stepErr (enc : Bool) (s : Store) : Op → Option Err
  | .snapshot .. => none
  | .delete u sids => match deleteSnapshots enc u sids s with | .ok _ => none | .error e => some e
  | .clean u => match clean enc u s with | .ok _ => none | .error e => some e

/-! ## what the commands do to the cache -/

/-- `delete_snapshots`: `_delete_cached(location)` for every deleted snapshot (after the load stored what it downloaded) -/
def cacheAfterDelete (cache : Cache) (enc : Bool) (u : User) (sids : List Nat) (s : Store) : Cache :=
  let c1 := cacheAfterLoad cache enc u all s
  match deletePlanC (some cache) enc u sids s with
  | .error _ => c1
  | .ok p => delAll c1 p.snaps

/-! ## the code before the cached copy was verified (what `viaCache` is when `Gen.cacheVerified = false`) -/

def viaCacheU (cache : Option Cache) (f : Fam) (sid : Nat) (o : Obj) : Obj :=
  match cache with
  | none => o
  | some c => match get c (.snap f sid) with
    | none => o
    | some cached => cached

def loadSnapshotsU (cache : Option Cache) (enc : Bool) (u : User) (re : Nat → Bool) (s : Store) : Except Err (List Loaded) :=
  sequenceE (s.filterMap fun e =>
    match e.1 with
    | .snap f sid => if re sid && visible enc u f then some (loadOne enc u f sid (viaCacheU cache f sid e.2)) else none
    | _ => none)

end Replicat.CacheCmd
