import ReplicatModel.Sym
/-!
# A snapshot against a backend that is NOT a faithful map  (C05)

`Sym.step (.snapshot …)` decides per chunk by looking the location up in the model's own store: the backend is a map, and nobody
else touches it while the snapshot runs.  Real backends are weaker: `exists` of an eventually-consistent store may answer `False`
for an object that was uploaded a moment ago; another client (same key or not) may run `clean` / `delete` between two calls of the
running snapshot, so that an object this very snapshot has uploaded — or found — is gone when its next repeat is processed
(replicat takes no lock).  What reaches the backend is then decided by the BACKEND'S answers, not by the client.

Here a snapshot is a list of events: the next chunk of the stream together with the answer `exists` gave for it (`none` = the
truth about the model's store), or a removal of arbitrary objects by somebody else.  Every chunk is hashed and — in an encrypted
repository — encrypted with a fresh nonce by the producer before the worker asks the backend (mirrors `_chunk_producer`: the queue
holds `_SnapshotChunk.contents`); the worker uploads the QUEUED object iff the answer is `False` (mirrors `_worker`).  Which object
is queued / uploaded is `writerShape` = the generated `Gen.chunkQueuedIsCiphertext && Gen.chunkUploadIsQueuedContents`
(tools/sections/05_snapqueue.py): when the source no longer shows that the queue holds ciphertext whenever the repository is
encrypted (or that the worker uploads the queued object), the model hands the plain chunk to the backend, and
`adversarial_backend_public` (Properties/C05.lean) stops compiling.
-/
namespace Replicat.Sym
open Term (pub sec nonce key nil pair mac kdf enc)

/-- one thing that happens while a snapshot runs -/
inductive Ev where
  /-- the next chunk of the stream; `ans` = what `exists(location)` answered (`none`: the truth) -/
  | chunk (c : Term) (ans : Option Bool)
  /-- objects removed by somebody else (a concurrent `clean` / `delete`, a lifecycle rule, a lost write) -/
  | vanish (locs : List Term)
  deriving Repr, Inhabited

/-- the plaintext chunks of an event list, in stream order -/
def evChunks : List Ev → List Term
  | [] => []
  | .chunk c _ :: rest => c :: evChunks rest
  | .vanish _ :: rest => evChunks rest

/-- what the producer queues for plaintext chunk `c`, for a given shape of the producer (`ciphertextQueued`) -/
def queuedWith (ciphertextQueued : Bool) (p : Props) (n c : Term) : Term :=
  if ciphertextQueued then chunkObject p n c else c

/-- the shape of the CURRENT source: the producer queues ciphertext for every chunk of an encrypted repository
(`Gen.chunkQueuedIsCiphertext`) and the worker uploads exactly the queued object, at the chunk's location, only when `exists`
answered falsy (`Gen.chunkUploadIsQueuedContents`) -/
def writerShape : Bool := Gen.chunkQueuedIsCiphertext && Gen.chunkUploadIsQueuedContents

/-- what reaches the backend for chunk `c` when the CURRENT source uploads it -/
def queued (p : Props) (n c : Term) : Term := queuedWith writerShape p n c

/-- what the worker believes after asking: the backend's answer, or (honest backend) the truth -/
def answered (ans : Option Bool) (truth : Bool) : Bool := ans.getD truth

/-- one chunk: hash, encrypt (fresh nonce, counted in `uses` whether or not anything is uploaded), ask the backend, upload the
queued object iff the answer is `False`.  An upload replaces whatever the store holds at the location. -/
def putChunkAnsWith (q : Bool) (p : Props) (s : St) (c : Term) (ans : Option Bool) : St :=
  let d := digest c
  let loc := chunkLoc p d
  let obj := queuedWith q p (nonce s.next) c
  let s1 : St := if p.encrypted then
      { s with next := s.next + 1, uses := s.uses ++ [(subKey p (if Gen.chunkWriteKeyFromDigest then d else nil), nonce s.next)] }
    else s
  if answered ans (lookup s1.store loc).isSome then s1
  else { s1 with store := s1.store.filter (fun e => e.1 ≠ loc) ++ [(loc, obj)], log := s1.log ++ [(loc, obj)] }

def evStepWith (q : Bool) (p : Props) (s : St) : Ev → St
  | .chunk c ans => putChunkAnsWith q p s c ans
  | .vanish locs => { s with store := s.store.filter (fun e => !locs.contains e.1) }

def evStep (p : Props) (s : St) (e : Ev) : St := evStepWith writerShape p s e

/-- the end of `Repository.snapshot`: chunk table, two encryptions, upload of the snapshot object (same text as in `Sym.step`) -/
def finishSnapshot (p : Props) (encrypted : Bool) (s1 : St) (chunks : List Term) (data : Data) : St :=
  let table := encTable (dedup (chunks.map digest) [])
  let n1 := nonce s1.next
  let n2 := nonce (s1.next + 1)
  let stored := snapshotStored p n1 n2 table (encData data)
  let loc := snapLoc p (snapshotName stored)
  let s2 : St := if encrypted then
      { s1 with next := s1.next + 2,
                uses := s1.uses ++ [(p.userKey, n1), (subKey p (Term.hash (enc p.userKey n1 (encData data))), n2)] }
    else s1
  { s2 with store := s2.store.filter (fun e => e.1 ≠ loc) ++ [(loc, stored)], log := s2.log ++ [(loc, stored)] }

/-- a snapshot by `user` during which the backend behaves as `evs` says -/
def snapshotEvWith (q : Bool) (s : St) (user : Nat) (evs : List Ev) (data : Data) : St :=
  match s.users[user]? with
  | none => s
  | some u =>
    let p := u.props s.encrypted
    finishSnapshot p s.encrypted (evs.foldl (evStepWith q p) s) (evChunks evs) data

def snapshotEv (s : St) (user : Nat) (evs : List Ev) (data : Data) : St :=
  snapshotEvWith writerShape s user evs data

/-- a command of a history in which snapshots may run against such a backend -/
inductive BOp where
  | plain (op : Op)
  | snapshotEv (user : Nat) (evs : List Ev) (data : Data)
  deriving Repr, Inhabited

def stepBWith (q : Bool) (s : St) : BOp → St
  | .plain op => step s op
  | .snapshotEv user evs data => snapshotEvWith q s user evs data

def stepB (s : St) (op : BOp) : St := stepBWith writerShape s op

/-- one command issued by a client that believes `encrypted = view` (as `stepView`) -/
def stepViewBWith (q : Bool) (s : St) (view : Bool) (op : BOp) : St :=
  { stepBWith q { s with encrypted := view } op with encrypted := s.encrypted }

def stepViewB (s : St) (view : Bool) (op : BOp) : St := stepViewBWith writerShape s view op

def runBWith (q : Bool) (a : InitArgs) (ops : List (Bool × BOp)) : St :=
  ops.foldl (fun s vo => stepViewBWith q s vo.1 vo.2) (initSt a)

def runB (a : InitArgs) (ops : List (Bool × BOp)) : St := runBWith writerShape a ops

/-- everything emitted by a history of client commands against an arbitrary backend -/
def writtenB (a : InitArgs) (ops : List (Bool × BOp)) : List (Term × Term) := (runB a ops).log

/-- the honest schedule of a chunk list: every `exists` answers the truth, nobody interferes -/
def honestEvs (chunks : List Term) : List Ev := chunks.map (fun c => Ev.chunk c none)

end Replicat.Sym
