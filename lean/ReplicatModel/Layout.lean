import ReplicatModel.Basic
import ReplicatModel.Generated
/-!
# Stream layout, chunk→file attribution, snapshot records, restore plan  (C01, C14, C15)

Mirrors `Repository.snapshot` (`_stream_files`, `_chunk_done`), `Repository.restore` (reference plan,
`_write_chunk_ref`, `_write_file_part`) of replicat/repository.py.  Every arithmetic guard of `_chunk_done`, the padding
expression and the truncate expression are the *generated* translations in `Replicat.Gen`.

Offsets only: the model never needs the bytes to compute records; the theorems relate the offsets to bytes.
-/
namespace Replicat

/-- half-open byte range `[a, b)` of a list (Python `s[a:b]` for `a ≤ b`) -/
def slice {α : Type} (s : List α) (a b : Nat) : List α := (s.drop a).take (b - a)

/-- `(stream_start, stream_end)` -/
abbrev Span := Nat × Nat

/-- `_stream_files`: file `k` starts where the previous one ended plus the padding *of the previous file*;
padding is produced only when a next file starts (none after the last). -/
def layoutFrom (align : Nat) : Nat → List Nat → List Span
  | _, [] => []
  | off, n :: rest => (off, off + n) :: layoutFrom align (off + n + Gen.padding n align) rest

def layout (align : Nat) (sizes : List Nat) : List Span := layoutFrom align 0 sizes

/-- the byte stream handed to the chunker -/
def streamOf (align : Nat) : List Bytes → Bytes
  | [] => []
  | [f] => f
  | f :: g :: rest => f ++ List.replicate (Gen.padding f.length align) 0 ++ streamOf align (g :: rest)

/-- consecutive chunk spans from their lengths (`bytes_chunked` running sum) -/
def spansFrom : Nat → List Nat → List Span
  | _, [] => []
  | off, n :: rest => (off, off + n) :: spansFrom (off + n) rest

/-- `bisect.bisect_left(state.files, (key,))` on the list sorted by start: number of files with `start < key` -/
def bisectPoint (files : List Span) (key : Nat) : Nat := (files.takeWhile (fun f => f.1 < key)).length

/-- the files visited by `_chunk_done` for chunk `(cs, ce)`, in visiting order (indices descending):
`for index in range(bisect_point - 1, -1, -1): if file.stream_end < chunk.stream_start: break` -/
def visited (files : List Span) (cs ce : Nat) : List (Span × Nat) :=
  ((files.zipIdx.take (bisectPoint files (Gen.bisectKey cs ce))).reverse).takeWhile
    (fun fi => !Gen.stopScan fi.1.1 fi.1.2 cs ce)

/-- one entry of `file_data['chunks']` -/
structure Ref where
  counter : Nat
  lo : Nat
  hi : Nat
deriving Repr, DecidableEq, BEq

def refOf (f : Span) (j : Nat) (c : Span) : Ref :=
  ⟨j + 1, Gen.partStart f.1 f.2 c.1 c.2, Gen.partEnd f.1 f.2 c.1 c.2⟩

/-- what `_chunk_done(chunk j)` appends: `(file index, ref)` in visiting order -/
def chunkDone (files : List Span) (j : Nat) (c : Span) : List (Nat × Ref) :=
  (visited files c.1 c.2).map (fun fi => (fi.2, refOf fi.1 j c))

/-- `snapshot_files` — a dict keyed by path (here: file index), insertion ordered -/
abbrev Records := List (Nat × List Ref)

def addRef (recs : Records) (i : Nat) (r : Ref) : Records :=
  if recs.any (fun e => e.1 == i) then recs.map (fun e => if e.1 == i then (e.1, e.2 ++ [r]) else e)
  else recs ++ [(i, [r])]

def applyDone (files : List Span) (spans : List Span) (recs : Records) (j : Nat) : Records :=
  match spans[j]? with
  | none => recs
  | some c => (chunkDone files j c).foldl (fun rs ir => addRef rs ir.1 ir.2) recs

/-- the records after the chunks completed in the given order (any order: workers are concurrent) -/
def records (files spans : List Span) (order : List Nat) : Records :=
  order.foldl (applyDone files spans) []

def lookupRec (recs : Records) (i : Nat) : Option (List Ref) := (recs.find? (fun e => e.1 == i)).map (·.2)

/-- the references of file `f` in counter order (what a sequential run records) -/
def fileRefs (f : Span) : Nat → List Span → List Ref
  | _, [] => []
  | j, c :: cs =>
    if f.1 < Gen.bisectKey c.1 c.2 ∧ !Gen.stopScan f.1 f.2 c.1 c.2 then refOf f j c :: fileRefs f (j + 1) cs
    else fileRefs f (j + 1) cs

/-! ## restore -/

def refLE (a b : Ref) : Bool := a.counter ≤ b.counter

/-- `ordered_chunks = sorted(file_data['chunks'], key=counter)` and the running `chunk_position`:
list of `(chunk counter, start inside chunk, size, position in file)` -/
def planFrom : Nat → List Ref → List (Nat × Nat × Nat × Nat)
  | _, [] => []
  | pos, r :: rs => (r.counter, r.lo, r.hi - r.lo, pos) :: planFrom (pos + (r.hi - r.lo)) rs

def plan (refs : List Ref) : List (Nat × Nat × Nat × Nat) := planFrom 0 (refs.mergeSort refLE)

/-- `_write_file_part(path, data, offset)`: `truncate(max(file_end, offset + len(data)))`, seek, write -/
def writePart (old : Bytes) (off : Nat) (data : Bytes) : Bytes :=
  let n := Gen.writeTruncate old.length off data.length
  let ext := old ++ List.replicate (n - old.length) 0
  ext.take off ++ data ++ ext.drop (off + data.length)

/-- the data a plan entry writes: `contents[start : start + chunk_size]` of the chunk with that counter -/
def partData (chunks : List Bytes) (e : Nat × Nat × Nat × Nat) : Bytes :=
  match chunks[e.1 - 1]? with
  | none => []
  | some c => slice c e.2.1 (e.2.1 + e.2.2.1)

def applyWrites (chunks : List Bytes) (old : Bytes) (ws : List (Nat × Nat × Nat × Nat)) : Bytes :=
  ws.foldl (fun cur e => writePart cur e.2.2.2 (partData chunks e)) old

/-- size of the file according to its references (`chunk_position` after the loop) -/
def planSize (refs : List Ref) : Nat := (refs.map (fun r => r.hi - r.lo)).sum

/-- `os.truncate(path, n)` -/
def setLength (cur : Bytes) (n : Nat) : Bytes := (cur ++ List.replicate (n - cur.length) 0).take n

/-- restore of one recorded file.  `old` = what was at the target path (`none` = nothing), `ws` = the plan entries in the
order the writer threads execute them.  Result `none` = the path is not created. -/
def restoreFile (chunks : List Bytes) (old : Option Bytes) (refs : List Ref) (ws : List (Nat × Nat × Nat × Nat)) : Option Bytes :=
  if refs.isEmpty then
    (if Gen.restoresChunklessFiles then some [] else old)
  else
    let cur := applyWrites chunks (old.getD []) ws      -- `open('r+b')`, else create
    some (if Gen.restoreSetsFinalLength then setLength cur (planSize refs) else cur)

/-- `_flatten_resolve_paths`: what each argument expands to, concatenated; duplicates dropped (first kept) when the code does so -/
def dedupKeepFirst {α : Type} [BEq α] (l : List α) : List α :=
  l.foldl (fun acc a => if acc.contains a then acc else acc ++ [a]) []

def flattenArgs {α : Type} [BEq α] (expanded : List (List α)) : List α :=
  if Gen.flattenDedups then dedupKeepFirst expanded.flatten else expanded.flatten

/-- after the workers are done: files that were streamed but never attributed a chunk get an entry without references
(when the code does so) -/
def finalRecords (nfiles : Nat) (recs : Records) : Records :=
  if Gen.recordsChunklessFiles then
    recs ++ ((List.range nfiles).filter (fun i => !recs.any (fun e => e.1 == i))).map (fun i => (i, []))
  else recs

/-- tiling abstraction used by the tie: absolute stream ranges `(counter, lo, hi)` with empty ranges dropped,
ordered by counter -/
def tiling (refs : List Ref) : List (Nat × Nat × Nat) :=
  ((refs.mergeSort refLE).filter (fun r => r.lo < r.hi)).map (fun r => (r.counter, r.lo, r.hi))


/-! ## `_write_file_part` as the list of operations the code performs (C01: every part is written)

`Gen.writePartOps` is the sequence of operations on the opened file read from the source (tools/sections/01_writepart.py).
`branch` stands for control flow between two operations whose condition the model does not know: `leave data` says whether
the function is left there for this piece of data (an `if …: return`, a `raise`, a skipped block).  `C01.write_part_unconditional`
proves `runW … = writePart` for EVERY `leave`, which is possible only when the list has no `branch`. -/

/-- the opened file inside `_write_file_part`: content, file position, the remembered `file_end` -/
structure WState where
  content : Bytes
  pos : Nat
  fileEnd : Nat
deriving Repr

/-- `file.write(data)` at position `pos` (a position beyond the end is filled with zeros first) -/
def writeAt (cur : Bytes) (pos : Nat) (data : Bytes) : Bytes :=
  let ext := cur ++ List.replicate (pos - cur.length) 0
  ext.take pos ++ data ++ ext.drop (pos + data.length)

def stepW (off : Nat) (data : Bytes) (op : Gen.WOp) (s : WState) : WState :=
  match op with
  | .seekEnd => { s with pos := s.content.length, fileEnd := s.content.length }
  | .truncate => { s with content := setLength s.content (Gen.writeTruncate s.fileEnd off data.length) }
  | .seekOffset => { s with pos := off }
  | .writeData => { s with content := writeAt s.content s.pos data, pos := s.pos + data.length }
  | .branch => s
  | .other => s      -- not modelled; the theorem needs the list free of it

/-- the content of the file when `_write_file_part` returns -/
def runW (leave : Bytes → Bool) (off : Nat) (data : Bytes) : List Gen.WOp → WState → Bytes
  | [], s => s.content
  | .branch :: ops, s => if leave data then s.content else runW leave off data ops s
  | op :: ops, s => runW leave off data ops (stepW off data op s)

/-- the writer threads executing plan entries through the code's operation list; a reference that does not reach
`_write_file_part` (when the code has such a path) writes nothing -/
def applyWritesCode (leave : Bytes → Bool) (chunks : List Bytes) (old : Bytes) (ws : List (Nat × Nat × Nat × Nat)) : Bytes :=
  ws.foldl (fun cur e =>
    if Gen.everyRefReachesWritePart then runW leave e.2.2.2 (partData chunks e) Gen.writePartOps ⟨cur, 0, 0⟩ else cur) old

/-- `restoreFile` with the writes executed through the code's operation list -/
def restoreFileCode (leave : Bytes → Bool) (chunks : List Bytes) (old : Option Bytes) (refs : List Ref)
    (ws : List (Nat × Nat × Nat × Nat)) : Option Bytes :=
  if refs.isEmpty then
    (if Gen.restoresChunklessFiles then some [] else old)
  else
    let cur := applyWritesCode leave chunks (old.getD []) ws
    some (if Gen.restoreSetsFinalLength then setLength cur (planSize refs) else cur)

end Replicat
