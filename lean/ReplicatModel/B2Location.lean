import ReplicatModel.Store
/-!
# B2: the repository location (`-r b2:<bucket name>` or `-r b2:<bucket id>`)

The README allows two spellings of a B2 location: the bucket's name and the bucket's id.  The service is not as liberal: a
download-by-name URL (`…/file/<bucketName>/<fileName>`, also for HEAD) addresses the bucket by NAME only, the JSON API calls
(`b2_get_upload_url`, `b2_list_file_names`, `b2_hide_file`) by ID only.  The adapter is given one string, looks the bucket up
— `b2_list_buckets` (first bucket of the account one of whose fields equals the string), or the `allowed` part of the
authorisation answer when the application key is restricted to one bucket — and keeps the record `(id, name)`.

What the adapter then puts into a bucket slot is read from the source by `tools/sections/13_b2loc.py`:
`Gen.b2DownloadBucketRef`, `Gen.b2ApiBucketRef` ∈ {`"resolved.name"`, `"resolved.id"`, `"identifier"`} and the matched fields
`Gen.b2ListMatchFields`, `Gen.b2AllowedMatchFields`.  `B2.stepAt` is `B2.step` (Store.lean) behind that addressing: a request
that names our bucket correctly is served as before, a download URL with another bucket name is answered 404, an API call with
another bucket id 400 `bad_bucket_id` (the other buckets of the account are empty and not ours to write to).
-/
namespace Replicat.Store
open Replicat

/-- a bucket as the service reports it -/
structure Bucket where
  id : List Char
  name : List Char
deriving Repr, DecidableEq

/-- the field of a reported bucket a JSON key names -/
def Bucket.field (b : Bucket) (key : String) : Option (List Char) :=
  if key = "bucketId" then some b.id else if key = "bucketName" then some b.name else none

/-- `self._bucket_identifier in {…}`: the connection string equals one of the listed fields of the bucket -/
def Bucket.isNamedBy (fields : List String) (ident : List Char) (b : Bucket) : Bool :=
  fields.any (fun k => b.field k == some ident)

/-- where an adapter object is pointed -/
structure B2Loc where
  buckets : List Bucket      -- the buckets of the account in the order `b2_list_buckets` reports them (ours among them)
  own : Bucket               -- the bucket the repository lives in
  restricted : Bool          -- the application key is restricted to `own`: the bucket is taken from `allowed`, nothing is listed
  ident : List Char          -- the connection string
deriving Repr

/-- `authenticate` (restricted key) / `_get_bucket`: the bucket record the adapter works with; `none` = `ReplicatError`
("Key is restricted to the different bucket" / "Bucket … was not found") -/
def B2Loc.resolve (l : B2Loc) : Option Bucket :=
  if l.restricted then (if l.own.isNamedBy Gen.b2AllowedMatchFields l.ident then some l.own else none)
  else l.buckets.find? (Bucket.isNamedBy Gen.b2ListMatchFields l.ident)

/-- what the source puts into a bucket slot of a request: a field of the record or the connection string as given -/
def bucketRef (kind : String) (ident : List Char) (b : Bucket) : Option (List Char) :=
  if kind = "resolved.name" then some b.name
  else if kind = "resolved.id" then some b.id
  else if kind = "identifier" then some ident
  else none

/-- does the operation go through a download-by-name URL (bucket addressed by name) rather than an API call (by id)? -/
def Op.byNameUrl : Op → Bool
  | .exists_ _ | .download _ | .downloadStream _ _ _ => true
  | _ => false

/-- one adapter call at a location, for given slot fillers `dl` (download URLs) and `api` (`bucketId` values) -/
def B2.stepAtWith (dl api : String) (l : B2Loc) (ps : Nat) (s : B2) (op : Op) : B2 × Ret :=
  match l.resolve with
  | none => (s, .error .unmodelled)
  | some b =>
    if op.byNameUrl then
      match bucketRef dl l.ident b with
      | none => (s, .error .unmodelled)
      | some x =>
        if x = l.own.name then B2.step ps s op
        else (s, match op with
                 | .exists_ _ => .bool false        -- HEAD answers 404 = `Gen.b2ExistsFalseStatus`
                 | _ => .error .notFound)
    else
      match bucketRef api l.ident b with
      | none => (s, .error .unmodelled)
      | some x => if x = l.own.id then B2.step ps s op else (s, .error (.http 400 "bad_bucket_id"))

/-- the adapter as the current source addresses the bucket -/
def B2.stepAt (l : B2Loc) (ps : Nat) (s : B2) (op : Op) : B2 × Ret :=
  B2.stepAtWith Gen.b2DownloadBucketRef Gen.b2ApiBucketRef l ps s op

end Replicat.Store
