import ReplicatModel.Basic
/-!
# SHA-256 (FIPS 180-4) and HMAC (RFC 2104) — executable only

Used by the driver to instantiate the `Crypto` parameter of `SigV4.lean`, so that the model's signature can be compared
with the `Authorization` header of the real request.  No theorem depends on these definitions (every theorem is stated
for arbitrary `sha` / `hmac`); they are validated against `hashlib` / `hmac` by the differential runs of C16.
-/
namespace Replicat.Sha256

def K : Array UInt32 := #[
  0x428a2f98, 0x71374491, 0xb5c0fbcf, 0xe9b5dba5, 0x3956c25b, 0x59f111f1, 0x923f82a4, 0xab1c5ed5,
  0xd807aa98, 0x12835b01, 0x243185be, 0x550c7dc3, 0x72be5d74, 0x80deb1fe, 0x9bdc06a7, 0xc19bf174,
  0xe49b69c1, 0xefbe4786, 0x0fc19dc6, 0x240ca1cc, 0x2de92c6f, 0x4a7484aa, 0x5cb0a9dc, 0x76f988da,
  0x983e5152, 0xa831c66d, 0xb00327c8, 0xbf597fc7, 0xc6e00bf3, 0xd5a79147, 0x06ca6351, 0x14292967,
  0x27b70a85, 0x2e1b2138, 0x4d2c6dfc, 0x53380d13, 0x650a7354, 0x766a0abb, 0x81c2c92e, 0x92722c85,
  0xa2bfe8a1, 0xa81a664b, 0xc24b8b70, 0xc76c51a3, 0xd192e819, 0xd6990624, 0xf40e3585, 0x106aa070,
  0x19a4c116, 0x1e376c08, 0x2748774c, 0x34b0bcb5, 0x391c0cb3, 0x4ed8aa4a, 0x5b9cca4f, 0x682e6ff3,
  0x748f82ee, 0x78a5636f, 0x84c87814, 0x8cc70208, 0x90befffa, 0xa4506ceb, 0xbef9a3f7, 0xc67178f2]

def H0 : Array UInt32 := #[0x6a09e667, 0xbb67ae85, 0x3c6ef372, 0xa54ff53a, 0x510e527f, 0x9b05688c, 0x1f83d9ab, 0x5be0cd19]

@[inline] def rotr (x : UInt32) (n : UInt32) : UInt32 := (x >>> n) ||| (x <<< (32 - n))

def pad (msg : Bytes) : Bytes :=
  let l := msg.length
  let zeros := (55 + 64 - l % 64) % 64
  let bits := l * 8
  msg ++ [0x80] ++ List.replicate zeros 0
    ++ (List.range 8).map (fun i => UInt8.ofNat (bits / 2 ^ (8 * (7 - i)) % 256))

def word (a b c d : UInt8) : UInt32 :=
  (a.toUInt32 <<< 24) ||| (b.toUInt32 <<< 16) ||| (c.toUInt32 <<< 8) ||| d.toUInt32

def blockWords : Bytes → Array UInt32 → Array UInt32
  | a :: b :: c :: d :: rest, acc => blockWords rest (acc.push (word a b c d))
  | _, acc => acc

def schedule (w : Array UInt32) : Array UInt32 := Id.run do
  let mut w := w
  for t in [16:64] do
    let w15 := w[t - 15]!
    let w2 := w[t - 2]!
    let s0 := rotr w15 7 ^^^ rotr w15 18 ^^^ (w15 >>> 3)
    let s1 := rotr w2 17 ^^^ rotr w2 19 ^^^ (w2 >>> 10)
    w := w.push (w[t - 16]! + s0 + w[t - 7]! + s1)
  return w

def compress (h : Array UInt32) (block : Bytes) : Array UInt32 := Id.run do
  let w := schedule (blockWords block #[])
  let mut a := h[0]!
  let mut b := h[1]!
  let mut c := h[2]!
  let mut d := h[3]!
  let mut e := h[4]!
  let mut f := h[5]!
  let mut g := h[6]!
  let mut hh := h[7]!
  for t in [0:64] do
    let s1 := rotr e 6 ^^^ rotr e 11 ^^^ rotr e 25
    let ch := (e &&& f) ^^^ ((~~~ e) &&& g)
    let t1 := hh + s1 + ch + K[t]! + w[t]!
    let s0 := rotr a 2 ^^^ rotr a 13 ^^^ rotr a 22
    let mj := (a &&& b) ^^^ (a &&& c) ^^^ (b &&& c)
    let t2 := s0 + mj
    hh := g; g := f; f := e; e := d + t1; d := c; c := b; b := a; a := t1 + t2
  return #[h[0]! + a, h[1]! + b, h[2]! + c, h[3]! + d, h[4]! + e, h[5]! + f, h[6]! + g, h[7]! + hh]

def blocks : Nat → Bytes → Array UInt32 → Array UInt32
  | 0, _, h => h
  | fuel + 1, msg, h => if msg.isEmpty then h else blocks fuel (msg.drop 64) (compress h (msg.take 64))

def wordBytes (x : UInt32) : Bytes :=
  [(x >>> 24).toUInt8, (x >>> 16).toUInt8, (x >>> 8).toUInt8, x.toUInt8]

/-- SHA-256 digest (32 bytes) -/
def sha256 (msg : Bytes) : Bytes :=
  let p := pad msg
  (blocks (p.length / 64 + 1) p H0).toList.flatMap wordBytes

def hexDigitLower (n : UInt8) : UInt8 := if n < 10 then 0x30 + n else 0x57 + n

/-- lower-case hex string (as bytes) -/
def hexOf (bs : Bytes) : Bytes := bs.flatMap fun b => [hexDigitLower (b / 16), hexDigitLower (b % 16)]

/-- HMAC-SHA256 -/
def hmac (key msg : Bytes) : Bytes :=
  let k0 := if key.length > 64 then sha256 key else key
  let k := k0 ++ List.replicate (64 - k0.length) 0
  sha256 (k.map (· ^^^ 0x5c) ++ sha256 (k.map (· ^^^ 0x36) ++ msg))

end Replicat.Sha256
