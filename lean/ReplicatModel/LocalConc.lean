import ReplicatModel.LocalUpload
/-!
# Overlapping operations on one local backend object  (C13; replicat/backends/local.py)

The `Repository` runs the synchronous local backend on a thread pool, so several `upload` / `upload_stream` calls of ONE
`Local` object are in flight at the same time — to the same name, or to names of one directory.  Each call is the plan of
`LocalUpload.uploadSteps` (mkdir -p of the parent; create the temporary; one `write` per piece the input stream yields; rename
the temporary over the destination); a *schedule* picks, step by step, which call makes its next file-system step, and may put
a `delete` (one `unlink`) anywhere in between.  The file system is the path ↦ bytes table of `LocalUpload`.

The temporary's path is a parameter of the call (`Call.tmp`): the code asks `NamedTemporaryFile` for a name that does not
exist yet, so the temporaries of calls that are in flight together are pairwise different (`privateTemps`); a backend that
derived the temporary from the destination alone (or from the destination's first `Gen.localTempStemLen` characters and the
process id) would hand the SAME path to two overlapping calls — that is `shared_temp_witness` in Properties/C13.lean, where the later
`createTemp` truncates what the earlier call then renames over its destination.

What is the specification: a log of map operations (`put dst data`, `del n`) in the order of their linearisation points — the
rename of an upload, the unlink of a delete.  `Properties/C13.lean` proves that under private temporaries every schedule leaves,
at every moment, exactly the map this log denotes.
-/
namespace Replicat.LocalConc
open Replicat Replicat.LocalUpload

/-- one call of `upload(name, data)` (one piece) or `upload_stream(name, stream, …)` (one piece per non-empty `read`) -/
structure Call where
  dir : Path
  dst : Path
  tmp : Path
  pieces : List Bytes
deriving Repr

/-- the file-system steps of the call, in program order -/
def Call.plan (c : Call) : List Step := uploadSteps c.dir c.dst c.tmp c.pieces
/-- the payload -/
def Call.data (c : Call) : Bytes := c.pieces.flatten

/-- what the scheduler picks -/
inductive Ev
  | step (i : Nat)       -- call `i` makes its next file-system step (nothing if it has returned)
  | delete (n : Path)    -- `Local.delete(n)`
deriving Repr

/-- operations of the specification (a plain map) -/
inductive MapOp
  | put (n : Path) (d : Bytes)
  | del (n : Path)
deriving Repr, DecidableEq

def mapApply (fs : FS) : MapOp → FS
  | .put n d => putObj fs n d
  | .del n => { fs with files := remove fs.files n }

/-- the map after the logged operations (`log` is newest first) -/
def spec (fs0 : FS) (log : List MapOp) : FS := log.foldr (fun op s => mapApply s op) fs0

structure Conf where
  fs : FS
  pc : Nat → Nat          -- steps made so far, per call
  log : List MapOp        -- linearisation points passed so far, newest first

def init (fs0 : FS) : Conf := ⟨fs0, fun _ => 0, []⟩

def next (calls : List Call) (cf : Conf) : Ev → Conf
  | .delete n => ⟨apply cf.fs (.unlink n), cf.pc, .del n :: cf.log⟩
  | .step i =>
    match calls[i]? with
    | none => cf
    | some c =>
      match c.plan[cf.pc i]? with
      | none => cf
      | some st =>
        ⟨apply cf.fs st, fun j => if j = i then cf.pc i + 1 else cf.pc j,
         if cf.pc i + 1 = c.plan.length then .put c.dst c.data :: cf.log else cf.log⟩

def run (calls : List Call) (cf : Conf) (evs : List Ev) : Conf := evs.foldl (next calls) cf

/-- the temporaries of the calls are pairwise different paths -/
def privateTemps (calls : List Call) : Prop :=
  ∀ (i j : Nat) (a b : Call), calls[i]? = some a → calls[j]? = some b → i ≠ j → a.tmp ≠ b.tmp

/-- executable form, for the driver -/
def privateTempsB (calls : List Call) : Bool :=
  (List.range calls.length).all fun i => (List.range calls.length).all fun j =>
    i == j || (match calls[i]?, calls[j]? with
      | some a, some b => a.tmp != b.tmp
      | _, _ => true)

/-- the deletes of a schedule address objects, not temporaries -/
def deletesOk (evs : List Ev) : Prop := ∀ n, Ev.delete n ∈ evs → isTmp n = false

/-! ## the driver's view: configurations after every event -/

/-- all configurations a schedule passes through, the initial one first -/
def trace (calls : List Call) (cf : Conf) : List Ev → List Conf
  | [] => [cf]
  | e :: es => cf :: trace calls (next calls cf e) es

/-! ## the source's naming rule for the temporary -/

/-- POSIX `NAME_MAX` of the file systems a repository lives on (environment; one directory entry's name) -/
def nameMax : Nat := 255

/-- base name of the temporary of a call that drew `rnd`: `<first Gen.localTempStemLen characters of the destination's base
name>_<rnd><suffix>` (`destination.name[:N]`, `prefix=f'{…}_'`, `suffix=…`) -/
def tempBase (base rnd : List Char) : List Char :=
  base.take Gen.localTempStemLen ++ '_' :: rnd ++ Gen.localTempSuffix.toList

/-- … next to the destination (`dirSlash` = the destination up to and including its last `/`) -/
def tempName (dirSlash base rnd : String) : Path := dirSlash ++ String.ofList (tempBase base.toList rnd.toList)

/-- an upload request as the caller makes it -/
structure Req where
  dirSlash : String
  base : String
  pieces : List Bytes
deriving Repr

/-- the call the source makes of a request when the name generator hands it `rnd`: the per-call component enters the temporary's
name iff the source takes the name from a generator of fresh names (`Gen.localTempUniquePerCall`, regenerated from local.py);
otherwise the temporary is a function of the destination alone -/
def callOf (r : Req) (rnd : String) : Call :=
  ⟨r.dirSlash, r.dirSlash ++ r.base, tempName r.dirSlash r.base (if Gen.localTempUniquePerCall then rnd else ""), r.pieces⟩

def sourceCalls (l : List (Req × String)) : List Call := l.map (fun x => callOf x.1 x.2)

end Replicat.LocalConc
