import ReplicatModel.Basic
import ReplicatModel.Generated
/-!
# The repository as a state machine over an object map  (C02, C03, C06, C07, C08, C15, C18)

Mirrors `Repository.snapshot / _load_snapshots / _download_snapshot_threadsafe / list_snapshots / list_files / restore /
delete_snapshots / clean` of replicat/repository.py at the level of backend objects.

Ideal cryptography (DESIGN.md §4): a chunk's digest *is* its content id (`Content`); a key family `Fam` stands for one
(shared key, MAC key, chunker key) triple — storage names are `mac_fam(digest)`, so two families never share a name and a name
determines (family, content); a user key `UKey` decrypts exactly the private snapshot data encrypted with it.  An unencrypted
repository is `enc = false` with the single user `⟨0, 0⟩`.
A file inside a snapshot is abstracted to `(path, version id, chunk contents it needs)`: C01 proves that restoring a file from
the chunks it references yields exactly the recorded bytes.
-/
namespace Replicat.Repo

abbrev Content := Nat
abbrev Fam := Nat
abbrev UKey := Nat

structure User where
  key : UKey
  fam : Fam
deriving DecidableEq, Repr

structure FileRec where
  path : Nat
  ver : Nat
  needs : List Content
deriving DecidableEq, Repr

/-- decrypted snapshot body: `chunks` is the shared table (readable family-wide), `files`/`ts` the private data of `owner` -/
structure Body where
  owner : UKey
  ts : Nat
  chunks : List Content
  files : List FileRec
deriving DecidableEq, Repr

inductive Name
  | config
  | chunk (fam : Fam) (c : Content)      -- data/…  name = mac_fam(digest c), tag = mac_fam(name)
  | snap (fam : Fam) (sid : Nat)         -- snapshots/…  name = digest of the stored bytes (id `sid`), tag = mac_fam(name)
  | other (n : Nat)                      -- anything outside the two areas
deriving DecidableEq, Repr

inductive Obj
  | config
  | chunk (fam : Fam) (c : Content)      -- enc(kdf(shared_fam, digest c), c)
  | snap (fam : Fam) (sid : Nat) (b : Body)
  | blob (n : Nat)
deriving DecidableEq, Repr

inductive Err
  | corrupted | notAvailable | differentKey | missing
deriving DecidableEq, Repr

abbrev Store := List (Name × Obj)

def get (s : Store) (n : Name) : Option Obj := (s.find? (fun e => e.1 == n)).map (·.2)
def del (s : Store) (n : Name) : Store := s.filter (fun e => !(e.1 == n))
def put (s : Store) (n : Name) (o : Obj) : Store := (n, o) :: del s n

/-- a loaded snapshot: `data = none` ⇔ the private part did not decrypt with the user's key -/
structure Loaded where
  fam : Fam
  sid : Nat
  chunks : List Content
  data : Option Body
deriving DecidableEq, Repr

/-- tag check of `_load_snapshots` / `clean`: `props.encrypted and mac(name) != tag` ⇒ skip -/
def visible (enc : Bool) (u : User) (f : Fam) : Bool := !enc || f == u.fam

/-- `_download_snapshot_threadsafe` + `_decrypt_snapshot_body` for one listed object.
The digest check compares the stored bytes with the name: payload must be the snapshot `sid` of family `f`. -/
def loadOne (enc : Bool) (u : User) (f : Fam) (sid : Nat) (o : Obj) : Except Err Loaded :=
  match o with
  | .snap f' sid' b =>
    if f' == f && sid' == sid then
      .ok ⟨f, sid, b.chunks, if !enc || b.owner == u.key then some b else none⟩
    else .error .corrupted
  | _ => .error .corrupted

def sequenceE {ε α : Type} : List (Except ε α) → Except ε (List α)
  | [] => .ok []
  | .error e :: _ => .error e
  | .ok a :: rest => match sequenceE rest with
    | .ok as => .ok (a :: as)
    | .error e => .error e

/-- `_load_snapshots(snapshot_regex)` without a cache: list the snapshot area, skip by regex on the name, skip foreign tags -/
def loadCandidates (enc : Bool) (u : User) (re : Nat → Bool) (s : Store) : List (Except Err Loaded) :=
  s.filterMap fun e =>
    match e.1 with
    | .snap f sid => if re sid && visible enc u f then some (loadOne enc u f sid e.2) else none
    | _ => none

def loadSnapshots (enc : Bool) (u : User) (re : Nat → Bool) (s : Store) : Except Err (List Loaded) :=
  sequenceE (loadCandidates enc u re s)

/-! ## snapshot -/

def dedupKeepFirstC (l : List Content) : List Content :=
  l.foldl (fun acc a => if acc.contains a then acc else acc ++ [a]) []

/-- the worker loop for one chunk: `exists` then upload -/
def uploadChunk (u : User) (acc : Store × List Name) (c : Content) : Store × List Name :=
  if (get acc.1 (.chunk u.fam c)).isSome then acc
  else (put acc.1 (.chunk u.fam c) (.chunk u.fam c), acc.2 ++ [.chunk u.fam c])

/-- `snapshot`: chunks of the stream in order (each: exists? else put), finally the snapshot object.
Returns the new store and the chunk names that were uploaded. -/
def snapshot (u : User) (stream : List Content) (files : List FileRec) (ts sid : Nat) (s : Store) : Store × List Name :=
  let r := stream.foldl (uploadChunk u) (s, [])
  (put r.1 (.snap u.fam sid) (.snap u.fam sid ⟨u.key, ts, dedupKeepFirstC stream, files⟩), r.2)

/-! ## delete / clean -/

def delAll (s : Store) (ns : List Name) : Store := ns.foldl del s

structure DeletePlan where
  snaps : List Name
  chunks : List Name
deriving Repr

/-- the decision part of `delete_snapshots` (everything before the first mutation) -/
def deletePlan (enc : Bool) (u : User) (sids : List Nat) (s : Store) : Except Err DeletePlan :=
  match loadSnapshots enc u (fun _ => true) s with
  | .error e => .error e
  | .ok ls =>
    if ls.any (fun l => sids.contains l.sid && l.data.isNone) then .error .differentKey
    else if sids.any (fun sid => !ls.any (fun l => l.sid == sid)) then .error .notAvailable
    else
      let gone := ls.filter (fun l => sids.contains l.sid)
      let keep := ls.filter (fun l => !sids.contains l.sid)
      let keepChunks := keep.flatMap (·.chunks)
      let toDelete := (gone.flatMap (·.chunks)).filter (fun c => !keepChunks.contains c)
      .ok ⟨gone.map (fun l => .snap l.fam l.sid), toDelete.map (fun c => .chunk u.fam c)⟩

/-- `delete_snapshots`: snapshot objects first, then the chunks no remaining loadable snapshot references -/
def deleteSnapshots (enc : Bool) (u : User) (sids : List Nat) (s : Store) : Except Err Store :=
  match deletePlan enc u sids s with
  | .error e => .error e
  | .ok p => .ok (delAll (delAll s p.snaps) p.chunks)

def cleanPlan (enc : Bool) (u : User) (s : Store) : Except Err (List Name) :=
  match loadSnapshots enc u (fun _ => true) s with
  | .error e => .error e
  | .ok ls =>
    let referenced := ls.flatMap (·.chunks)
    .ok (s.filterMap fun e =>
      match e.1 with
      | .chunk f c =>
        if f == u.fam && referenced.contains c then none        -- location in referenced_locations
        else if enc && !(f == u.fam) then none                    -- tag does not validate: not ours
        else some (.chunk f c)
      | _ => none)

def clean (enc : Bool) (u : User) (s : Store) : Except Err Store :=
  match cleanPlan enc u s with
  | .error e => .error e
  | .ok ns => .ok (delAll s ns)

/-! ## listings and restore selection -/

def tsGE (a b : Body) : Bool := b.ts ≤ a.ts

/-- the snapshots `restore` / `list_files` work with: readable ones, newest first -/
def readableNewestFirst (ls : List Loaded) : List Body :=
  (ls.filterMap (·.data)).mergeSort tsGE

/-- `restore`'s selection loop: first occurrence of a path (newest snapshot) wins; file filter applied per file -/
def selectFiles (fre : Nat → Bool) (bodies : List Body) : List FileRec :=
  (bodies.flatMap (·.files)).foldl
    (fun acc f => if acc.any (fun g => g.path == f.path) then acc else if fre f.path then acc ++ [f] else acc) []

def chunkOk (u : User) (s : Store) (c : Content) : Bool := get s (.chunk u.fam c) == some (.chunk u.fam c)

/-- `restore(snapshot_regex, file_regex)`: which file versions are written; error if a needed chunk is missing / fails verification -/
def restore (enc : Bool) (u : User) (sre fre : Nat → Bool) (s : Store) : Except Err (List FileRec) :=
  match loadSnapshots enc u sre s with
  | .error e => .error e
  | .ok ls =>
    let sel := selectFiles fre (readableNewestFirst ls)
    if sel.all (fun f => f.needs.all (chunkOk u s)) then .ok sel else .error .missing

/-- one row of `list-snapshots`: name, readable?, timestamp, file count -/
structure SnapRow where
  sid : Nat
  ts : Option Nat
  files : Option Nat
deriving DecidableEq, Repr

def rowGE (a b : SnapRow) : Bool := (b.ts.getD 0) ≤ (a.ts.getD 0)

def listSnapshots (enc : Bool) (u : User) (sre : Nat → Bool) (s : Store) : Except Err (List SnapRow) :=
  match loadSnapshots enc u sre s with
  | .error e => .error e
  | .ok ls => .ok ((ls.map fun l => (⟨l.sid, l.data.map (·.ts), l.data.map (·.files.length)⟩ : SnapRow)).mergeSort rowGE)

/-- rows of `list-files`: (snapshot ts, path, version), newest snapshot first -/
def listFiles (enc : Bool) (u : User) (sre fre : Nat → Bool) (s : Store) : Except Err (List (Nat × Nat × Nat)) :=
  match loadSnapshots enc u sre s with
  | .error e => .error e
  | .ok ls => .ok ((readableNewestFirst ls).flatMap fun b => (b.files.filter (fun f => fre f.path)).map (fun f => (b.ts, f.path, f.ver)))

/-! ## cache (C18): `_download_snapshot_threadsafe` with a cache directory -/

/-- a cache is an arbitrary map from snapshot locations to arbitrary payloads (absent, valid, truncated, foreign …) -/
abbrev Cache := List (Name × Obj)

/-- the bytes `_download_snapshot_threadsafe` ends up decrypting for a listed snapshot object `o` at `(f, sid)`:
a cached copy if there is one (verified against the name when the code does so), else the downloaded object -/
def viaCache (cache : Option Cache) (f : Fam) (sid : Nat) (o : Obj) : Obj :=
  match cache with
  | none => o
  | some c =>
    match get c (.snap f sid) with
    | none => o
    | some cached =>
      if Gen.cacheVerified then
        (match cached with
         | .snap f' sid' _ => if f' == f && sid' == sid then cached else o
         | _ => o)
      else cached

def loadCandidatesC (cache : Option Cache) (enc : Bool) (u : User) (re : Nat → Bool) (s : Store) : List (Except Err Loaded) :=
  s.filterMap fun e =>
    match e.1 with
    | .snap f sid => if re sid && visible enc u f then some (loadOne enc u f sid (viaCache cache f sid e.2)) else none
    | _ => none

def loadSnapshotsC (cache : Option Cache) (enc : Bool) (u : User) (re : Nat → Bool) (s : Store) : Except Err (List Loaded) :=
  sequenceE (loadCandidatesC cache enc u re s)

/-- is the cached copy for `(f, sid)` the one `_download_snapshot_threadsafe` goes on with (present, and — when the code
verifies — hashing to the name)?  If not, the snapshot is downloaded. -/
def cacheUsable (c : Cache) (f : Fam) (sid : Nat) : Bool :=
  match get c (.snap f sid) with
  | none => false
  | some cached =>
    if Gen.cacheVerified then
      (match cached with
       | .snap f' sid' _ => f' == f && sid' == sid
       | _ => false)
    else true

/-- the cache after a load: every listed, visible, matching snapshot that was downloaded and verified is stored
(`_store_cached` overwrites an invalid entry that was ignored) -/
def cacheAfterLoad (cache : Cache) (enc : Bool) (u : User) (re : Nat → Bool) (s : Store) : Cache :=
  s.foldl (fun c e =>
    match e.1, e.2 with
    | .snap f sid, .snap f' sid' b =>
      if re sid && visible enc u f && f' == f && sid' == sid && !cacheUsable c f sid then put c (.snap f sid) (.snap f' sid' b) else c
    | _, _ => c) cache

/-! ## histories -/

inductive Op
  | snapshot (u : User) (stream : List Content) (files : List FileRec) (ts sid : Nat)
  | delete (u : User) (sids : List Nat)
  | clean (u : User)
deriving Repr

/-- one command; an erroring command leaves the store unchanged (all errors are raised before the first mutation) -/
def step (enc : Bool) (s : Store) : Op → Store
  | .snapshot u stream files ts sid => (snapshot u stream files ts sid s).1
  | .delete u sids => match deleteSnapshots enc u sids s with | .ok s' => s' | .error _ => s
  | .clean u => match clean enc u s with | .ok s' => s' | .error _ => s

def run (enc : Bool) (s : Store) (ops : List Op) : Store := ops.foldl (step enc) s

/-! ## mutation plans (C03): the backend mutations of a command and the order constraints the code enforces -/

inductive Mut
  | put (n : Name) (o : Obj)
  | del (n : Name)
deriving DecidableEq, Repr

def applyMut (s : Store) : Mut → Store
  | .put n o => put s n o
  | .del n => del s n

def applyMuts (s : Store) (ms : List Mut) : Store := ms.foldl applyMut s

/-- a plan is a list of *stages*; mutations inside a stage may complete in any order (`asyncio.gather`), a stage starts only
after the previous one finished -/
abbrev Plan := List (List Mut)

def snapshotPlan (u : User) (stream : List Content) (files : List FileRec) (ts sid : Nat) (s : Store) : Plan :=
  let r := snapshot u stream files ts sid s
  [r.2.map (fun n => match n with | .chunk f c => Mut.put n (.chunk f c) | _ => Mut.del n),
   [Mut.put (.snap u.fam sid) (.snap u.fam sid ⟨u.key, ts, dedupKeepFirstC stream, files⟩)]]

def deleteMutPlan (enc : Bool) (u : User) (sids : List Nat) (s : Store) : Plan :=
  match deletePlan enc u sids s with
  | .error _ => []
  | .ok p => [p.snaps.map Mut.del, p.chunks.map Mut.del]

def cleanMutPlan (enc : Bool) (u : User) (s : Store) : Plan :=
  match cleanPlan enc u s with
  | .error _ => []
  | .ok ns => [ns.map Mut.del]

def planOf (enc : Bool) (s : Store) : Op → Plan
  | .snapshot u stream files ts sid => snapshotPlan u stream files ts sid s
  | .delete u sids => deleteMutPlan enc u sids s
  | .clean u => cleanMutPlan enc u s

/-- drop stages that are already complete -/
def normalizePlan : Plan → Plan
  | [] => []
  | stage :: rest => if stage.isEmpty then normalizePlan rest else stage :: rest

/-- is `trace` (mutations in completion order) a prefix of a linearisation of `plan`? -/
def acceptsPrefix : Plan → List Mut → Bool
  | _, [] => true
  | p, m :: ms =>
    match normalizePlan p with
    | [] => false
    | stage :: rest => if stage.contains m then acceptsPrefix (stage.erase m :: rest) ms else false

end Replicat.Repo
