import ReplicatModel.Basic
import ReplicatModel.Generated
/-! Executable model of `gclmulchunker::key`: two carry-less multiplications (PCLMULQDQ) with the
reduction constant from the constructor.  Used only by the driver (theorems are generic in the hash). -/
namespace Replicat

/-- carry-less multiplication of two 64-bit values (128-bit result as a Nat) -/
def clmul (a b : Nat) : Nat := Id.run do
  let mut r := 0
  for i in [0:64] do
    if (b >>> i) % 2 = 1 then r := r ^^^ (a <<< i)
  return r

def le64 (bs : Bytes) : Nat :=
  (bs.take 8).foldr (fun b acc => acc * 256 + b.toNat) 0

/-- key bytes 0..8 → k0 (little endian), 8..16 → k1 -/
def clmulHash (key : Bytes) : Bytes → Nat := fun w =>
  let k0 := le64 (key.take 8)
  let k1 := le64 (key.drop 8)
  let v := clmul k0 (le64 w)
  let u := clmul Gen.reductionConst (v >>> 64)
  (k1 ^^^ u ^^^ v) % (2 ^ 64)

end Replicat
