import ReplicatModel.Repo
/-!
# Destructive commands over a listing that fails or is silently partial  (C02)

`delete_snapshots` and `clean` compute what they keep from `backend.list_files`: `_load_snapshots` lists `snapshots/`, `clean`
then lists `data/`.  `Repo.lean` treats the listing as the object map itself.  Here the listing is a separate step that may

* raise (the backend's call or its iteration raises; a directory of the local backend cannot be scanned and the error travels
  up through `iterative_scandir`, `Local.list_files`, `Repository._aiter` to the command), or
* deliver a SUB-listing without an error (somebody on the way caught the error and went on).

The decision part of the command (`deletePlan` / `cleanPlan`) runs on the delivered *view*; the mutations are applied to the
real object map.  Which of the two happens for which kind of fault is read from the source on every run (`ListFlags.gen`):
the theorems of `Properties/C02.lean` hold for a complete-or-error listing and consume those flags.
-/
namespace Replicat.Repo

inductive Area
  | snaps | chunks
deriving DecidableEq, Repr

def areaOf : Name → Option Area
  | .snap _ _ => some .snaps
  | .chunk _ _ => some .chunks
  | _ => none

/-- what goes wrong while an area is listed; `lost` = the names that are not delivered because of it -/
inductive ScanKind
  | top                                  -- `os.scandir(<repository>/snapshots)` (resp. `data`) itself raises
  | walkOpen (lost : Name → Bool)        -- `os.scandir` of a directory below raises (EACCES, EIO, ESTALE, ENOENT …)
  | walkIter (lost : Name → Bool)        -- a directory below is opened, its iteration / an entry's type test raises part-way
  | raises (lost : Name → Bool)          -- any backend: the listing call / its iteration raises after delivering the rest

structure ScanFault where
  area : Area
  kind : ScanKind

/-- how errors travel, per layer (`true` = the layer lets the error through); `topSwallow` = the handler around the top-level
`os.scandir` of `Local.list_files` turns ANY `OSError` into an empty listing -/
structure ListFlags where
  walkOpen : Bool
  walkIter : Bool
  repo : Bool
  topSwallow : Bool
deriving DecidableEq, Repr

/-- the flags of the source tree as extracted on this run -/
def ListFlags.gen : ListFlags :=
  ⟨Gen.localWalkOpenPropagates, Gen.localWalkIterPropagates, Gen.repoListingErrorsPropagate, Gen.localListTopSwallowsAnyOSError⟩

/-- a listing is complete-or-error when every layer lets errors through and nothing is turned into an empty listing -/
def ListFlags.safe (F : ListFlags) : Bool := F.walkOpen && F.walkIter && F.repo && !F.topSwallow

inductive Listed
  | error
  | view (v : Store)

def hide (a : Area) (lost : Name → Bool) (s : Store) : Store :=
  s.filter (fun e => !(areaOf e.1 == some a && lost e.1))

/-- the outcome of listing area `a` of the object map `s` under the fault `flt` (a fault in the other area does not fire) -/
def listArea (F : ListFlags) (flt : Option ScanFault) (a : Area) (s : Store) : Listed :=
  match flt with
  | none => .view s
  | some f =>
    if f.area != a then .view s
    else match f.kind with
      | .top => if F.topSwallow || !F.repo then .view (hide a (fun _ => true) s) else .error
      | .walkOpen lost => if F.walkOpen && F.repo then .error else .view (hide a lost s)
      | .walkIter lost => if F.walkIter && F.repo then .error else .view (hide a lost s)
      | .raises lost => if F.repo then .error else .view (hide a lost s)

inductive LErr
  | listing
  | cmd (e : Err)
deriving DecidableEq, Repr

/-- `delete_snapshots` with the listing explicit: only `snapshots/` is listed -/
def deleteL (F : ListFlags) (enc : Bool) (u : User) (sids : List Nat) (flt : Option ScanFault) (s : Store) : Except LErr Store :=
  match listArea F flt .snaps s with
  | .error => .error .listing
  | .view v =>
    match deletePlan enc u sids v with
    | .error e => .error (.cmd e)
    | .ok p => .ok (delAll (delAll s p.snaps) p.chunks)

/-- `clean` with the listings explicit: `snapshots/` first (all of it is loaded before anything else happens), then `data/`;
the set to delete is complete before the first deletion -/
def cleanL (F : ListFlags) (enc : Bool) (u : User) (flt : Option ScanFault) (s : Store) : Except LErr Store :=
  match listArea F flt .snaps s with
  | .error => .error .listing
  | .view v1 =>
    match listArea F flt .chunks v1 with
    | .error => .error .listing
    | .view v =>
      match cleanPlan enc u v with
      | .error e => .error (.cmd e)
      | .ok ns => .ok (delAll s ns)

/-- one command under a listing fault; a snapshot command lists nothing; a failing command leaves the object map alone -/
def stepL (F : ListFlags) (enc : Bool) (flt : Option ScanFault) (s : Store) : Op → Store
  | .snapshot u stream files ts sid => (snapshot u stream files ts sid s).1
  | .delete u sids => match deleteL F enc u sids flt s with | .ok s' => s' | .error _ => s
  | .clean u => match cleanL F enc u flt s with | .ok s' => s' | .error _ => s

def errL (F : ListFlags) (enc : Bool) (flt : Option ScanFault) (s : Store) : Op → Option LErr
  | .snapshot .. => none
  | .delete u sids => match deleteL F enc u sids flt s with | .ok _ => none | .error e => some e
  | .clean u => match cleanL F enc u flt s with | .ok _ => none | .error e => some e

end Replicat.Repo
