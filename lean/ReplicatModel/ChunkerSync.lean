import ReplicatModel.Chunker
/-!
# Chunker model, part 2: boundaries of related streams (property C11)

Extends `Chunker.lean` (nothing there is changed):

* `greedyFull` — `greedy` with a fuel that is always sufficient (`Lemmas/ChunkerLocal.lean: greedy_fuel`);
* `boundaries`, `firstCommon`, `syncObs` — the observable C11 speaks about: the first boundary two chunkings of
  streams `P₁ ++ X`, `P₂ ++ X` have in common (as an offset of `X`) and the chunk lengths after it;
* `padStream` / `padPieces` / `fileStarts` — `Repository.snapshot._stream_files` (replicat/repository.py): files are
  concatenated in order, and *when the next file starts* the previous one is padded with
  `Gen.padding len Gen.align` zero bytes (`-(len) % alignment`, translated from the source); nothing after the last.
* `splitEvery` / `resplit` / `adapterPieces` — input blocks and size thresholds: what reaches the adapter's buffer when blocks
  longer than a threshold are cut into pieces first; `Gen.adapterBlockThresholds` (extracted) lists the thresholds of the code
  that exists.  `feedBlockFinal` is the loop shape this excludes (piecewise feeding with the *block's* finality), kept only for
  the negation witness in `Properties/C11.lean`.
-/
namespace Replicat

/-- `greedy` with sufficient fuel: every productive cut removes ≥ 1 byte -/
def greedyFull (p : CParams) (h : Hash) (s : Bytes) : Option (List Bytes) := greedy p h (s.length + 1) s

namespace Sync

/-- end offsets of the chunks (cumulative lengths), starting after `start` -/
def boundariesFrom : Nat → List Nat → List Nat
  | _, [] => []
  | start, l :: ls => (start + l) :: boundariesFrom (start + l) ls

/-- all boundaries of a chunking given by its chunk lengths, including the start `0` -/
def boundaries (lens : List Nat) : List Nat := 0 :: boundariesFrom 0 lens

/-- first element common to two ascending lists after subtracting the respective prefix length
(`a - pa = b - pb`, only boundaries at or after the prefix count).  Merge walk, fuel = total length. -/
def firstCommonAux (pa pb : Nat) : Nat → List Nat → List Nat → Option Nat
  | 0, _, _ => none
  | _, [], _ => none
  | _, _, [] => none
  | fuel + 1, a :: as, b :: bs =>
    if a < pa then firstCommonAux pa pb fuel as (b :: bs)
    else if b < pb then firstCommonAux pa pb fuel (a :: as) bs
    else if a - pa = b - pb then some (a - pa)
    else if a - pa < b - pb then firstCommonAux pa pb fuel as (b :: bs)
    else firstCommonAux pa pb fuel (a :: as) bs

def firstCommon (pa pb : Nat) (as bs : List Nat) : Option Nat :=
  firstCommonAux pa pb (as.length + bs.length + 1) as bs

/-- chunk lengths of the chunks that start at or after absolute offset `from` -/
def lensFrom (from_ : Nat) : Nat → List Nat → List Nat
  | _, [] => []
  | start, l :: ls => if from_ ≤ start then l :: ls else lensFrom from_ (start + l) ls

structure Obs where
  /-- chunk lengths of both runs (`none` = a window load left the buffer) -/
  lensA : Option (List Nat)
  lensB : Option (List Nat)
  /-- first common boundary, as an offset of the shared suffix `X` -/
  common : Option Nat
  /-- chunk lengths from the common boundary on -/
  afterA : List Nat
  afterB : List Nat
  /-- lengths of the segmentation-independent greedy chunking of `X.drop common` -/
  greedyX : Option (List Nat)

/-- the C11 observable of two piece lists whose streams are `P₁ ++ X` and `P₂ ++ X` with `|P₁| = pa`, `|P₂| = pb` -/
def syncObs (p : CParams) (h : Hash) (piecesA piecesB : List Bytes) (pa pb : Nat) : Obs :=
  let ca := (chunkAll p h piecesA).map (·.map List.length)
  let cb := (chunkAll p h piecesB).map (·.map List.length)
  match ca, cb with
  | some la, some lb =>
    let c := firstCommon pa pb (boundaries la) (boundaries lb)
    match c with
    | some o =>
      let x := (piecesA.flatten).drop (pa + o)
      { lensA := ca, lensB := cb, common := c, afterA := lensFrom (pa + o) 0 la, afterB := lensFrom (pb + o) 0 lb,
        greedyX := (greedyFull p h x).map (·.map List.length) }
    | none => { lensA := ca, lensB := cb, common := none, afterA := [], afterB := [], greedyX := none }
  | _, _ => { lensA := ca, lensB := cb, common := none, afterA := [], afterB := [], greedyX := none }

/-! ### the snapshot stream (`_stream_files`) -/

/-- zero padding produced for a file of length `len` when the next file starts -/
def padOf (len : Nat) : Bytes := List.replicate (Gen.padding len Gen.align) 0

/-- the pieces `_stream_files` yields for files with the given contents (read in one piece each; an empty
file yields nothing, a zero-length padding is not yielded) -/
def padPieces : List Bytes → List Bytes
  | [] => []
  | [f] => if f = [] then [] else [f]
  | f :: g :: rest =>
    (if f = [] then [] else [f]) ++ (if padOf f.length = [] then [] else [padOf f.length]) ++ padPieces (g :: rest)

/-- the byte stream the chunker sees -/
def padStream : List Bytes → Bytes
  | [] => []
  | [f] => f
  | f :: g :: rest => f ++ padOf f.length ++ padStream (g :: rest)

/-- what precedes a file in the stream when the files `pre` come before it -/
def padPrefix : List Bytes → Bytes
  | [] => []
  | f :: rest => f ++ padOf f.length ++ padPrefix rest

/-- `stream_start` of every file -/
def fileStarts : Nat → List Bytes → List Nat
  | _, [] => []
  | off, f :: rest => off :: fileStarts (off + f.length + (padOf f.length).length) rest

/-! ### input blocks and size thresholds -/

/-- `block[start : start + t] for start in range(0, len(block), t)` for a block longer than `t`, the block itself otherwise
(`t = 0`: never cut).  Fuel = the block length (every step removes `t ≥ 1` bytes). -/
def splitEvery (t : Nat) : Nat → Bytes → List Bytes
  | 0, b => [b]
  | fuel + 1, b => if t = 0 ∨ b.length ≤ t then [b] else b.take t :: splitEvery t fuel (b.drop t)

/-- every block longer than `t` cut into pieces of `t` bytes -/
def resplit (t : Nat) (blocks : List Bytes) : List Bytes := blocks.flatMap (fun b => splitEvery t b.length b)

/-- what reaches the adapter's buffer, piece by piece, when the caller hands over `blocks`: one re-splitting per size threshold
the extractor finds in `gclmulchunker.__call__` (`Gen.adapterBlockThresholds`; none in the code this model mirrors, so `feed`
takes the blocks as they come — `C11.adapter_takes_blocks_whole`) -/
def adapterPieces (blocks : List Bytes) : List Bytes :=
  Gen.adapterBlockThresholds.foldl (fun ps t => resplit t ps) blocks

/-- NOT the adapter — the loop shape excluded by `Gen.adapterBlockThresholds = []` and `Gen.adapterFinalIsLookaheadNone`:
a block is appended to the buffer in pieces and `next_cut` runs after every piece with one and the same finality flag. -/
def drainPieces (p : CParams) (h : Hash) (final : Bool) : Bytes → List Bytes → Option (List Bytes × Bytes)
  | buf, [] => some ([], buf)
  | buf, pc :: pcs =>
    match drain p h final (drainFuel (buf ++ pc)) (buf ++ pc) with
    | none => none
    | some (cs, rest) =>
      match drainPieces p h final rest pcs with
      | none => none
      | some (cs', rest') => some (cs ++ cs', rest')

/-- NOT the adapter: blocks longer than `t` are fed in pieces of `t` bytes, every piece with the finality of its *block*
("there is no further block") instead of "there is no further piece" -/
def feedBlockFinal (p : CParams) (h : Hash) (t : Nat) : Bytes → List Bytes → Option (List Bytes)
  | _, [] => some []
  | buf, [blk] => (drainPieces p h true buf (splitEvery t blk.length blk)).map (·.1)
  | buf, blk :: q :: ps =>
    match drainPieces p h false buf (splitEvery t blk.length blk) with
    | none => none
    | some (cs, rest) =>
      match feedBlockFinal p h t rest (q :: ps) with
      | none => none
      | some cs' => some (cs ++ cs')

/-! ### cut positions computed in the adapter loop itself (low-entropy fast paths)

`gclmulchunker.__call__` takes every cut position from `next_cut(buffer, final)` — a function of the CURRENT buffer.  A loop that
also computes positions in Python from what it emitted earlier ("the run of identical data goes on: same data, same cut") makes
a cut depend on the history before the boundary.  `PyRule` is such a rule: consulted before `next_cut`, it sees the chunk
emitted last, the buffer and the finality; `none` = "ask `next_cut`".  `chunkAllH` is the adapter loop with a rule;
`adapterRule` is the rule of the code that exists, read from the extracted facts `Gen.adapterCutsNotFromNextCut` /
`Gen.adapterNextCutOnCurrentBuffer` (tools/sections/11_cutsource.py): no rule iff every value that reaches a slice bound of the
buffer is the result of `next_cut` on that buffer.  `repeatForced` is NOT the adapter: the fast path excluded by those facts,
kept for the negation witness in `Properties/C11.lean`. -/

/-- a cut rule evaluated in the Python loop before `next_cut`: previous chunk (if any), buffer, finality ↦ cut (`none` = no opinion) -/
abbrev PyRule := Option Bytes → Bytes → Bool → Option Nat

def noPyRule : PyRule := fun _ _ _ => none

/-- the cut position the loop uses -/
def cutWith (p : CParams) (h : Hash) (rule : PyRule) (prev : Option Bytes) (buf : Bytes) (final : Bool) : Option Nat :=
  match rule prev buf final with
  | some pos => some pos
  | none => nextCut p h buf final

/-- the chunk emitted last after a drain that produced `cs` -/
def lastChunk (prev : Option Bytes) (cs : List Bytes) : Option Bytes :=
  match cs.getLast? with
  | some c => some c
  | none => prev

/-- `drain` with a rule that sees the previously emitted chunk -/
def drainH (p : CParams) (h : Hash) (rule : PyRule) (final : Bool) : Nat → Option Bytes → Bytes → Option (List Bytes × Bytes)
  | 0, _, buf => some ([], buf)
  | fuel + 1, prev, buf =>
    match cutWith p h rule prev buf final with
    | none => none
    | some pos =>
      if pos = 0 then some ([], buf)
      else
        match drainH p h rule final fuel (some (buf.take pos)) (buf.drop pos) with
        | none => none
        | some (cs, rest) => some (buf.take pos :: cs, rest)

/-- `feed` with a rule; the memory of the last chunk survives from one input block to the next -/
def feedH (p : CParams) (h : Hash) (rule : PyRule) : Option Bytes → Bytes → List Bytes → Option (List Bytes)
  | _, _, [] => some []
  | prev, buf, [pc] =>
    (drainH p h rule true (drainFuel (buf ++ pc)) prev (buf ++ pc)).map (·.1)
  | prev, buf, pc :: q :: ps =>
    match drainH p h rule false (drainFuel (buf ++ pc)) prev (buf ++ pc) with
    | none => none
    | some (cs, rest) =>
      match feedH p h rule (lastChunk prev cs) rest (q :: ps) with
      | none => none
      | some cs' => some (cs ++ cs')

/-- the adapter loop with a Python-side cut rule -/
def chunkAllH (p : CParams) (h : Hash) (rule : PyRule) (pieces : List Bytes) : Option (List Bytes) :=
  feedH p h rule none [] pieces

/-- the Python-side cut rule of the code that exists: none, iff the extractor finds that every value reaching a slice bound of
the buffer is `next_cut(<that buffer>, …)`; otherwise an arbitrary (unknown) rule -/
def adapterRule (unknown : PyRule) : PyRule :=
  if Gen.adapterCutsNotFromNextCut.isEmpty && Gen.adapterNextCutOnCurrentBuffer then noPyRule else unknown

/-- NOT the adapter — the "run of identical data" fast path: when the chunk emitted last was a forced cut (`ceil4 min` bytes),
the buffer is large enough to be scanned and starts with the very same bytes again, cut at the forced length again without
asking `next_cut` -/
def repeatForced (p : CParams) : PyRule := fun prev buf final =>
  match prev with
  | none => none
  | some c =>
    if c.length = ceil4 p.min ∧ (if final then 2 * p.max else ceil4 p.max) ≤ buf.length ∧ c.isPrefixOf buf then some (ceil4 p.min)
    else none

end Sync
end Replicat
