import ReplicatModel.Sym
/-!
# Sessions of ONE long-lived `Repository` object  (C04)

`Sym.restore` is one command of a fresh client.  A client object that lives on (a service, a GUI, a script that restores several
times) carries state from command to command; the adversary damages, heals and damages the stored objects BETWEEN its commands
(each command meets its own object map).  What the object could consult when it checks a chunk is what it has accepted before:
`Client.verified`.

`verifyChunkC dom cl` is `_download_chunk` as performed by such an object.  `dom` says whether the digest comparison dominates
the hand-over to the writers in the source (`Gen.chunkDigestCheckDominates`, tools/sections/15_c04_session.py): if it does, the
state cannot matter; if it does not, the model takes the reading under which the state bypasses the comparison (for a digest
the object has accepted before it goes straight from decryption to the writers).  `session` instantiates `dom` with the
generated flag; the theorems of Properties/C04.lean are about `session`.
-/
namespace Replicat.Sym

/-- what a `Repository` object remembers of its earlier commands, as far as the chunk check is concerned -/
structure Client where
  verified : List Term      -- digests whose object passed `_download_chunk` in an earlier command
  deriving DecidableEq, Repr, Inhabited

/-- a new object (a new CLI process) -/
def Client.fresh : Client := ⟨[]⟩

/-- `_download_chunk` after the download, performed by client `cl` -/
def verifyChunkC (dom : Bool) (cl : Client) (p : Props) (d obj : Term) : Except Err Term :=
  if dom || !cl.verified.contains d then verifyChunk p d obj else verifyChunkNoDigest p d obj

def fetchChunkC (dom : Bool) (cl : Client) (p : Props) (s : Store) (d : Term) : Except Err Term :=
  match lookup s (chunkLoc p d) with
  | none => .error .missing
  | some obj => verifyChunkC dom cl p d obj

/-- `restore(snapshot_regex = <name>)` issued by client `cl` on the object map `s` -/
def restoreC (dom : Bool) (cl : Client) (p : Props) (s : Store) (target : Term) : Except Err (List (Term × List Part)) :=
  match loadAll p target (snapEntries s) with
  | .error e => .error e
  | .ok bodies => restoreFiles (fetchChunkC dom cl p s) (selectFiles (isort newestFirst bodies) [])

/-- the client after that command: every digest of the loaded tables whose object it accepted (a superset of what a command
that aborted half-way had accepted before it stopped — loaders run concurrently) -/
def learn (dom : Bool) (cl : Client) (p : Props) (s : Store) (target : Term) : Client :=
  match loadAll p target (snapEntries s) with
  | .error _ => cl
  | .ok bodies =>
    ⟨cl.verified ++ (bodies.flatMap (·.1)).filter fun d =>
      match fetchChunkC dom cl p s d with
      | .ok _ => true
      | .error _ => false⟩

/-- one command of a session, with the object map the repository holds when it is issued -/
inductive Cmd where
  | restore (s : Store) (target : Term)
  | list (s : Store) (target : Term)        -- `list-files` / `list-snapshots`: loads the selected snapshot objects, no chunk
  deriving Repr, Inhabited

abbrev Outcome := Except Err (List (Term × List Part))

/-- listing: only the loading of the selected snapshot objects can fail -/
def listC (p : Props) (s : Store) (target : Term) : Outcome :=
  match loadAll p target (snapEntries s) with
  | .error e => .error e
  | .ok _ => .ok []

/-- state of the object after a list of commands -/
def clientAfter (dom : Bool) (p : Props) : Client → List Cmd → Client
  | cl, [] => cl
  | cl, .restore s t :: rest => clientAfter dom p (learn dom cl p s t) rest
  | cl, .list _ _ :: rest => clientAfter dom p cl rest

/-- outcomes of a list of commands issued one after the other through ONE object -/
def runSession (dom : Bool) (p : Props) : Client → List Cmd → List Outcome
  | _, [] => []
  | cl, .restore s t :: rest => restoreC dom cl p s t :: runSession dom p (learn dom cl p s t) rest
  | cl, .list s t :: rest => listC p s t :: runSession dom p cl rest

/-- what the same commands give when each is issued by a fresh object (one CLI process per command) -/
def runFresh (p : Props) : List Cmd → List Outcome
  | [] => []
  | .restore s t :: rest => restore p s t :: runFresh p rest
  | .list s t :: rest => listC p s t :: runFresh p rest

/-- the session of the code as it is: the generated flag decides whether the object's state can reach the check -/
def session (p : Props) (cl : Client) (cmds : List Cmd) : List Outcome := runSession Gen.chunkDigestCheckDominates p cl cmds

end Replicat.Sym
