import ReplicatModel.Basic
import ReplicatModel.Generated
/-!
# Model of the bandwidth limiter (`replicat/utils/__init__.py`: `RateLimitedIO`, `_RateLimitedFileWrapper`)

Exact rational arithmetic (`Rat`).  The model mirrors the code that exists:

* `owed`   = `max(expected_elapsed - real_elapsed, 0)` with `expected_elapsed = bytes / limit`
  (`_RateLimitedFileWrapper.read` / `.write`),
* `pause`  = `RateLimitedIO.pause_reads` / `pause_writes`: add to the amortised debt, cap at
  `Gen.pauseLimit`, return when `≤ Gen.pauseThreshold`, otherwise `time.sleep(debt)` **while holding the
  lock** and subtract the time that was really slept (`debt + ov`, `ov` = how much `time.sleep` overslept),
* `step`   = one call through the wrapper by stream (thread) `i`: the underlying I/O takes `lat`
  seconds of that thread's time (`real_elapsed`), then the pause section is entered when the lock is free.
  Events are given in the order in which the pause sections are executed (the lock serialises them);
  `clk i` is the time at which thread `i` is ready to issue its next call.  Any delay of a thread that
  the operating system may add is an `idle` event.
* two directions (`read`/`write`) have separate debt, lock and limit but share the threads' clocks.
* the wrapper delegates every file operation to the underlying stream (`wrapStep`); `seek`/`tell`/
  `truncate` do not touch the limiter.

Constants come from `Replicat.Gen` (regenerated from the source on every run).
-/
namespace Replicat.RateLimit

/-- `max(bytes / limit - real_elapsed, 0)` -/
def owed (L : Rat) (bytes : Nat) (elapsed : Rat) : Rat := max ((bytes : Rat) / L - elapsed) 0

/-- result of one `pause_reads` / `pause_writes` call -/
structure Pause where
  /-- amortised debt when the call returns -/
  debt : Rat
  /-- real duration of `time.sleep` (0 when it is not called) -/
  slept : Rat
  /-- debt removed by the `PAUSE_LIMIT` cap -/
  forgiven : Rat
deriving Repr

/-- `pause_reads(seconds)`; `ov` = oversleep of `time.sleep` should it be called -/
def pause (debt seconds ov : Rat) : Pause :=
  let d1 := debt + seconds
  let d2 := if d1 > Gen.pauseLimit then Gen.pauseLimit else d1
  if d2 ≤ Gen.pauseThreshold then ⟨d2, 0, d1 - d2⟩
  else ⟨d2 - (d2 + ov), d2 + ov, d1 - d2⟩

/-- one event of a history, in lock order -/
inductive Ev where
  /-- thread `stream` moves `bytes` through the wrapper; the underlying call takes `lat` seconds -/
  | io (stream bytes : Nat) (lat ov : Rat)
  /-- thread `stream` does something else for `dt` seconds -/
  | idle (stream : Nat) (dt : Rat)
deriving Repr

/-- limiter state of one direction + the threads' clocks -/
structure St where
  debt : Rat
  /-- time at which the lock was last released -/
  lockFree : Rat
  clk : Nat → Rat

def St.init (t0 : Rat) : St := ⟨0, t0, fun _ => t0⟩

def upd (f : Nat → Rat) (i : Nat) (v : Rat) : Nat → Rat := fun j => if j = i then v else f j

/-- what can be observed of one call -/
structure Obs where
  stream : Nat
  bytes : Nat
  lat : Rat
  /-- the underlying call returned (the bytes crossed the underlying stream) -/
  tPre : Rat
  /-- the pause section was entered -/
  tAcq : Rat
  /-- the wrapper call returned -/
  tRel : Rat
  slept : Rat
  /-- debt when the call returned -/
  debt : Rat
  forgiven : Rat
deriving Repr

def step (L : Rat) (s : St) : Ev → St × Option Obs
  | .idle i dt => ({ s with clk := upd s.clk i (s.clk i + dt) }, none)
  | .io i b lat ov =>
    let tPre := s.clk i + lat
    let tAcq := max tPre s.lockFree
    let p := pause s.debt (owed L b lat) ov
    let tRel := tAcq + p.slept
    (⟨p.debt, tRel, upd s.clk i tRel⟩, some ⟨i, b, lat, tPre, tAcq, tRel, p.slept, p.debt, p.forgiven⟩)

def run (L : Rat) (s : St) : List Ev → St × List Obs
  | [] => (s, [])
  | e :: es =>
    let r := step L s e
    let q := run L r.1 es
    (q.1, r.2.toList ++ q.2)

/-- the commands' transfer chunk size: `max(rate_limit // (concurrent * 16), 1)` -/
def chunkSize (rateLimit concurrent : Nat) : Nat := max (rateLimit / (concurrent * Gen.rateDivisor)) 1

/-! ## errors Python raises -/
inductive Err where
  /-- `bytes / 0` -/
  | zeroDivision
deriving Repr, DecidableEq

/-- a limit of 0 makes the first call through the wrapper raise `ZeroDivisionError` (before any state changes) -/
def runChecked (L : Rat) (s : St) (evs : List Ev) : Except Err (St × List Obs) :=
  if L = 0 ∧ evs.any (fun e => match e with | .io .. => true | .idle .. => false) then .error .zeroDivision
  else .ok (run L s evs)

/-! ## sums over traces, windows -/
def sumBytes (l : List Obs) : Rat := (l.map (fun o => (o.bytes : Rat))).sum
def sumLat (l : List Obs) : Rat := (l.map (·.lat)).sum
def sumSlept (l : List Obs) : Rat := (l.map (·.slept)).sum

/-- payload bytes whose time stamp `τ` lies in the closed window `[a, b]` -/
def winBytes (τ : Obs → Rat) (a b : Rat) (l : List Obs) : Rat :=
  sumBytes (l.filter (fun o => decide (a ≤ τ o) && decide (τ o ≤ b)))

/-- burst allowance of the window bound for time stamps taken when the call returns -/
def burst (L eps : Rat) (dmax : Nat) : Rat := L * (Gen.pauseThreshold + eps) + dmax
/-- burst allowance for time stamps taken when the bytes cross the underlying stream (one stream) -/
def burstPre (L eps : Rat) (dmax : Nat) : Rat := L * (Gen.pauseThreshold + eps) + 2 * dmax

/-! ## the round-robin history of defect candidate D16 (witness of `C20.multi_stream_counterexample`) -/
/-- threads `i, i+1, …, i+n-1` each move `d` bytes, the underlying call taking `lat` -/
def roundFrom (d : Nat) (lat : Rat) : Nat → Nat → List Ev
  | _, 0 => []
  | i, n + 1 => Ev.io i d lat 0 :: roundFrom d lat (i + 1) n

/-- `k` rounds of `N` threads -/
def rounds (N d : Nat) (lat : Rat) : Nat → List Ev
  | 0 => []
  | k + 1 => roundFrom d lat 0 N ++ rounds N d lat k

/-! ## two directions -/
inductive Dir where
  | read | write
deriving Repr, DecidableEq

structure Dbt where
  debt : Rat
  lockFree : Rat

structure St2 where
  rd : Dbt
  wr : Dbt
  clk : Nat → Rat

def St2.init (t0 : Rat) : St2 := ⟨⟨0, t0⟩, ⟨0, t0⟩, fun _ => t0⟩

def St2.view (s : St2) : Dir → St
  | .read => ⟨s.rd.debt, s.rd.lockFree, s.clk⟩
  | .write => ⟨s.wr.debt, s.wr.lockFree, s.clk⟩

def St2.put (s : St2) (d : Dir) (t : St) : St2 :=
  match d with
  | .read => ⟨⟨t.debt, t.lockFree⟩, s.wr, t.clk⟩
  | .write => ⟨s.rd, ⟨t.debt, t.lockFree⟩, t.clk⟩

inductive Ev2 where
  | io (dir : Dir) (stream bytes : Nat) (lat ov : Rat)
  | idle (stream : Nat) (dt : Rat)
deriving Repr

def limitOf (Lr Lw : Rat) : Dir → Rat
  | .read => Lr
  | .write => Lw

def step2 (Lr Lw : Rat) (s : St2) : Ev2 → St2 × Option (Dir × Obs)
  | .io d i b lat ov =>
    let r := step (limitOf Lr Lw d) (s.view d) (.io i b lat ov)
    (s.put d r.1, r.2.map (fun o => (d, o)))
  | .idle i dt => ({ s with clk := upd s.clk i (s.clk i + dt) }, none)

def run2 (Lr Lw : Rat) (s : St2) : List Ev2 → St2 × List (Dir × Obs)
  | [] => (s, [])
  | e :: es =>
    let r := step2 Lr Lw s e
    let q := run2 Lr Lw r.1 es
    (q.1, r.2.toList ++ q.2)

def obsOf (d : Dir) (l : List (Dir × Obs)) : List Obs := (l.filter (fun p => p.1 = d)).map (·.2)

/-- the history as direction `d` sees it: calls of the other direction are idle time of that thread -/
def proj (Lr Lw : Rat) (d : Dir) (s : St2) : List Ev2 → List Ev
  | [] => []
  | e :: es =>
    let s' := (step2 Lr Lw s e).1
    (match e with
      | .io d' i b lat ov => if d' = d then Ev.io i b lat ov else Ev.idle i (s'.clk i - s.clk i)
      | .idle i dt => Ev.idle i dt) :: proj Lr Lw d s' es

/-! ## the wrapper: every file operation is delegated -/
inductive FOp where
  /-- `read(size)`; `none` = `-1`/`None` -/
  | read (size : Option Nat)
  | write (data : Bytes)
  | seek (off : Int) (whence : Nat)
  | tell
  /-- `truncate(size)`; `none` = current position -/
  | truncate (size : Option Nat)
deriving Repr

inductive FRes where
  | data (b : Bytes)
  | num (n : Nat)
  /-- the underlying stream raised -/
  | err (kind : String)
deriving Repr, DecidableEq

/-- `_RateLimitedFileWrapper.<op>` over an arbitrary underlying stream `u`; thread `i`, the underlying call
takes `lat`.  Returns (underlying state, result, limiter state, observation). -/
def wrapStep {F : Type} (u : F → FOp → F × FRes) (Lr Lw : Rat) (i : Nat) (f : F) (s : St2) (op : FOp) (lat ov : Rat) :
    F × FRes × St2 × Option (Dir × Obs) :=
  let r := u f op
  match op, r.2 with
  | .read _, .data b => let q := step2 Lr Lw s (.io .read i b.length lat ov); (r.1, r.2, q.1, q.2)
  | .write _, .num n => let q := step2 Lr Lw s (.io .write i n lat ov); (r.1, r.2, q.1, q.2)
  | _, _ => (r.1, r.2, s, none)

def wrapRun {F : Type} (u : F → FOp → F × FRes) (Lr Lw : Rat) (i : Nat) (f : F) (s : St2) :
    List (FOp × Rat × Rat) → F × List FRes × St2 × List (Dir × Obs)
  | [] => (f, [], s, [])
  | (op, lat, ov) :: rest =>
    let r := wrapStep u Lr Lw i f s op lat ov
    let q := wrapRun u Lr Lw i r.1 r.2.2.1 rest
    (q.1, r.2.1 :: q.2.1, q.2.2.1, r.2.2.2.toList ++ q.2.2.2)

def plainRun {F : Type} (u : F → FOp → F × FRes) (f : F) : List FOp → F × List FRes
  | [] => (f, [])
  | op :: rest =>
    let r := u f op
    let q := plainRun u r.1 rest
    (q.1, r.2 :: q.2)

/-- an in-memory file with `io.BytesIO` semantics (used by the driver as the underlying stream) -/
structure MemFile where
  data : Bytes
  pos : Nat
deriving Repr, DecidableEq

def MemFile.apply (f : MemFile) : FOp → MemFile × FRes
  | .read size =>
    let avail := f.data.drop f.pos
    let out := match size with
      | none => avail
      | some n => avail.take n
    (⟨f.data, f.pos + out.length⟩, .data out)
  | .write d =>
    if d.length = 0 then (f, .num 0)
    else
      let padded := if f.pos > f.data.length then f.data ++ List.replicate (f.pos - f.data.length) 0 else f.data
      (⟨padded.take f.pos ++ d ++ padded.drop (f.pos + d.length), f.pos + d.length⟩, .num d.length)
  | .seek off whence =>
    match whence with
    | 0 => if off < 0 then (f, .err "ValueError") else (⟨f.data, off.toNat⟩, .num off.toNat)
    | 1 => let p := ((f.pos : Int) + off).toNat; (⟨f.data, p⟩, .num p)
    | 2 => let p := ((f.data.length : Int) + off).toNat; (⟨f.data, p⟩, .num p)
    | _ => (f, .err "ValueError")
  | .tell => (f, .num f.pos)
  | .truncate size =>
    let n := match size with
      | none => f.pos
      | some n => n
    (⟨f.data.take n, f.pos⟩, .num n)

end Replicat.RateLimit
