import ReplicatModel.Generated
/-!
# The connection-slot queue at the level of `asyncio.Queue`'s own steps (C09: thread affinity)

`Repository.__init__` fills an `asyncio.PriorityQueue` with `concurrent` slot numbers.  Coroutines on the event loop take a slot with
`await q.get()` and give it back with `q.put_nowait(slot)`; the loader threads of `restore` (and the thread-side wrappers of every
backend call) take one with `run_coroutine_threadsafe(q.get(), loop).result()` and give it back with
`loop.call_soon_threadsafe(q.put_nowait, slot)`.  An `asyncio.Queue` is NOT thread-safe, and neither is the `Future` it parks a getter
on: the code is correct only because every step of the queue runs ON THE LOOP THREAD.  `Sched.lean`'s `Slots` / `Lat` / `Life` systems
treat "request", "grant" and "release" as atomic events — this file justifies that, and shows what happens otherwise.

CPython (`asyncio/queues.py`, the same in 3.8 … 3.13):

```
async def get(self):                       def put_nowait(self, item):
    while self.empty():            -- test      self._put(item)                       -- putItem
        getter = loop.create_future()           self._wakeup_next(self._getters)      -- putWake: first waiter's `set_result(None)`,
        self._getters.append(getter) -- park                                             which schedules its continuation with
        await getter                                                                     `loop.call_soon` (no selector wake-up)
    return self.get_nowait()
```

On the loop thread `test`+`park` and `putItem`+`putWake` are each one uninterrupted callback.  A `put_nowait` executed by ANOTHER thread
can run between a getter's `test` and its `park` (the item is in the queue, nobody is registered to be woken → the getter sleeps on a
non-empty queue), and its `set_result` appends the continuation to the ready list of a loop that may be blocked in `select()` without a
timeout (the continuation never runs).  Only `call_soon_threadsafe` / `run_coroutine_threadsafe` write to the loop's self-pipe.

State in counts (identity of getters is irrelevant for the lost-wake-up question; FIFO order of waiters is the library's business):
-/

namespace Replicat.SlotQ

structure Q where
  items    : Nat      -- slots in the queue
  held     : Nat      -- slots taken and not yet given back
  fresh    : Nat      -- `get()` coroutines scheduled on the loop that have not run their first test yet
  sawEmpty : Nat      -- getters between `while self.empty()` (true) and `_getters.append` — empty on the loop thread between callbacks
  parked   : Nat      -- registered waiters whose future is not done
  ready    : Nat      -- woken getters whose continuation is in the loop's ready list
  asleep   : Bool     -- the loop is blocked in `select()` with no timeout
deriving Repr, DecidableEq

/-- micro-steps -/
inductive Ev
  | request            -- `run_coroutine_threadsafe(q.get(), loop)` (or a coroutine calling `q.get()`): a new getter; wakes the selector
  | testFresh          -- first `while self.empty()` of a getter; takes the slot when there is one
  | testWoken          -- the same test by a woken getter (its continuation runs: needs a loop that is not asleep)
  | park               -- `_getters.append(getter); await getter`
  | putItem            -- `_put(item)` of a give-back
  | putWake (ts : Bool) -- `_wakeup_next`; `ts` = the give-back arrived through `call_soon_threadsafe` (wrote to the self-pipe)
  | sleep              -- nothing is ready: the loop blocks in `select()`
deriving Repr, DecidableEq

def step (σ : Q) : Ev → Option Q
  | .request => some { σ with fresh := σ.fresh + 1, asleep := false }
  | .testFresh =>
      if σ.fresh = 0 ∨ σ.asleep then none
      else if σ.items = 0 then some { σ with fresh := σ.fresh - 1, sawEmpty := σ.sawEmpty + 1 }
      else some { σ with fresh := σ.fresh - 1, items := σ.items - 1, held := σ.held + 1 }
  | .testWoken =>
      if σ.ready = 0 ∨ σ.asleep then none
      else if σ.items = 0 then some { σ with ready := σ.ready - 1, sawEmpty := σ.sawEmpty + 1 }
      else some { σ with ready := σ.ready - 1, items := σ.items - 1, held := σ.held + 1 }
  | .park => if σ.sawEmpty = 0 then none else some { σ with sawEmpty := σ.sawEmpty - 1, parked := σ.parked + 1 }
  | .putItem => if σ.held = 0 then none else some { σ with held := σ.held - 1, items := σ.items + 1 }
  | .putWake ts =>
      let σ' := if σ.parked = 0 then σ else { σ with parked := σ.parked - 1, ready := σ.ready + 1 }
      some (if ts then { σ' with asleep := false } else σ')
  | .sleep => if σ.fresh = 0 ∧ σ.ready = 0 ∧ σ.sawEmpty = 0 then some { σ with asleep := true } else none

def run (σ : Q) : List Ev → Option Q
  | [] => some σ
  | e :: es => match step σ e with
    | none => none
    | some σ' => run σ' es

def init (n : Nat) : Q := ⟨n, 0, 0, 0, 0, 0, false⟩

/-- What one loop callback / one thread-side action does, as the list of micro-steps it consists of.
`onLoop` (`Gen.slotQueueOnLoopOnly`): every use of the queue by a thread goes through `call_soon_threadsafe` /
`run_coroutine_threadsafe`, so a give-back is ONE loop callback that arrived through the self-pipe. -/
inductive Act
  | request      -- a thread (or coroutine) asks for a slot
  | runFresh     -- the loop runs a new getter up to its first suspension (or to the end)
  | runWoken     -- the loop runs a woken getter up to its next suspension (or to the end)
  | giveBack     -- a holder returns its slot
  | idle         -- the loop has nothing to do
deriving Repr, DecidableEq

/-- the micro-steps of an action when everything happens on the loop thread: test+park and putItem+putWake are atomic -/
def expand (σ : Q) : Act → List Ev
  | .request  => [.request]
  | .runFresh => if σ.items = 0 then [.testFresh, .park] else [.testFresh]
  | .runWoken => if σ.items = 0 then [.testWoken, .park] else [.testWoken]
  | .giveBack => [.putItem, .putWake true]
  | .idle     => [.sleep]

def astep (σ : Q) (a : Act) : Option Q := run σ (expand σ a)

def arun (σ : Q) : List Act → Option Q
  | [] => some σ
  | a :: as => match astep σ a with
    | none => none
    | some σ' => arun σ' as

/-- a getter waits although nothing will ever happen: somebody is parked or woken-but-not-run, no slot is held (nobody will give one
back), no request is on its way, and no woken getter can run (none is ready, or the loop sleeps in `select()`) -/
def lostWakeup (σ : Q) : Bool :=
  (σ.parked + σ.ready > 0) && σ.held == 0 && σ.fresh == 0 && σ.sawEmpty == 0 && (σ.ready == 0 || σ.asleep)

/-- the invariant of the on-loop discipline -/
def Inv (n : Nat) (σ : Q) : Prop :=
  σ.items + σ.held = n ∧ σ.sawEmpty = 0 ∧ (σ.parked > 0 → σ.items ≤ σ.ready) ∧ (σ.asleep = true → σ.ready = 0 ∧ σ.fresh = 0)

/-- The schedule of the lost wake-up with one slot (`--concurrent 1`, two loader threads): B's `get()` tests the queue (empty: A holds
the slot), A's thread executes `put_nowait` itself — item in, nobody registered — then B registers and waits for ever. -/
def foreignPutSchedule : List Ev :=
  [.request, .testFresh, .request, .testFresh, .putItem, .putWake false, .park]

/-- The second mechanism, without any unlucky timing: B is properly parked, the loop sleeps in `select()`; A's thread executes
`put_nowait` itself: B's future is resolved by `set_result` from a foreign thread, its continuation sits in the ready list of a loop
that nobody wakes. -/
def foreignWakeSchedule : List Ev :=
  [.request, .testFresh, .request, .testFresh, .park, .sleep, .putItem, .putWake false]

end Replicat.SlotQ
