import ReplicatModel.Repo
/-!
# Key files and key graphs  (C06 `unlock_iff`, C17 `addkey_unlocks_own_only`)

Mirrors `Repository._make_key / _instantiate_key / init / unlock / _add_key / add_key` of replicat/repository.py at the level of
symbolic terms (DESIGN.md §4 "ideal cryptography"):

* the user key is `kdf(kdf settings, password, salt)` — here the *term* `⟨cfg, password, salt⟩`, or, in the generic functions,
  the value of an arbitrary function `kdf : Nat → Nat → Nat → K` (the theorems then carry injectivity in the password as a
  hypothesis);
* the private section (shared key, shared-KDF salt, MAC key, chunker key = one key *family*) is stored as
  `enc userKey nonce private`; `dec k (enc k' _ m) = some m` iff `k' = k` (AEAD: authentication fails under any other key);
* `init` creates the first key (fresh salt, fresh family); `add-key` creates a key with a fresh salt and either a fresh family
  (independent) or the private section of the unlocked repository (`--shared`); a *clone* is the same key file used by a
  second client.

A key file whose private section is not encrypted (`isinstance(key['private'], bytes)` false) is accepted by `_instantiate_key`
with any password; `init`/`add-key` never write one (`built_keys_sealed` in C06), and such a hand-made file is outside the
property's quantifier.
-/
namespace Replicat.Access
open Replicat.Repo

/-- the private section of a key: one family of (shared key, shared-KDF salt, MAC key, chunker key) -/
structure Private where
  fam : Fam
deriving DecidableEq, Repr

/-- what is stored under `private` in a key file -/
inductive Sealed (K : Type)
  | enc (k : K) (nonce : Nat) (m : Private)      -- `props.encrypt(serialize(private), userkey)`
  | plain (m : Private)                          -- a hand-made key file (never produced by init / add-key)
deriving DecidableEq, Repr

structure KeyFile (K : Type) where
  cfg : Nat            -- `kdf`: name and cost parameters
  salt : Nat           -- `kdf_params`
  priv : Sealed K
deriving DecidableEq, Repr

/-- AEAD decryption: succeeds exactly under the key the term was made with -/
def dec {K : Type} [DecidableEq K] (k : K) : Sealed K → Option Private
  | .enc k' _ m => if k' = k then some m else none
  | .plain m => some m

/-- `_instantiate_key`: derive the user key from the password with the key file's KDF settings and salt, then decrypt the
private section with it (`DecryptionError` ⇒ `none`) -/
def unlock {K : Type} [DecidableEq K] (kdf : Nat → Nat → Nat → K) (kf : KeyFile K) (password : Nat) : Option (K × Private) :=
  (dec (kdf kf.cfg password kf.salt) kf.priv).map (fun m => (kdf kf.cfg password kf.salt, m))

inductive Kind
  | independent | shared | clone
deriving DecidableEq, Repr

/-- one `add-key` (or hand-over of a copy) issued by the holder of entry `base` -/
structure AddKey where
  base : Nat
  kind : Kind
  password : Nat
  cfg : Nat
deriving DecidableEq, Repr

/-- a key file together with the password it was made with and the id of the `add-key` that made it (clones share it) -/
structure Entry (K : Type) where
  file : KeyFile K
  password : Nat
  keyId : Nat
deriving DecidableEq, Repr

structure Graph (K : Type) where
  entries : List (Entry K)
  nextSalt : Nat
  nextFam : Nat
  nextNonce : Nat
deriving Repr

/-- `_make_key` + encryption of the private section (`init` / `_add_key`): fresh salt, fresh nonce -/
def makeKey {K : Type} (kdf : Nat → Nat → Nat → K) (g : Graph K) (password cfg : Nat) (m : Private) : Entry K :=
  ⟨⟨cfg, g.nextSalt, .enc (kdf cfg password g.nextSalt) g.nextNonce m⟩, password, g.nextSalt⟩

def init {K : Type} (kdf : Nat → Nat → Nat → K) (password cfg : Nat) : Graph K :=
  let g0 : Graph K := ⟨[], 1, 1, 1⟩
  ⟨[makeKey kdf g0 password cfg ⟨g0.nextFam⟩], 2, 2, 2⟩

def addKey {K : Type} [DecidableEq K] (kdf : Nat → Nat → Nat → K) (g : Graph K) (a : AddKey) : Graph K :=
  match g.entries[a.base]? with
  | none => g
  | some b =>
    match a.kind with
    | .clone => { g with entries := g.entries ++ [b] }
    | .independent =>
      { entries := g.entries ++ [makeKey kdf g a.password a.cfg ⟨g.nextFam⟩],
        nextSalt := g.nextSalt + 1, nextFam := g.nextFam + 1, nextNonce := g.nextNonce + 1 }
    | .shared =>
      -- "The repository must be unlocked": the base client unlocked with its own key file and password
      match unlock kdf b.file b.password with
      | none => g
      | some (_, m) =>
        { entries := g.entries ++ [makeKey kdf g a.password a.cfg m],
          nextSalt := g.nextSalt + 1, nextFam := g.nextFam, nextNonce := g.nextNonce + 1 }

def build {K : Type} [DecidableEq K] (kdf : Nat → Nat → Nat → K) (password cfg : Nat) (steps : List AddKey) : Graph K :=
  steps.foldl (addKey kdf) (init kdf password cfg)

/-- the symbolic user key: the KDF as a free constructor (injective in every argument) -/
structure SymKey where
  cfg : Nat
  password : Nat
  salt : Nat
deriving DecidableEq, Repr

def symKdf (cfg password salt : Nat) : SymKey := ⟨cfg, password, salt⟩

/-- the repository user (`Repo.User`) a successful unlock yields: the user key is identified by the salt of the key file
(fresh per `add-key`), the family by the private section -/
def userOf {K : Type} [DecidableEq K] (kdf : Nat → Nat → Nat → K) (e : Entry K) (password : Nat) : Option User :=
  (unlock kdf e.file password).map (fun r => ⟨e.keyId, r.2.fam⟩)

end Replicat.Access
