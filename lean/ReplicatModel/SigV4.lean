import ReplicatModel.Basic
import ReplicatModel.Generated
/-!
# Model of S3 request signing (replicat/backends/s3c.py) and of the published SigV4 verification

Three layers, all over `Bytes = List UInt8` (Python `str`s are represented by their UTF-8 encoding, which is
what `urllib.parse.quote` works on and what goes into every hash):

* **client** — what `S3Compatible._prepare_request` computes: `quote(canonical_uri, safe)`,
  `urlencode(sorted(query.items()), quote_via, safe)`, canonical headers / request, credential scope, string to
  sign, signing-key chain, signature, `Authorization` header.  Every argument, literal and join order is the
  *generated* value in `Replicat.Gen` (extracted from the source on every run by tools/sections/16_s3.py).
* **transport** — what httpx does with the URL and headers after signing (`httpxPath`: RFC 3986 dot-segment
  removal as in `httpx._urlparse.normalize_path`; `httpxHost`: lower-casing and default-port removal of the
  `Host` header httpx DERIVES from the URL; `wireHost`: an explicit `Host` header among the request's headers is
  kept verbatim — whether the adapter sets one, and to what, is generated: `hostHeaderExplicit`).  Library
  behaviour: modelled, validated by the differential runs, not verified.
* **reference** — the published algorithm evaluated on the wire (what a strict S3 endpoint does):
  percent-decode the request target, `awsUriEncode`, sort by encoded name, canonical headers from the headers
  received, same string-to-sign / key chain.

`sha` (hex digest), `hmac` and `hexOf` are parameters everywhere; concrete SHA-256 / HMAC live in `Sha256.lean`
and are used by the driver only.
-/
namespace Replicat.SigV4

/-! ## bytes -/
def isUpper (b : UInt8) : Bool := 0x41 ≤ b && b ≤ 0x5A
def isLower (b : UInt8) : Bool := 0x61 ≤ b && b ≤ 0x7A
def isDigit (b : UInt8) : Bool := 0x30 ≤ b && b ≤ 0x39

/-- RFC 3986 "unreserved": the bytes AWS's `UriEncode` leaves alone -/
def isUnreserved (b : UInt8) : Bool :=
  isUpper b || isLower b || isDigit b || b == 0x2D || b == 0x2E || b == 0x5F || b == 0x7E

def hexUpperDigit (n : UInt8) : UInt8 := if n < 10 then 0x30 + n else 0x37 + n

/-- `%XX` with upper-case hex digits -/
def pctEncode (b : UInt8) : Bytes := [0x25, hexUpperDigit (b / 16), hexUpperDigit (b % 16)]

def hexVal (c : UInt8) : Option UInt8 :=
  if isDigit c then some (c - 0x30)
  else if 0x41 ≤ c && c ≤ 0x46 then some (c - 0x37)
  else if 0x61 ≤ c && c ≤ 0x66 then some (c - 0x57)
  else none

def intercalate (sep : Bytes) : List Bytes → Bytes
  | [] => []
  | [x] => x
  | x :: y :: rest => x ++ sep ++ intercalate sep (y :: rest)

/-! ## the published rule -/

/-- AWS `UriEncode`, one byte -/
def awsEncByte (encodeSlash : Bool) (b : UInt8) : Bytes :=
  if isUnreserved b then [b]
  else if b == 0x2F && !encodeSlash then [b]
  else pctEncode b

/-- AWS `UriEncode(s, encodeSlash)` -/
def awsUriEncode (encodeSlash : Bool) (s : Bytes) : Bytes := s.flatMap (awsEncByte encodeSlash)

/-! ## Python's `urllib.parse` as called -/

/-- CPython `_ALWAYS_SAFE`: `A-Z a-z 0-9 _ . - ~` (written as the library writes it: an explicit table) -/
def pyAlwaysSafeTable : Bytes :=
  (List.range 26).map (fun i => UInt8.ofNat (0x41 + i)) ++ (List.range 26).map (fun i => UInt8.ofNat (0x61 + i))
    ++ (List.range 10).map (fun i => UInt8.ofNat (0x30 + i)) ++ [0x5F, 0x2E, 0x2D, 0x7E]

def pyQuoteByte (safe : Bytes) (b : UInt8) : Bytes :=
  if pyAlwaysSafeTable.contains b || safe.contains b then [b] else pctEncode b

/-- `quote(s, safe=safe)` on the UTF-8 bytes of `s` -/
def pyQuote (safe : Bytes) (s : Bytes) : Bytes := s.flatMap (pyQuoteByte safe)

/-- `quote_plus(s, safe)`: `quote(s, safe + ' ').replace(' ', '+')` when a space occurs, else `quote(s, safe)` -/
def pyQuotePlus (safe : Bytes) (s : Bytes) : Bytes :=
  if s.contains 0x20 then (pyQuote (safe ++ [0x20]) s).map (fun b => if b == 0x20 then 0x2B else b)
  else pyQuote safe s

/-- the `quote_via` function `urlencode` is called with (generated: default `quote_plus`) -/
def queryQuote (s : Bytes) : Bytes :=
  if Gen.s3QueryViaQuotePlus then pyQuotePlus Gen.s3QuerySafeB s else pyQuote Gen.s3QuerySafeB s

/-- lexicographic order on byte strings (= Python `str` order on the code points, UTF-8 preserves it) -/
def bytesLt : Bytes → Bytes → Bool
  | [], [] => false
  | [], _ :: _ => true
  | _ :: _, [] => false
  | a :: as, b :: bs => a < b || (a == b && bytesLt as bs)

def bytesLe (a b : Bytes) : Bool := !bytesLt b a

/-- order of `(key, value)` tuples -/
def pairLe (x y : Bytes × Bytes) : Bool := bytesLt x.1 y.1 || (x.1 == y.1 && bytesLe x.2 y.2)

def insertSorted (x : Bytes × Bytes) : List (Bytes × Bytes) → List (Bytes × Bytes)
  | [] => [x]
  | y :: ys => if pairLe x y then x :: y :: ys else y :: insertSorted x ys

/-- `sorted(items)` -/
def sortPairs : List (Bytes × Bytes) → List (Bytes × Bytes)
  | [] => []
  | x :: xs => insertSorted x (sortPairs xs)

def joinPairs (ps : List (Bytes × Bytes)) : Bytes :=
  intercalate [0x26] (ps.map fun p => p.1 ++ [0x3D] ++ p.2)

/-- the encoded `(name, value)` pieces of `urlencode(sorted(query.items()))` (sorted only if the code sorts) -/
def clientQueryPairs (q : List (Bytes × Bytes)) : List (Bytes × Bytes) :=
  (if Gen.s3QuerySortedB then sortPairs q else q).map fun p => (queryQuote p.1, queryQuote p.2)

/-- `query_string` of `_prepare_request` (`''` for an empty / missing dict) -/
def clientQueryString (q : List (Bytes × Bytes)) : Bytes := joinPairs (clientQueryPairs q)

/-- `encoded_canonical_uri = quote(canonical_uri)` -/
def clientPath (path : Bytes) : Bytes := pyQuote Gen.s3PathSafeB path

/-- the dict `_list_objects` builds, in insertion order -/
def listQuery (token : Option Bytes) (pfx : Bytes) : List (Bytes × Bytes) :=
  [(Gen.s3ListTypeKey, Gen.s3ListTypeValue)]
    ++ (match token with | some t => [(Gen.s3TokenKey, t)] | none => [])
    ++ (if pfx.isEmpty then [] else [(Gen.s3PrefixKey, pfx)])

/-! ## signing inputs and the client's computation -/

structure Inputs where
  method : Bytes
  host : Bytes            -- `self.host` as configured
  scheme : Bytes
  path : Bytes            -- `canonical_uri` argument, e.g. `/bucket/name` (UTF-8)
  query : List (Bytes × Bytes)
  payloadDigest : Bytes   -- hex string
  amzDate : Bytes         -- `YYYYMMDDTHHMMSSZ`
  date : Bytes            -- `YYYYMMDD`
  region : Bytes
  keyId : Bytes
  secret : Bytes

/-- one reading of the clock (`now = datetime.utcnow()`); both date strings are formatted from the same reading -/
structure ClockReading where
  year : Nat
  month : Nat
  day : Nat
  hour : Nat
  minute : Nat
  second : Nat

def digit (n : Nat) : UInt8 := UInt8.ofNat (0x30 + n % 10)
def pad2 (n : Nat) : Bytes := [digit (n / 10), digit n]
/-- `%Y` for years 1000…9999 -/
def pad4 (n : Nat) : Bytes := [digit (n / 1000), digit (n / 100), digit (n / 10), digit n]

/-- `f'{now:%Y%m%dT%H%M%S}Z'` -/
def fmtAmzDate (t : ClockReading) : Bytes :=
  pad4 t.year ++ pad2 t.month ++ pad2 t.day ++ [0x54] ++ pad2 t.hour ++ pad2 t.minute ++ pad2 t.second ++ [0x5A]

/-- `f'{now:%Y%m%d}'` -/
def fmtDate (t : ClockReading) : Bytes := pad4 t.year ++ pad2 t.month ++ pad2 t.day

/-- `hmac key msg`, `sha msg` (hex digest as bytes of the hex string), `hexOf digest` -/
structure Crypto where
  hmac : Bytes → Bytes → Bytes
  sha : Bytes → Bytes
  hexOf : Bytes → Bytes

def nl : Bytes := [0x0A]

/-- `_make_canonical_headers`: `'\n'.join(f'{name}:{value}' …) + '\n'` -/
def canonicalHeaders (hs : List (Bytes × Bytes)) : Bytes :=
  intercalate nl (hs.map fun h => h.1 ++ [0x3A] ++ h.2) ++ nl

def headerSource (i : Inputs) : Nat → Bytes
  | 0 => i.host
  | 1 => i.payloadDigest
  | 2 => i.amzDate
  | _ => []

/-- the dict `canonical_headers` of `_prepare_request` (names and value sources generated) -/
def clientSignedHeaderList (i : Inputs) : List (Bytes × Bytes) :=
  Gen.s3SignedHeadersB.zip (Gen.s3SignedHeaderSources.map (headerSource i))

def clientSignedHeaders : Bytes := intercalate Gen.s3SignedHeadersSep Gen.s3SignedHeadersB

/-- select fields by the generated order codes (the extractor only emits codes of existing fields) -/
def pick (fields : List Bytes) (order : List Nat) : List Bytes :=
  order.map fun k => match fields.drop k with | f :: _ => f | [] => []

/-- `_make_canonical_request` given its six fields in the standard order -/
def canonicalRequestOf (method uri query headers signed digest : Bytes) : Bytes :=
  intercalate nl (pick [method, uri, query, headers, signed, digest] Gen.s3CanonicalRequestOrder)

def clientCanonicalRequest (i : Inputs) : Bytes :=
  canonicalRequestOf i.method (clientPath i.path) (clientQueryString i.query)
    (canonicalHeaders (clientSignedHeaderList i)) clientSignedHeaders i.payloadDigest

/-- `_make_credential_scope` -/
def scopeOf (date region : Bytes) : Bytes :=
  intercalate [0x2F] (pick [date, region, Gen.s3Service, Gen.s3Terminator] Gen.s3ScopeOrder)

/-- `_make_string_to_sign` -/
def stringToSignOf (c : Crypto) (amzDate scope canonicalRequest : Bytes) : Bytes :=
  intercalate nl (pick [Gen.s3Algorithm, amzDate, scope, c.sha canonicalRequest] Gen.s3StringToSignOrder)

/-- `_make_signature_key` -/
def signingKeyOf (c : Crypto) (secret date region : Bytes) : Bytes :=
  (pick [date, region, Gen.s3Service, Gen.s3KeyTerminator] Gen.s3KeyChain).foldl c.hmac (Gen.s3KeyPrefix ++ secret)

def signatureOf (c : Crypto) (secret date region amzDate canonicalRequest : Bytes) : Bytes :=
  c.hexOf (c.hmac (signingKeyOf c secret date region) (stringToSignOf c amzDate (scopeOf date region) canonicalRequest))

def clientSignature (c : Crypto) (i : Inputs) : Bytes :=
  signatureOf c i.secret i.date i.region i.amzDate (clientCanonicalRequest i)

def authField (i : Inputs) (sig : Bytes) : Nat × Bytes → Bytes
  | (0, lit) => lit
  | (1, _) => i.keyId
  | (2, _) => scopeOf i.date i.region
  | (3, _) => clientSignedHeaders
  | (4, _) => sig
  | _ => []

/-- the `Authorization` header value -/
def clientAuthorization (c : Crypto) (i : Inputs) : Bytes :=
  Gen.s3AuthTemplate.flatMap (authField i (clientSignature c i))

/-! ## transport (httpx) -/

/-- split at every `/` (Python `str.split('/')`) -/
def splitSlash : Bytes → List Bytes
  | [] => [[]]
  | b :: rest =>
    if b == 0x2F then [] :: splitSlash rest
    else match splitSlash rest with
      | [] => [[b]]
      | s :: ss => (b :: s) :: ss

def dot : Bytes := [0x2E]
def dotdot : Bytes := [0x2E, 0x2E]

/-- a path segment `.` or `..` occurs -/
def hasDotSegment (p : Bytes) : Bool := (splitSlash p).any fun s => s == dot || s == dotdot

/-- the loop of `httpx._urlparse.normalize_path` -/
def dropDots : List Bytes → List Bytes → List Bytes
  | [], out => out
  | c :: cs, out =>
    if c == dot then dropDots cs out
    else if c == dotdot then (if !out.isEmpty && out != [[]] then dropDots cs out.dropLast else dropDots cs out)
    else dropDots cs (out ++ [c])

/-- `httpx._urlparse.normalize_path` applied to the (already quoted) path -/
def normalizePath (p : Bytes) : Bytes :=
  if hasDotSegment p then intercalate [0x2F] (dropDots (splitSlash p) []) else p

/-- the path of the request target: `URL.raw_path` = normalised path, `/` when that is empty -/
def httpxPath (p : Bytes) : Bytes :=
  let r := normalizePath p
  if r.isEmpty then [0x2F] else r

def toLowerByte (b : UInt8) : UInt8 := if isUpper b then b + 0x20 else b

def defaultPort (scheme : Bytes) : Option Bytes :=
  if scheme == [0x68, 0x74, 0x74, 0x70, 0x73] then some [0x34, 0x34, 0x33]          -- https → 443
  else if scheme == [0x68, 0x74, 0x74, 0x70] then some [0x38, 0x30]                  -- http → 80
  else none

/-- split `host[:port]` at the last colon when what follows is all digits -/
def splitPort (h : Bytes) : Bytes × Option Bytes :=
  let r := h.reverse
  let digits := r.takeWhile isDigit
  match r.drop digits.length with
  | 0x3A :: hostRev => (hostRev.reverse, some digits.reverse)
  | _ => (h, none)

/-- the `Host` header httpx derives from the URL: host lower-cased, default (or empty) port dropped -/
def httpxHost (scheme host : Bytes) : Bytes :=
  match splitPort host with
  | (h, some port) =>
    if port.isEmpty || some port == defaultPort scheme then h.map toLowerByte
    else h.map toLowerByte ++ [0x3A] ++ port
  | (h, none) => h.map toLowerByte

/-- host spellings httpx sends unchanged -/
def hostIsNormal (scheme host : Bytes) : Bool := httpxHost scheme host == host

def hHost : Bytes := [104, 111, 115, 116]

/-- does `_prepare_request` put a `Host` header on the request ITSELF, with the configured host (`self.host`, the value that is
signed) as its value?  Generated: an entry named `host` with source 0 in `Gen.s3SentHeaders` (tools/sections/16_s3.py emits the
name in lower case; a `Host` header set to anything else than the configured host is not recognised and makes the item opaque). -/
def hostHeaderExplicit : Bool :=
  match Gen.s3SentHeaders.find? (fun h => h.1 == hHost) with
  | some (_, 0) => true
  | _ => false

/-- the `Host` header on the wire: an explicit one is kept verbatim by httpx (`Request.__init__` adds its own only when none is
among the headers), otherwise httpx derives it from the URL -/
def wireHost (explicit : Bool) (scheme host : Bytes) : Bytes :=
  if explicit then host else httpxHost scheme host

/-! ## what is on the wire -/

structure Wire where
  method : Bytes
  path : Bytes                       -- raw path of the request target
  query : List (Bytes × Bytes)       -- raw `name`, `value` pieces of the request target's query, in wire order
  host : Bytes                       -- `Host` header
  contentSha : Bytes                 -- `x-amz-content-sha256`
  amzDate : Bytes                    -- `x-amz-date`
  authorization : Bytes

def sentHeaderValue (c : Crypto) (i : Inputs) (name : Bytes) : Bytes :=
  match Gen.s3SentHeaders.find? (fun h => h.1 == name) with
  | some (_, 0) => i.host
  | some (_, 1) => i.payloadDigest
  | some (_, 2) => i.amzDate
  | some (_, 3) => clientAuthorization c i
  | _ => []

def hContentSha : Bytes := [120, 45, 97, 109, 122, 45, 99, 111, 110, 116, 101, 110, 116, 45, 115, 104, 97, 50, 53, 54]
def hAmzDate : Bytes := [120, 45, 97, 109, 122, 45, 100, 97, 116, 101]
def hAuthorization : Bytes := [97, 117, 116, 104, 111, 114, 105, 122, 97, 116, 105, 111, 110]

/-- the request httpx emits for the client's inputs, for a client that does (`explicit`) / does not set the `Host` header itself -/
def toWireWith (explicit : Bool) (c : Crypto) (i : Inputs) : Wire where
  method := i.method
  path := httpxPath (clientPath i.path)
  query := clientQueryPairs i.query
  host := wireHost explicit i.scheme i.host
  contentSha := sentHeaderValue c i hContentSha
  amzDate := sentHeaderValue c i hAmzDate
  authorization := sentHeaderValue c i hAuthorization

/-- … with what the code does today (generated) -/
def toWire (c : Crypto) (i : Inputs) : Wire := toWireWith hostHeaderExplicit c i

/-- raw request target -/
def Wire.target (w : Wire) : Bytes :=
  if w.query.isEmpty then w.path else w.path ++ [0x3F] ++ joinPairs w.query

/-! ## reference: the published algorithm on the wire -/

/-- percent-decoding; `plus = true` also reads `+` as a space (form decoding, what S3 applies to the query).
A `%` that is not followed by two hex digits is kept literally. -/
def pctDecode (plus : Bool) : Bytes → Bytes
  | [] => []
  | a :: b :: c :: rest =>
    if a == 0x25 then
      match hexVal b, hexVal c with
      | some x, some y => (x * 16 + y) :: pctDecode plus rest
      | _, _ => a :: pctDecode plus (b :: c :: rest)
    else (if plus && a == 0x2B then 0x20 else a) :: pctDecode plus (b :: c :: rest)
  | a :: t => (if plus && a == 0x2B then 0x20 else a) :: pctDecode plus t

def refCanonicalUri (rawPath : Bytes) : Bytes := awsUriEncode false (pctDecode false rawPath)

def refQueryPairs (plus : Bool) (raw : List (Bytes × Bytes)) : List (Bytes × Bytes) :=
  sortPairs (raw.map fun p => (awsUriEncode true (pctDecode plus p.1), awsUriEncode true (pctDecode plus p.2)))

def refCanonicalQuery (plus : Bool) (raw : List (Bytes × Bytes)) : Bytes := joinPairs (refQueryPairs plus raw)

/-- the signed headers S3 requires for these requests, lower-case and sorted: host, x-amz-content-sha256, x-amz-date -/
def refSignedNames : List Bytes := [hHost, hContentSha, hAmzDate]

def refCanonicalHeaders (w : Wire) : Bytes :=
  hHost ++ [0x3A] ++ w.host ++ nl ++ hContentSha ++ [0x3A] ++ w.contentSha ++ nl ++ hAmzDate ++ [0x3A] ++ w.amzDate ++ nl

def refSignedHeaders : Bytes := hHost ++ [0x3B] ++ hContentSha ++ [0x3B] ++ hAmzDate

/-- canonical request per the published algorithm: six fields joined by line feeds -/
def refCanonicalRequest (plus : Bool) (w : Wire) : Bytes :=
  w.method ++ nl ++ refCanonicalUri w.path ++ nl ++ refCanonicalQuery plus w.query ++ nl ++ refCanonicalHeaders w ++ nl
    ++ refSignedHeaders ++ nl ++ w.contentSha

def sAlgorithm : Bytes := [65, 87, 83, 52, 45, 72, 77, 65, 67, 45, 83, 72, 65, 50, 53, 54]
def sAws4 : Bytes := [65, 87, 83, 52]
def sAws4Request : Bytes := [97, 119, 115, 52, 95, 114, 101, 113, 117, 101, 115, 116]
def sS3 : Bytes := [115, 51]

def refScope (date region : Bytes) : Bytes := date ++ [0x2F] ++ region ++ [0x2F] ++ sS3 ++ [0x2F] ++ sAws4Request

def refStringToSign (c : Crypto) (amzDate scope cr : Bytes) : Bytes :=
  sAlgorithm ++ nl ++ amzDate ++ nl ++ scope ++ nl ++ c.sha cr

def refSigningKey (c : Crypto) (secret date region : Bytes) : Bytes :=
  c.hmac (c.hmac (c.hmac (c.hmac (sAws4 ++ secret) date) region) sS3) sAws4Request

/-- signature a strict endpoint computes for the request on the wire (credentials looked up by key id; the scope date is
the first eight characters of `x-amz-date`) -/
def refSignature (c : Crypto) (plus : Bool) (secret region : Bytes) (w : Wire) : Bytes :=
  let date := w.amzDate.take 8
  c.hexOf (c.hmac (refSigningKey c secret date region)
    (refStringToSign c w.amzDate (refScope date region) (refCanonicalRequest plus w)))

/-! ## payloads -/

/-- a seekable stream: content and position -/
structure Stream where
  data : Bytes
  pos : Nat

/-- `_get_stream_hexdigest`: hashes `read()` until EOF (from the current position), then `seek(…)` (generated) -/
def streamDigest (c : Crypto) (s : Stream) : Bytes × Stream :=
  (c.sha (s.data.drop s.pos), { s with pos := match Gen.s3StreamRewindTo with | some p => p | none => s.data.length })

/-- body of the PUT: `aiter_chunks(stream, chunk_size)` = pieces of `chunk` bytes from the current position to EOF -/
def chunksFrom (chunk : Nat) : Nat → Bytes → List Bytes
  | 0, _ => []
  | fuel + 1, rest =>
    if rest.isEmpty || chunk == 0 then [] else rest.take chunk :: chunksFrom chunk fuel (rest.drop chunk)

def streamBody (chunk : Nat) (s : Stream) : Bytes :=
  (chunksFrom chunk (s.data.length + 1) (s.data.drop s.pos)).flatten

structure Put where
  declaredDigest : Bytes
  declaredLength : Nat
  body : Bytes

/-- `upload(name, data)` -/
def uploadBytes (c : Crypto) (data : Bytes) : Put := ⟨c.sha data, data.length, data⟩

/-- `upload_stream(name, stream, length, chunk_size)` -/
def uploadStream (c : Crypto) (s : Stream) (length chunk : Nat) : Put :=
  let (d, s') := streamDigest c s
  ⟨d, length, streamBody chunk s'⟩

/-! ## retried streamed uploads

`_put_object_stream` is retried by `backoff` on `httpx.HTTPError`; the digest was computed once, before (`upload_stream`), and
every attempt builds a new body iterator over the SAME stream object.  What an attempt sends therefore depends on where the
previous attempt left the stream — on how many parts the transport had pulled when it failed, and on whether the
`except` branch that saw the failure rewinds (generated: `Gen.s3PutRewindOnStatus`, `Gen.s3PutRewindOnTransport`,
`Gen.s3PutRewindTo`). -/

/-- what ended an attempt; both are `httpx.HTTPError`s, so both are retried -/
inductive FaultClass where
  | status      -- a response arrived and `raise_for_status` raised `HTTPStatusError`
  | transport   -- no response: connect / read / write / protocol / timeout error (`httpx.TransportError`)
  deriving DecidableEq, Repr

/-- a failed attempt: its class and the number of body parts the transport had pulled from the iterator before it failed -/
structure Fault where
  cls : FaultClass
  pulled : Nat

/-- does the code rewind the stream after a failure of this class? (generated from the `try` statement) -/
def putRewinds : FaultClass → Bool
  | .status => Gen.s3PutRewindOnStatus
  | .transport => Gen.s3PutRewindOnTransport

/-- the parts the body iterator yields from the current position -/
def streamParts (chunk : Nat) (s : Stream) : List Bytes := chunksFrom chunk (s.data.length + 1) (s.data.drop s.pos)

/-- `k` reads of `chunk` bytes move the position by `k * chunk`, not beyond EOF (a position at / beyond EOF stays) -/
def pull (chunk k : Nat) (s : Stream) : Stream :=
  { s with pos := max s.pos (min s.data.length (s.pos + k * chunk)) }

/-- the stream as a failed attempt leaves it, for a given rewinding policy -/
def afterFaultWith (rew : FaultClass → Bool) (to chunk : Nat) (f : Fault) (s : Stream) : Stream :=
  if rew f.cls then { s with pos := to } else pull chunk f.pulled s

/-- one PUT attempt: what it declares, the body it offers (`put.body`: sent in full when the service reads all of it) and what
the service had received when the attempt ended (`sent`) -/
structure Attempt where
  put : Put
  sent : Bytes

/-- all attempts of one `_put_object_stream` call: one per fault, then the one that is answered -/
def attemptsWith (rew : FaultClass → Bool) (to : Nat) (d : Bytes) (length chunk : Nat) : List Fault → Stream → List Attempt
  | [], s => [⟨⟨d, length, streamBody chunk s⟩, streamBody chunk s⟩]
  | f :: fs, s =>
    ⟨⟨d, length, streamBody chunk s⟩, ((streamParts chunk s).take f.pulled).flatten⟩
      :: attemptsWith rew to d length chunk fs (afterFaultWith rew to chunk f s)

/-- `upload_stream(name, stream, length, chunk_size)` whose first `faults.length` PUT attempts fail as described -/
def uploadStreamRetriedWith (rew : FaultClass → Bool) (to : Nat) (c : Crypto) (s : Stream) (length chunk : Nat)
    (faults : List Fault) : List Attempt :=
  let (d, s') := streamDigest c s
  attemptsWith rew to d length chunk faults s'

/-- … with the policy of the code -/
def uploadStreamRetried (c : Crypto) (s : Stream) (length chunk : Nat) (faults : List Fault) : List Attempt :=
  uploadStreamRetriedWith putRewinds Gen.s3PutRewindTo c s length chunk faults

/-! ## replies that make the HTTP client act by itself: redirects

Every request of the adapter is built and signed by `_prepare_request` (`toWire`) and handed to `AsyncClient.send`.  Whether that
is the ONLY source of requests on the wire depends on what the service answers and on two places of the code: the
`follow_redirects` argument reaching `send` (`Gen.s3FollowRedirects`) and the response hook, which runs BEFORE httpx looks at the
`Location` header and raises for every status outside 2xx when it calls `raise_for_status()` unconditionally
(`Gen.s3HookRaisesOnNon2xx`).  When a 301/302/303/307/308 with a `Location` passes the hook and redirects are followed, httpx
builds the next request ITSELF (`_build_redirect_request`): the headers of the answered request are copied — `x-amz-date`,
`x-amz-content-sha256` and, on the same origin (or a plain http → https upgrade), the `Authorization` computed for the OLD
host / path / method; away from the origin `Authorization` is dropped and `Host` replaced.  Nothing is signed again. -/

def mGet : Bytes := [71, 69, 84]
def mHead : Bytes := [72, 69, 65, 68]
def mPost : Bytes := [80, 79, 83, 84]

/-- the target of a `Location` header as httpx resolves it against the URL of the request that was answered -/
structure Location where
  sameOrigin : Bool            -- `_same_origin`: scheme, host and port-or-default all equal
  httpsUpgrade : Bool          -- `_is_https_redirect`: same host, http on port 80 → https on port 443
  host : Bytes                 -- `url.netloc` of the target (what the `Host` header becomes away from the origin)
  path : Bytes                 -- raw path of the target
  query : List (Bytes × Bytes) -- raw query pieces of the target

/-- what the service does with one request that arrives -/
inductive Reply where
  | answer                                   -- 2xx
  | fail (k : FaultClass)                    -- an error status (4xx / 5xx) or a transport-level failure
  | redirect (status : Nat) (l : Location)   -- 301 / 302 / 303 / 307 / 308 WITH a `Location` (`Response.has_redirect_location`)
  | odd                                      -- any other status outside 2xx: 1xx, 300, 304, 305, 306, a 3xx without `Location`

/-- `_redirect_method` -/
def redirectMethod (status : Nat) (m : Bytes) : Bytes :=
  if (status == 303 || status == 302) && m != mHead then mGet
  else if status == 301 && m == mPost then mGet
  else m

/-- `_build_redirect_request`: the request httpx emits by itself for a followed redirect -/
def followRequest (w : Wire) (status : Nat) (l : Location) : Wire :=
  { w with method := redirectMethod status w.method, path := l.path, query := l.query,
           host := if l.sameOrigin then w.host else l.host,
           authorization := if l.sameOrigin || l.httpsUpgrade then w.authorization else [] }

/-- how `AsyncClient.send` + the response hook end, as the retried adapter function sees it -/
inductive SendResult where
  | returned (passed3xx : Bool) -- a response was handed to the caller (`true`: a redirect the hook let pass and nobody followed)
  | raised (k : FaultClass)     -- `HTTPStatusError` from the hook / a transport error (`TooManyRedirects` included)
  deriving DecidableEq, Repr

/-- `AsyncClient.send(request, follow_redirects=follow)` for one signed request against a script of replies (one reply per
request that arrives; an exhausted script answers): the requests put on the wire, the result, the rest of the script.
`budget` = redirects httpx still follows (`max_redirects`). -/
def sendAux (follow hookRaises : Bool) : List Reply → Nat → Wire → List Wire × SendResult × List Reply
  | [], _, w => ([w], .returned false, [])
  | .answer :: rs, _, w => ([w], .returned false, rs)
  | .fail k :: rs, _, w => ([w], .raised k, rs)
  | .odd :: rs, _, w => ([w], .raised .status, rs)
  | .redirect _ _ :: rs, 0, w =>
    ([w], if hookRaises then .raised .status else if follow then .raised .transport else .returned true, rs)
  | .redirect st l :: rs, b + 1, w =>
    if hookRaises then ([w], .raised .status, rs)
    else if follow then
      let r := sendAux follow hookRaises rs b (followRequest w st l)
      (w :: r.1, r.2)
    else ([w], .returned true, rs)

def sendWith (follow hookRaises : Bool) (budget : Nat) (w : Wire) (rs : List Reply) : List Wire × SendResult × List Reply :=
  sendAux follow hookRaises rs budget w

/-- one adapter function under `backoff` (`tries` = `max_tries`; every failure in the scripts is a retried `httpx.HTTPError` —
the give-up status 403 is not scripted): signing number `j`, `j + 1`, … (one clock reading each) until a response is returned.
Result: the requests on the wire, each with the number of the signing it belongs to; success; rest of the script; next signing;
whether the response handed back was a redirect that passed the hook unfollowed (the adapter then reads it as if it were the answer). -/
def callWith (follow hookRaises : Bool) (maxRedirects : Nat) (sign : Nat → Wire) :
    Nat → Nat → List Reply → List (Nat × Wire) × Bool × List Reply × Nat × Bool
  | 0, j, rs => ([], false, rs, j, false)
  | t + 1, j, rs =>
    let r := sendWith follow hookRaises maxRedirects (sign j) rs
    match r.2.1 with
    | .returned p => (r.1.map (fun w => (j, w)), true, r.2.2, j + 1, p)
    | .raised _ =>
      let r' := callWith follow hookRaises maxRedirects sign t (j + 1) r.2.2
      (r.1.map (fun w => (j, w)) ++ r'.1, r'.2)

/-- … with what the code does today -/
def callRequests (sign : Nat → Wire) (tries j : Nat) (rs : List Reply) : List (Nat × Wire) × Bool × List Reply × Nat × Bool :=
  callWith Gen.s3FollowRedirects Gen.s3HookRaisesOnNon2xx Gen.s3MaxRedirects sign tries j rs

end Replicat.SigV4

/-! ## read schedules: streams whose `read(n)` returns UP TO `n` bytes

`upload_stream` takes any seekable stream of the caller.  The file protocol (`io.RawIOBase.read`) lets `read(n)` return fewer than
`n` bytes before the end — raw / unbuffered streams, pipes and sockets, network file systems, wrappers that cap the transfer size —
and an empty result only at the end.  The stream is read by two loops: `_get_stream_hexdigest` (the declared and signed
`x-amz-content-sha256`) and the body iterator `utils.aiter_chunks`.  What a loop consumes depends on when it stops; that is
generated (`Gen.s3DigestStopRule`, `Gen.s3BodyStopRule`, `Gen.s3DigestReadSize`, tools/sections/16_s3reads.py).

A *schedule* is the list of caps the stream applies to the successive calls (`cap = k`: this call hands out at most `k` bytes);
calls beyond the list are filled.  `streamDigest` / `streamBody` above are the schedule-free descriptions; `C16.lean` proves that
they are what the loops compute under EVERY schedule whose caps are positive. -/
namespace Replicat.SigV4

/-- when a read loop stops -/
inductive StopRule where
  | emptyRead   -- at the first empty read: `iter(lambda: f.read(n), b'')`, `while chunk := f.read(n)`, `if not chunk: break`
  | shortRead   -- the read is consumed, then the loop ends if it was shorter than requested: `if len(chunk) < n: break`
  deriving DecidableEq, Repr

/-- the generated code (0 = empty read, 1 = short read) -/
def stopRuleOfCode : Nat → StopRule
  | 0 => .emptyRead
  | _ => .shortRead

/-- bytes handed out by one `read(n)`: at most `n`, at most the cap of this call -/
def capOf (n : Nat) : List Nat → Nat
  | [] => n
  | c :: _ => min n c

/-- every `read(n)` the loop issues on `rest` (what is left of the stream) with its result, in order: the last one is the read
that ended the loop (empty, or — `shortRead` — shorter than `n`).  All results but an empty one are consumed (hashed / sent). -/
def readLoop (rule : StopRule) (n : Nat) : Nat → List Nat → Bytes → List Bytes
  | 0, _, _ => []
  | fuel + 1, caps, rest =>
    let k := capOf n caps
    let piece := rest.take k
    match rule with
    | .emptyRead => if piece.isEmpty then [piece] else piece :: readLoop rule n fuel caps.tail (rest.drop k)
    | .shortRead => if piece.length < n then [piece] else piece :: readLoop rule n fuel caps.tail (rest.drop k)

/-- the reads of a loop over stream `s` from its position (enough fuel for every schedule of positive caps) -/
def streamReads (rule : StopRule) (n : Nat) (caps : List Nat) (s : Stream) : List Bytes :=
  readLoop rule n (s.data.length + 2) caps (s.data.drop s.pos)

/-- `_get_stream_hexdigest` on a stream that answers with schedule `caps`: the bytes fed to the hasher (`hasher.update` chunk by
chunk = the hash of the concatenation), then `seek(…)` (generated) -/
def streamDigestSchedWith (rule : StopRule) (n : Nat) (rewind : Option Nat) (c : Crypto) (caps : List Nat) (s : Stream) : Bytes × Stream :=
  let hashed := (streamReads rule n caps s).flatten
  (c.sha hashed, { s with pos := match rewind with | some p => p | none => s.pos + hashed.length })

/-- the parts the body iterator yields (`aiter_chunks`: every non-empty read) under schedule `caps` -/
def streamPartsSchedWith (rule : StopRule) (chunk : Nat) (caps : List Nat) (s : Stream) : List Bytes :=
  (streamReads rule chunk caps s).filter (fun p => !p.isEmpty)

/-- `upload_stream(name, stream, length, chunk_size)` on a stream that answers the digest loop with `dcaps` and the body iterator
with `bcaps`, for given stop rules / digest read size / rewind -/
def uploadStreamSchedWith (drule brule : StopRule) (dn : Nat) (rewind : Option Nat) (c : Crypto) (s : Stream) (length chunk : Nat)
    (dcaps bcaps : List Nat) : Put :=
  let (d, s') := streamDigestSchedWith drule dn rewind c dcaps s
  ⟨d, length, (streamPartsSchedWith brule chunk bcaps s').flatten⟩

def digestStopRule : StopRule := stopRuleOfCode Gen.s3DigestStopRule
def bodyStopRule : StopRule := stopRuleOfCode Gen.s3BodyStopRule

/-- … with what the code does today -/
def uploadStreamSched (c : Crypto) (s : Stream) (length chunk : Nat) (dcaps bcaps : List Nat) : Put :=
  uploadStreamSchedWith digestStopRule bodyStopRule Gen.s3DigestReadSize Gen.s3StreamRewindTo c s length chunk dcaps bcaps

/-- a schedule the file protocol allows: no empty result before the end -/
def CapsOk (caps : List Nat) : Prop := ∀ k ∈ caps, 0 < k

end Replicat.SigV4
