/-! Shared basics for the executable models (core Lean only). -/
namespace Replicat

abbrev Bytes := List UInt8

/-- round up to a multiple of four (`(n + 3) & -4`) -/
def ceil4 (n : Nat) : Nat := (n + 3) / 4 * 4

end Replicat
