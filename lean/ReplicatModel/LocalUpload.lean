import ReplicatModel.Basic
import ReplicatModel.Generated
/-!
# The local backend's upload as file-system steps  (C03; replicat/backends/local.py)

`Local.upload` / `Local.upload_stream`:  `destination.parent.mkdir(parents=True, exist_ok=True)`;
`NamedTemporaryFile(prefix=name_, suffix='.tmp', dir=destination.parent, delete=False)` (an empty file with a fresh name in the same
directory); the payload written to it (in one or several `write` calls — a crash can fall between or inside them, so the payload
is an arbitrary list of pieces); `temp.replace(destination)` (POSIX rename: atomic replacement of the directory entry);
on any exception `temp.unlink(missing_ok=True)`.

The file system is a map path ↦ bytes plus a set of directories.  What other operations can observe (`list_files`, `exists`,
`download` of names that do not end in the temporary suffix) is `vget`.  Power loss below `rename` (torn directory entries, data not
yet durable) is OS behaviour this model does not exhibit.
-/
namespace Replicat.LocalUpload

abbrev Path := String

def lookup (l : List (Path × Bytes)) (k : Path) : Option Bytes := (l.find? (fun e => e.1 == k)).map (·.2)
def remove (l : List (Path × Bytes)) (k : Path) : List (Path × Bytes) := l.filter (fun e => !(e.1 == k))
def setFile (l : List (Path × Bytes)) (k : Path) (v : Bytes) : List (Path × Bytes) := (k, v) :: remove l k

structure FS where
  files : List (Path × Bytes)
  dirs : List Path
deriving Repr

/-- `list_files` skips every path with this suffix (regenerated from the source) -/
def isTmp (p : Path) : Bool := p.endsWith Gen.localListExcludes

inductive Step
  | mkdirP (d : Path)
  | createTemp (t : Path)
  | write (t : Path) (piece : Bytes)
  | rename (t dst : Path)
  | unlink (t : Path)
deriving Repr

def apply (fs : FS) : Step → FS
  | .mkdirP d => { fs with dirs := d :: fs.dirs }
  | .createTemp t => { fs with files := setFile fs.files t [] }
  | .write t piece => { fs with files := setFile fs.files t ((lookup fs.files t).getD [] ++ piece) }
  | .rename t dst =>
    match lookup fs.files t with
    | none => fs                                  -- FileNotFoundError: nothing changes
    | some b => { fs with files := setFile (remove fs.files t) dst b }
  | .unlink t => { fs with files := remove fs.files t }

def run (fs : FS) (steps : List Step) : FS := steps.foldl apply fs

/-- the steps before the rename: everything happens to the temporary -/
def prepSteps (dir tmp : Path) (pieces : List Bytes) : List Step :=
  [.mkdirP dir, .createTemp tmp] ++ pieces.map (.write tmp)

/-- one successful attempt of `upload(name, data)` with `data = pieces.flatten` -/
def uploadSteps (dir name tmp : Path) (pieces : List Bytes) : List Step :=
  prepSteps dir tmp pieces ++ [.rename tmp name]

/-- a failed attempt: some prefix of the preparation, then the `except` branch -/
def failedAttempt (dir tmp : Path) (pieces : List Bytes) (k : Nat) : List Step :=
  (prepSteps dir tmp pieces).take k ++ [.unlink tmp]

/-! ## what the other operations observe -/
/-- `download(name)` / `exists(name)` for a name that is not a temporary -/
def vget (fs : FS) (n : Path) : Option Bytes := if isTmp n then none else lookup fs.files n

def existsFile (fs : FS) (n : Path) : Bool := (lookup fs.files n).isSome
def download (fs : FS) (n : Path) : Option Bytes := lookup fs.files n
/-- `list_files(prefix)`: every regular file below the root whose relative path starts with the prefix, temporaries excluded -/
def listFiles (fs : FS) (pre : String) : List Path :=
  (fs.files.map (·.1)).filter (fun p => p.startsWith pre && !isTmp p)

/-- the specification: an atomic map update -/
def putObj (fs : FS) (name : Path) (data : Bytes) : FS := { fs with files := setFile fs.files name data }

end Replicat.LocalUpload
