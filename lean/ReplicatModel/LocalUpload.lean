import ReplicatModel.Basic
import ReplicatModel.Generated
/-!
# The local backend's upload as file-system steps  (C03; replicat/backends/local.py)

`Local.upload` / `Local.upload_stream`:  `destination.parent.mkdir(parents=True, exist_ok=True)`;
`NamedTemporaryFile(prefix=name_, suffix='.tmp', dir=destination.parent, delete=False)` (an empty file with a fresh name in the same
directory); the payload written to it (in one or several `write` calls — a crash can fall between or inside them, so the payload
is an arbitrary list of pieces); `temp.replace(destination)` (POSIX rename: atomic replacement of the directory entry);
on any exception `temp.unlink(missing_ok=True)`.

The file system is a map path ↦ bytes plus a set of directories.  What other operations can observe (`list_files`, `exists`,
`download` of names that do not end in the temporary suffix) is `vget`.  Power loss below `rename` (torn directory entries, data not
yet durable) is OS behaviour this model does not exhibit.
-/
namespace Replicat.LocalUpload

abbrev Path := String

def lookup (l : List (Path × Bytes)) (k : Path) : Option Bytes := (l.find? (fun e => e.1 == k)).map (·.2)
def remove (l : List (Path × Bytes)) (k : Path) : List (Path × Bytes) := l.filter (fun e => !(e.1 == k))
def setFile (l : List (Path × Bytes)) (k : Path) (v : Bytes) : List (Path × Bytes) := (k, v) :: remove l k

structure FS where
  files : List (Path × Bytes)
  dirs : List Path
deriving Repr

/-- `list_files` skips every path with this suffix (regenerated from the source) -/
def isTmp (p : Path) : Bool := p.endsWith Gen.localListExcludes

inductive Step
  | mkdirP (d : Path)
  | createTemp (t : Path)
  | write (t : Path) (piece : Bytes)
  | rename (t dst : Path)
  | unlink (t : Path)
deriving Repr

def apply (fs : FS) : Step → FS
  | .mkdirP d => { fs with dirs := d :: fs.dirs }
  | .createTemp t => { fs with files := setFile fs.files t [] }
  | .write t piece => { fs with files := setFile fs.files t ((lookup fs.files t).getD [] ++ piece) }
  | .rename t dst =>
    match lookup fs.files t with
    | none => fs                                  -- FileNotFoundError: nothing changes
    | some b => { fs with files := setFile (remove fs.files t) dst b }
  | .unlink t => { fs with files := remove fs.files t }

def run (fs : FS) (steps : List Step) : FS := steps.foldl apply fs

/-- the steps before the rename: everything happens to the temporary -/
def prepSteps (dir tmp : Path) (pieces : List Bytes) : List Step :=
  [.mkdirP dir, .createTemp tmp] ++ pieces.map (.write tmp)

/-- one successful attempt of `upload(name, data)` with `data = pieces.flatten` -/
def uploadSteps (dir name tmp : Path) (pieces : List Bytes) : List Step :=
  prepSteps dir tmp pieces ++ [.rename tmp name]

/-- a failed attempt: some prefix of the preparation, then the `except` branch -/
def failedAttempt (dir tmp : Path) (pieces : List Bytes) (k : Nat) : List Step :=
  (prepSteps dir tmp pieces).take k ++ [.unlink tmp]

/-! ## what the other operations observe -/
/-- `download(name)` / `exists(name)` for a name that is not a temporary -/
def vget (fs : FS) (n : Path) : Option Bytes := if isTmp n then none else lookup fs.files n

def existsFile (fs : FS) (n : Path) : Bool := (lookup fs.files n).isSome
def download (fs : FS) (n : Path) : Option Bytes := lookup fs.files n
/-- `list_files(prefix)`: every regular file below the root whose relative path starts with the prefix, temporaries excluded -/
def listFiles (fs : FS) (pre : String) : List Path :=
  (fs.files.map (·.1)).filter (fun p => p.startsWith pre && !isTmp p)

/-- the specification: an atomic map update -/
def putObj (fs : FS) (name : Path) (data : Bytes) : FS := { fs with files := setFile fs.files name data }

/-! ## two uploads of ONE object in flight at the same time  (C03 "duel")

Two workers of one snapshot that both saw `exists() == False` for a chunk that repeats in the stream (or two commands on one
directory) run `upload` / `upload_stream` for the same name concurrently: the file-system steps of their attempts interleave in
any order, and the process can be killed after any of them.  Each attempt is the step list `uploadSteps` above, written as a small
state machine so that a schedule (which worker moves next) can be run step by step; a PREFIX of a schedule is a crash state.

`tempFor` is `Local._destination_temp`'s choice of the temporary: with a unique-name generator (`NamedTemporaryFile`, `mkstemp`, …;
`Gen.localTempPrivate`, regenerated from the source) the path `tok` the generator returned for THIS call — by the generator's
contract (`O_EXCL` creation) different from the path of every other temporary that still exists —, otherwise a name computed from the
destination alone, which two concurrent uploads of one object share. -/

structure UpCfg where
  dir : Path
  name : Path
  tmp : Path
  pieces : List Bytes
deriving Repr

/-- progress of one attempt: nothing yet / directory made / temporary exists and holds `written`, `todo` still to write / renamed -/
inductive UpSt
  | init
  | made
  | opened (written : Bytes) (todo : List Bytes)
  | done
deriving Repr

/-- the next file-system step of the attempt and the state after it -/
def UpSt.next (c : UpCfg) : UpSt → Option (Step × UpSt)
  | .init => some (.mkdirP c.dir, .made)
  | .made => some (.createTemp c.tmp, .opened [] c.pieces)
  | .opened w (p :: ps) => some (.write c.tmp p, .opened (w ++ p) ps)
  | .opened _ [] => some (.rename c.tmp c.name, .done)
  | .done => none

/-- the steps the attempt still has to do (from `init`: exactly `uploadSteps`, see `UpSt.rest_init`) -/
def UpSt.rest (c : UpCfg) : UpSt → List Step
  | .init => .mkdirP c.dir :: .createTemp c.tmp :: (c.pieces.map (.write c.tmp) ++ [.rename c.tmp c.name])
  | .made => .createTemp c.tmp :: (c.pieces.map (.write c.tmp) ++ [.rename c.tmp c.name])
  | .opened _ todo => todo.map (.write c.tmp) ++ [.rename c.tmp c.name]
  | .done => []

structure Duel where
  fs : FS
  s0 : UpSt
  s1 : UpSt
deriving Repr

/-- worker `w` (false = worker 0, true = worker 1) performs its next step; a worker that has finished stays where it is -/
def duelStep (c0 c1 : UpCfg) (d : Duel) (w : Bool) : Duel :=
  if w then
    match d.s1.next c1 with
    | some (st, s') => { d with fs := apply d.fs st, s1 := s' }
    | none => d
  else
    match d.s0.next c0 with
    | some (st, s') => { d with fs := apply d.fs st, s0 := s' }
    | none => d

/-- the two uploads under a schedule; every prefix of a schedule is a schedule: `duelRun … sched` ranges over ALL crash states -/
def duelRun (c0 c1 : UpCfg) (fs : FS) (sched : List Bool) : Duel := sched.foldl (duelStep c0 c1) ⟨fs, .init, .init⟩

/-- `_destination_temp`: the temporary of an upload of `name` (see the section comment) -/
def tempFor (priv : Bool) (name tok : Path) : Path := if priv then tok else name ++ Gen.localListExcludes

/-- the temporary the code as it stands uses -/
def codeTemp (name tok : Path) : Path := tempFor Gen.localTempPrivate name tok

end Replicat.LocalUpload
