import ReplicatModel.Settings
/-!
# The key file on disk (C17): `init -o PATH`, `add-key -o PATH` as a LATER process sees them

`Repository.init` and `Repository._add_key` end with

    if key_output_path is not None:
        <store self.serialize(key) at key_output_path>

The way that statement opens the path is regenerated from `/repo` (`Gen.keyWriteInit`, `Gen.keyWriteAddKey : WriteMode`,
helpers of `Repository` are followed by the extractor) — the model below interprets it for EVERY pre-existing state of the
path: absent, an earlier key file (shorter, longer, of equal length), anything else.

* `writeBytes`   — content of the path after the statement (or the `OSError`)
* `KeyDisk`      — key ring (`Settings.Ring`) + the files at the output paths + (ghost) which key each path holds
* `stepDisk`     — one add-key invocation with `-o PATH` / without (key printed)
* `freshLoad`    — what a fresh process gets: read the file, parse it (`deserialize`), unlock with the offered password

Core Lean only.
-/
namespace Replicat.Settings
open Replicat.Gen

inductive IOErr where
  | fileExists
  deriving DecidableEq, Repr

/-- Content of the output path after the key-writing statement ran with the serialised key `new`; `old` is what the path
held before (`none`: no such file). -/
def writeBytes {α : Type} (m : WriteMode) (old : Option (List α)) (new : List α) : Except IOErr (List α) :=
  match m, old with
  | .truncate, _ => .ok new
  | .replace, _ => .ok new
  | .inPlace, none => .ok new
  | .inPlace, some o => .ok (new ++ o.drop new.length)       -- the tail of a longer earlier file survives
  | .append, none => .ok new
  | .append, some o => .ok (o ++ new)
  | .exclusive, none => .ok new
  | .exclusive, some _ => .error .fileExists

/-- the statement discards whatever the path held -/
def overwrites : WriteMode → Bool
  | .truncate => true
  | .replace => true
  | _ => false

/-- the key (with the password it was made for, and the next fresh value) that one add-key invocation produces; `none` =
the invocation raises before the key-writing statement (wrong unlock password, KDF parameters the library refuses, no such key) -/
def producedKey {κ : Type} [DecidableEq κ] (valid : κ → Bool) (r : Ring κ) : KeyOp κ → Option ((KeyFile κ × Pw) × Nat)
  | .independent pw kdf =>
    if valid kdf then some ((mkKey kdf r.next pw (r.next + 1), pw), r.next + 2) else none
  | .shared i upw pw kdf =>
    match r.keys[i]? with
    | none => none
    | some (k, _) =>
      match unlockKey k upw with
      | none => none
      | some fam => if valid kdf then some ((mkKey kdf r.next pw fam, pw), r.next + 1) else none
  | .clone i upw kdf =>
    match r.keys[i]? with
    | none => none
    | some (k, _) =>
      match unlockKey k upw with
      | none => none
      | some fam => if valid kdf then some ((mkKey kdf r.next upw fam, upw), r.next + 1) else none

/-- an add-key invocation and where its key goes: `some p` = `-o p`, `none` = printed -/
structure KeyOpAt (κ : Type) where
  op : KeyOp κ
  out : Option Nat

structure KeyDisk (κ α : Type) where
  ring : Ring κ
  /-- the files at the output paths (association list, first entry wins) -/
  files : List (Nat × List α)
  /-- ghost: the key most recently stored at each path by this history, with its password -/
  holder : List (Nat × (KeyFile κ × Pw))

/-- `init … -o out0` over a disk that already holds `files0` (anything).  `none`: the key-writing statement raised, and since
it precedes the config upload no repository exists. -/
def initDisk {κ α : Type} (m : WriteMode) (ser : KeyFile κ → List α) (files0 : List (Nat × List α)) (pw : Pw) (kdf : κ)
    (out0 : Option Nat) : Option (KeyDisk κ α) :=
  let r := initRing pw kdf
  match out0 with
  | none => some { ring := r, files := files0, holder := [] }
  | some p =>
    match writeBytes m (files0.lookup p) (ser (mkKey kdf 0 pw 1)) with
    | .error _ => none
    | .ok c => some { ring := r, files := (p, c) :: files0, holder := [(p, (mkKey kdf 0 pw 1, pw))] }

/-- one add-key invocation -/
def stepDisk {κ α : Type} [DecidableEq κ] (m : WriteMode) (ser : KeyFile κ → List α) (valid : κ → Bool)
    (d : KeyDisk κ α) (o : KeyOpAt κ) : KeyDisk κ α :=
  match producedKey valid d.ring o.op with
  | none => d                                  -- refused before the key-writing statement (`Gen.keyWriteAfterChecks`)
  | some (kp, nx) =>
    match o.out with
    | none => { d with ring := { keys := d.ring.keys ++ [kp], next := nx } }          -- printed
    | some p =>
      match writeBytes m (d.files.lookup p) (ser kp.1) with
      | .error _ => { d with ring := { d.ring with next := nx } }                    -- `open` raised: no key is handed out
      | .ok c => { ring := { keys := d.ring.keys ++ [kp], next := nx }, files := (p, c) :: d.files, holder := (p, kp) :: d.holder }

def runDisk {κ α : Type} [DecidableEq κ] (m : WriteMode) (ser : KeyFile κ → List α) (valid : κ → Bool) :
    KeyDisk κ α → List (KeyOpAt κ) → KeyDisk κ α
  | d, [] => d
  | d, o :: os => runDisk m ser valid (stepDisk m ser valid d o) os

/-- A fresh process: `Path(p).read_bytes()`, `deserialize`, `_instantiate_key` with the offered password. -/
def freshLoad {κ α : Type} [DecidableEq κ] (parse : List α → Option (KeyFile κ)) (files : List (Nat × List α)) (p : Nat) (pw : Pw) :
    Option Nat :=
  match files.lookup p with
  | none => none
  | some c =>
    match parse c with
    | none => none
    | some k => unlockKey k pw

end Replicat.Settings
