import ReplicatModel.Store
/-!
# Model of the local backend (`replicat/backends/local.py`) over a directory tree

The file system below the repository directory is a flat table: `files` (path ↦ bytes) and `dirs` (directories that exist;
the repository directory itself, path `[]`, always exists).  A path is the list of its segments.

What is modelled as the code does it (string level):
* `pathlib`: `Path(s)` (`pparse`: anchor + parts; empty and `.` segments dropped, `..` kept), `str(Path)` (`PPath.str`, `'.'` for
  the empty path), `Path(a) / b` (`pjoin`: `os.path.join` of the raw strings, then parse) — Python 3.12 `PurePosixPath`;
* `os.path.split` (`osSplit`), `os.path.join` (`osJoin`);
* `Local.list_files`: `path_length = len(str(self.path))`; split the prefix into dirname / basename; scan
  `self.path / dirname`; keep entries whose name starts with the basename; a directory contributes every file below it,
  a file itself; entry paths are `os.path.join(<scanned path string>, name…)`; drop paths ending in
  `Gen.localListExcludeSuffix`; yield `path[Gen.localSliceFrom path_length:]`;
* `upload`: `mkdir -p` of the parent, temporary file in the same directory, rename over the destination (`uploadSteps` keeps
  the intermediate states, `upload` is their composition); `delete`: `unlink(missing_ok=Gen.localUnlinkMissingOk)`;
  `exists`: `os.path.exists`.

What is assumed (parameters of the model): however the repository location `root` is spelled, the operating system resolves
it to the repository directory, and `root/<relative path without ..>` to the corresponding path below it.  Absolute names /
prefix directories and `..` leave the repository; the model answers `unmodelled` for them.  The recursive scan of a
directory is modelled on the flat table (`filesUnder`): it agrees with the real recursion when every file's ancestors are
directories (`FS.Closed`, an invariant of every history).
-/
namespace Replicat.LocalFS
open Replicat Replicat.Store

abbrev Seg := List Char
abbrev Path := List Seg

structure FS where
  files : List (Path × Bytes)
  dirs : List Path
deriving Repr, DecidableEq

def FS.empty : FS := ⟨[], []⟩
def FS.get (fs : FS) (p : Path) : Option Bytes := alookup fs.files p
def FS.isFile (fs : FS) (p : Path) : Bool := (fs.get p).isSome
def FS.isDir (fs : FS) (p : Path) : Bool := p = [] ∨ p ∈ fs.dirs
/-- proper non-empty prefixes of a path: the directories `mkdir(parents=True)` creates for its parent -/
def ancestors : Path → List Path
  | [] => []
  | s :: rest => (ancestors rest).map (s :: ·) ++ (if rest = [] then [] else [[s]])
/-- some proper ancestor of `p` is a regular file (every system call on `p` fails with ENOTDIR) -/
def FS.blocked (fs : FS) (p : Path) : Bool := (ancestors p).any fs.isFile

/-! ## pathlib / os.path on strings -/
structure PPath where
  anchor : List Char
  parts : List Seg
deriving Repr, DecidableEq

/-- `PurePosixPath._parse_path`: one or ≥ 3 leading slashes give the root `/`, exactly two give `//` -/
def pparse (s : List Char) : PPath :=
  let lead := (s.takeWhile (· = '/')).length
  let anchor := if lead = 0 then [] else if lead = 2 then ['/', '/'] else ['/']
  ⟨anchor, (splitSlash (s.dropWhile (· = '/'))).filter (fun x => x ≠ [] ∧ x ≠ dot)⟩

/-- `str(path)` -/
def PPath.str (p : PPath) : List Char :=
  let s := p.anchor ++ joinSlash p.parts
  if s = [] then dot else s

/-- `os.path.join(a, b)` -/
def osJoin (a b : List Char) : List Char :=
  if b.head? = some '/' then b
  else if a = [] ∨ a.getLast? = some '/' then a ++ b
  else a ++ '/' :: b

/-- `Path(root) / rel` (Python 3.12: join the raw strings, then parse) -/
def pjoin (root rel : List Char) : PPath := pparse (osJoin root rel)

/-- `os.path.split(p)`: (head, tail); trailing slashes stripped from head unless it consists of slashes only -/
def osSplit (p : List Char) : List Char × List Char :=
  let tail := (p.reverse.takeWhile (· ≠ '/')).reverse
  let head := (p.reverse.dropWhile (· ≠ '/')).reverse
  let stripped := (head.reverse.dropWhile (· = '/')).reverse
  (if stripped = [] then head else stripped, tail)

/-- where a name / relative directory string leads below the repository directory; `none` = absolute or contains `..` -/
def relPath (s : List Char) : Option Path :=
  let p := pparse s
  if p.anchor ≠ [] ∨ p.parts.any (· = dotdot) then none else some p.parts

/-! ## operations -/

def FS.erase (fs : FS) (p : Path) : FS := { fs with files := aerase fs.files p }
def FS.write (fs : FS) (p : Path) (d : Bytes) : FS := { fs with files := ainsert fs.files p d }
def FS.mkdirs (fs : FS) (ds : List Path) : FS := { fs with dirs := fs.dirs ++ ds.filter (fun d => d ∉ fs.dirs) }

/-- primitive file-system steps of one upload attempt, in program order -/
inductive FsStep
  | mkdirs (ds : List Path)           -- destination.parent.mkdir(parents=True, exist_ok=True)
  | create (tmp : Path)               -- NamedTemporaryFile(..., suffix=Gen.localTempSuffix, delete=False)
  | write (tmp : Path) (d : Bytes)    -- temp.write_bytes / copyfileobj
  | rename (tmp dst : Path)           -- temp.replace(destination)
deriving Repr, DecidableEq

def FS.apply (fs : FS) : FsStep → FS
  | .mkdirs ds => fs.mkdirs ds
  | .create tmp => fs.write tmp []
  | .write tmp d => fs.write tmp d
  | .rename tmp dst =>
    match fs.get tmp with
    | some d => (fs.erase tmp).write dst d
    | none => fs

/-- the temporary sits next to the destination: `<name[:240]>_<random><suffix>` -/
def tempPath (p : Path) (rnd : List Char) : Path :=
  p.dropLast ++ [(p.getLast?.getD []).take 240 ++ '_' :: rnd ++ Gen.localTempSuffix.toList]

def uploadSteps (p : Path) (rnd : List Char) (d : Bytes) : List FsStep :=
  [.mkdirs (ancestors p), .create (tempPath p rnd), .write (tempPath p rnd) d, .rename (tempPath p rnd) p]

/-- the state after the first `k` file-system steps of an upload -/
def uploadState (fs : FS) (p : Path) (rnd : List Char) (d : Bytes) (k : Nat) : FS :=
  ((uploadSteps p rnd d).take k).foldl FS.apply fs

/-- result of a successful upload (all steps applied) -/
def FS.upload (fs : FS) (p : Path) (d : Bytes) : FS := (fs.mkdirs (ancestors p)).write p d

inductive Kind | file | dir | none
deriving Repr, DecidableEq

def FS.kind (fs : FS) (p : Path) : Kind :=
  if fs.blocked p then .none else if fs.isDir p then .dir else if fs.isFile p then .file else .none

/-- remove repeated elements (a directory lists every entry name once) -/
def dedup {α : Type} [DecidableEq α] : List α → List α
  | [] => []
  | x :: xs => if x ∈ xs then dedup xs else x :: dedup xs

/-- names of the entries of directory `d` (each once) -/
def FS.entries (fs : FS) (d : Path) : List Seg :=
  dedup (((fs.files.map (·.1)) ++ fs.dirs).filterMap (fun p => if p ≠ [] ∧ p.dropLast = d then p.getLast? else none))

/-- the files strictly below directory `d` (what `iterative_scandir` yields), as paths relative to `d` -/
def FS.filesUnder (fs : FS) (d : Path) : List Path :=
  (fs.files.map (·.1)).filterMap (fun p => if d.isPrefixOf p ∧ p ≠ d then some (p.drop d.length) else none)

/-- `os.path.join(base, s₁, …)` applied one segment at a time, as `os.scandir` builds entry paths -/
def joinAll (base : List Char) (segs : Path) : List Char := segs.foldl osJoin base

/-- `Local.list_files(prefix)` for the repository spelled `root` -/
def list (root : List Char) (fs : FS) (pfx : List Char) : Ret :=
  let pathLength := (pparse root).str.length
  let sp := osSplit pfx
  match relPath sp.1 with
  | none => .error .unmodelled
  | some rel =>
    let base := (pjoin root sp.1).str       -- os.fspath(self.path / prefix_dirname)
    if fs.kind rel ≠ .dir then .names []    -- os.scandir raises OSError → the generator returns
    else
      let es := (fs.entries rel).filter (fun e => sp.2.isPrefixOf e)
      let paths := es.flatMap (fun e =>
        if fs.isDir (rel ++ [e]) then (fs.filesUnder (rel ++ [e])).map (fun sub => joinAll (osJoin base e) sub)
        else if fs.isFile (rel ++ [e]) then [osJoin base e]
        else [])
      .names ((paths.filter (fun s => !(Gen.localListExcludeSuffix.toList).isSuffixOf s)).map
        (fun s => s.drop (Gen.localSliceFrom pathLength)))

/-- model of the adapter methods; `root` = the connection string -/
def step (root : List Char) (fs : FS) : Op → FS × Ret
  | .list pfx => (fs, list root fs pfx)
  | .upload n d =>
    match relPath n with
    | none => (fs, .error .unmodelled)
    | some p =>
      if p = [] ∨ fs.blocked p ∨ fs.isDir p then (fs, .error .osError)   -- ENOTDIR / EISDIR (temporary removed again)
      else (fs.upload p d, .unit)
  | .uploadStream n d c =>
    match relPath n with
    | none => (fs, .error .unmodelled)
    | some p =>
      if p = [] ∨ fs.blocked p ∨ fs.isDir p then (fs, .error .osError)
      else (fs.upload p (streamed c d), .unit)
  | .delete n =>
    match relPath n with
    | none => (fs, .error .unmodelled)
    | some p =>
      match fs.kind p with
      | .file => (fs.erase p, .unit)
      | .dir => (fs, .error .osError)                               -- EISDIR / EPERM
      | .none => if fs.blocked p then (fs, .error .osError)         -- ENOTDIR is not FileNotFoundError
                 else if Gen.localUnlinkMissingOk then (fs, .unit) else (fs, .error .notFound)
  | .exists_ n =>
    match relPath n with
    | none => (fs, .error .unmodelled)
    | some p => (fs, .bool (fs.kind p ≠ .none))
  | .download n =>
    match relPath n with
    | none => (fs, .error .unmodelled)
    | some p =>
      (fs, match fs.kind p with
        | .file => (match fs.get p with | some d => .bytes d | none => .error .notFound)
        | .dir => .error .osError
        | .none => .error (if fs.blocked p then .osError else .notFound))
  | .downloadStream n c sink =>
    match relPath n with
    | none => (fs, .error .unmodelled)
    | some p =>
      (fs, match fs.kind p with
        | .file => (match fs.get p with | some d => .bytes (sinkAfter sink c d) | none => .error .notFound)
        | .dir => .error .osError
        | .none => .error (if fs.blocked p then .osError else .notFound))

/-- a path segment of an object name: non-empty, no `/`, not `.` or `..` -/
def validSeg (s : Seg) : Bool := s ≠ [] ∧ '/' ∉ s ∧ s ≠ dot ∧ s ≠ dotdot
def validPath (p : Path) : Bool := p ≠ [] ∧ p.all validSeg
/-- object names in canonical form (the name universe of the property) -/
def validName (n : Name) : Bool := validPath (splitSlash n)

/-- the repository location has at least one pathlib part (`str(Path(root))` is not `'.'`, `'/'` or `'//'`) -/
def goodRoot (root : List Char) : Bool := (pparse root).parts ≠ []
/-- the directory part of a listing prefix is a normal relative path: every segment before the last `/` is a valid segment -/
def normalPrefix (pfx : Name) : Bool := (splitSlash pfx).dropLast.all validSeg
/-- the name ends in the suffix the listing excludes -/
def tmpName (n : Name) : Bool := (".tmp".toList).isSuffixOf n

/-- abstraction: the object map a directory tree denotes (objects are addressed by canonical names) -/
def FS.abs (fs : FS) : Spec := fun n => if validName n then fs.get (splitSlash n) else none

end Replicat.LocalFS
