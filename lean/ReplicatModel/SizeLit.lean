import ReplicatModel.Generated
/-!
# The bandwidth limit as the user writes it (`-L / --limit-rate 1.5Mi`) and the transfer piece sizes derived from it

Mirrors, at CHARACTER level, the glue between the command line and `RateLimitedIO`:

* `replicat/utils/cli.py::_rate_limit(value) = _natural_number(human_to_bytes(value))`;
* `replicat/utils/__init__.py::human_to_bytes`: `re.fullmatch(HUMAN_SIZE_REGEX, value)` with
  `HUMAN_SIZE_REGEX = (?P<value>([\d]*[.])?[\d]+)\s*?(?P<prefix>k|K|Ki|…)?(?P<unit>[Bb])?`, then
  `Decimal(value) [* PREFIXES_TABLE[prefix]] [* UNITS_TABLE[unit]]` under the default 28-digit context, then `int()`;
* `max(rate_limit // (self._concurrent * 16), 1)` in `Repository.snapshot / restore / upload_objects / download_objects`.

Everything table-like comes from `Replicat.Gen` (regenerated from the source and from the interpreter that runs replicat):
`Gen.sizePrefixes` (dict order = alternation order), `Gen.sizeUnits`, `Gen.decimalPrec`, `Gen.decimalZeros` / `Gen.spaceChars`
(the classes `\d` / `\s` of `re` for `str` patterns — Unicode, not only ASCII; `Decimal` accepts exactly the same digits),
`Gen.pieceSites`.  The regex itself is extracted as a token list (`Gen.sizeRegex`) and compared with `expectedRegex`,
the shape this parser was written from (`Properties/C20.lean: size_literal_source_facts`).

**Coverage.**  `parse` decides EVERY string (a code point the real code would see as a lone surrogate is passed as NUL:
both are "any other character").  `bytesDec` follows the `Decimal` arithmetic step by step (exact product, then rounding
half-even to `Gen.decimalPrec` significant digits, per multiplication), so it is the real result also where that
arithmetic is NOT exact; `bytes` is the exact value ⌊mantissa · prefix · unit⌋.  They agree under `exactGuard`
(`coefficient · prefix · unit-coefficient < 10^28`, or no multiplication at all).  Not modelled: the exponent limits of the
context (`Emax = 999999`: a literal of about a million digits; `execve` limits one argument to 131072 bytes).

Where Python raises the model returns an explicit error (`Reject`, `PieceErr`); nothing defaults.
-/
namespace Replicat.SizeLit
open Replicat

/-- results are compared by `decide` in witnesses (core has no `DecidableEq (Except ε α)`) -/
scoped instance instDecEqExcept {ε α : Type} [DecidableEq ε] [DecidableEq α] : DecidableEq (Except ε α)
  | .ok a, .ok b => if h : a = b then isTrue (h ▸ rfl) else isFalse (fun e => h (Except.ok.inj e))
  | .error a, .error b => if h : a = b then isTrue (h ▸ rfl) else isFalse (fun e => h (Except.error.inj e))
  | .ok _, .error _ => isFalse (fun e => nomatch e)
  | .error _, .ok _ => isFalse (fun e => nomatch e)

/-! ## character classes -/

/-- value of a decimal digit by code point: the blocks of ten of `Gen.decimalZeros` -/
def digitValN (n : Nat) : Option Nat :=
  match Gen.decimalZeros.find? (fun z => decide (z ≤ n ∧ n < z + 10)) with
  | some z => some (n - z)
  | none => none

/-- `\d` of `re` (str pattern) and `Py_UNICODE_TODECIMAL` of `Decimal` -/
def digitVal (c : Char) : Option Nat := digitValN c.toNat

/-- `\s` of `re` (str pattern) -/
def isSpaceN (n : Nat) : Bool := Gen.spaceChars.contains n
def isSpace (c : Char) : Bool := isSpaceN c.toNat

/-! ## literals -/

/-- what the three named groups of the regex hold after a successful `fullmatch`, with the table rows they select -/
structure Lit where
  /-- digits before the point (all digits when there is no point) -/
  ip : List Nat
  /-- digits after the point; `none` = no point -/
  fp : Option (List Nat)
  /-- number of white-space characters between value and prefix/unit -/
  ws : Nat
  /-- row of `PREFIXES_TABLE` -/
  pre : Option (List Char × Nat)
  /-- row of `UNITS_TABLE`: key, coefficient, scale -/
  unit : Option (Char × Nat × Nat)
  deriving DecidableEq, Repr

/-- the literals: digits are digits, `[\d]+` is not empty, the rows are rows of the tables -/
def Lit.WF (l : Lit) : Prop :=
  (∀ d ∈ l.ip, d < 10) ∧
  (match l.fp with | none => l.ip ≠ [] | some f => f ≠ [] ∧ ∀ d ∈ f, d < 10) ∧
  (match l.pre with | none => True | some p => p ∈ Gen.sizePrefixes) ∧
  (match l.unit with | none => True | some u => u ∈ Gen.sizeUnits)

instance (l : Lit) : Decidable l.WF := by
  unfold Lit.WF
  cases l.fp <;> cases l.pre <;> cases l.unit <;> exact inferInstance

def keyChars : Option (List Char × Nat) → List Char
  | none => []
  | some p => p.1

def unitChars : Option (Char × Nat × Nat) → List Char
  | none => []
  | some u => [u.1]

def digitChar (d : Nat) : Char := Char.ofNat (48 + d)

def fracChars : Option (List Nat) → List Char
  | none => []
  | some f => '.' :: f.map digitChar

/-- canonical spelling: ASCII digits, `.`, ASCII spaces, the table keys -/
def render (l : Lit) : List Char :=
  l.ip.map digitChar ++ fracChars l.fp ++ List.replicate l.ws ' ' ++ keyChars l.pre ++ unitChars l.unit

/-! ## the regex under `fullmatch` -/

/-- `[\d]*` / `[\d]+`: the longest run of digits (the tail of the pattern never starts with a digit, so giving digits
back cannot help — `tail_never_starts_with_digit` in the lemmas) -/
def takeDigits : List Char → List Nat × List Char
  | [] => ([], [])
  | c :: cs =>
    match digitVal c with
    | some d => let r := takeDigits cs; (d :: r.1, r.2)
    | none => ([], c :: cs)

/-- `(?P<value>([\d]*[.])?[\d]+)`: digits, then either `.` and at least one digit, or (no point) at least one digit.
`1.` and `1.k` do not match: after `[\d]*[.]` the `[\d]+` fails, and without the optional group the rest starts with `.` -/
def parseValue (s : List Char) : Option (List Nat × Option (List Nat) × List Char) :=
  match (takeDigits s).2 with
  | c :: r =>
    if c = '.' then
      if (takeDigits r).1 = [] then none else some ((takeDigits s).1, some (takeDigits r).1, (takeDigits r).2)
    else if (takeDigits s).1 = [] then none else some ((takeDigits s).1, none, c :: r)
  | [] => if (takeDigits s).1 = [] then none else some ((takeDigits s).1, none, [])

def stripPrefix : List Char → List Char → Option (List Char)
  | [], s => some s
  | _ :: _, [] => none
  | p :: ps, c :: cs => if p = c then stripPrefix ps cs else none

/-- `(?P<unit>[Bb])?` followed by the end of the string (greedy: the unit first) -/
def matchUnitEnd : List Char → Option (Option (Char × Nat × Nat))
  | [] => some none
  | [c] =>
    match Gen.sizeUnits.find? (fun u => u.1 == c) with
    | some u => some (some u)
    | none => none
  | _ :: _ :: _ => none

/-- one alternative of the prefix group, followed by the rest of the pattern up to the end of the string -/
def tryPrefix (s : List Char) (p : List Char × Nat) : Option (Option (List Char × Nat) × Option (Char × Nat × Nat)) :=
  match stripPrefix p.1 s with
  | some r => (matchUnitEnd r).map (fun u => (some p, u))
  | none => none

/-- `(?P<prefix>k|K|Ki|…)?(?P<unit>[Bb])?$`: the optional group is greedy — the alternatives are tried in table order, each
followed by the rest of the pattern up to the end of the string (so `Ki` is reached after `K` failed on the `i`); only then
the group is skipped -/
def matchTail (s : List Char) : Option (Option (List Char × Nat) × Option (Char × Nat × Nat)) :=
  match Gen.sizePrefixes.findSome? (tryPrefix s) with
  | some x => some x
  | none => (matchUnitEnd s).map (fun u => (none, u))

/-- `\s*?` (lazy) followed by the tail: first without consuming, then one more white-space character at a time -/
def matchWsTail : List Char → Option (Nat × Option (List Char × Nat) × Option (Char × Nat × Nat))
  | [] => (matchTail []).map (fun x => (0, x.1, x.2))
  | c :: cs =>
    match matchTail (c :: cs) with
    | some x => some (0, x.1, x.2)
    | none => if isSpace c then (matchWsTail cs).map (fun x => (x.1 + 1, x.2.1, x.2.2)) else none

/-- `re.fullmatch(HUMAN_SIZE_REGEX, value)` and `groupdict()` -/
def parse (s : List Char) : Option Lit :=
  match parseValue s with
  | none => none
  | some (ip, fp, r) =>
    match matchWsTail r with
    | none => none
    | some (n, p, u) => some ⟨ip, fp, n, p, u⟩

/-! ## the value -/

def digitsToNat (ds : List Nat) : Nat := ds.foldl (fun acc d => 10 * acc + d) 0

def fracDigits : Option (List Nat) → List Nat
  | none => []
  | some f => f

/-- coefficient of `Decimal(groups['value'])`: all digits as one integer (leading zeros vanish) -/
def Lit.coeff (l : Lit) : Nat := digitsToNat (l.ip ++ fracDigits l.fp)
/-- minus its exponent: the number of digits after the point -/
def Lit.scale (l : Lit) : Nat := (fracDigits l.fp).length
def Lit.mult (l : Lit) : Nat := match l.pre with | none => 1 | some p => p.2
def Lit.unitCoeff (l : Lit) : Nat := match l.unit with | none => 1 | some u => u.2.1
def Lit.unitScale (l : Lit) : Nat := match l.unit with | none => 0 | some u => u.2.2

/-- the exact value in bytes per second: mantissa · prefix · unit -/
def ratValue (l : Lit) : Rat :=
  (l.coeff : Rat) / ((10 ^ l.scale : Nat) : Rat) * (l.mult : Rat) * ((l.unitCoeff : Rat) / ((10 ^ l.unitScale : Nat) : Rat))

/-- ⌊mantissa · prefix · unit⌋ in integer arithmetic -/
def bytes (l : Lit) : Nat := (l.coeff * l.mult * l.unitCoeff) / 10 ^ (l.scale + l.unitScale)

/-! ### `Decimal` arithmetic of the default context -/

/-- a non-negative finite `Decimal`: coefficient · 10^exp -/
structure Dec where
  coeff : Nat
  exp : Int
  deriving DecidableEq, Repr

def ndigitsAux : Nat → Nat → Nat
  | 0, _ => 0
  | f + 1, n => if n = 0 then 0 else 1 + ndigitsAux f (n / 10)

/-- number of decimal digits of `n` (0 for 0); the fuel `log2 n + 1` is never exhausted (`ndigits_spec`) -/
def ndigits (n : Nat) : Nat := ndigitsAux (Nat.log2 n + 1) n

/-- the context's rounding after an operation: at most `prec` significant digits, ROUND_HALF_EVEN; a carry to
`10^prec` is renormalised to `10^(prec-1)` with the exponent one up, as libmpdec does -/
def roundCtx (prec : Nat) (d : Dec) : Dec :=
  if d.coeff < 10 ^ prec then d else
    let k := ndigits d.coeff - prec
    let q := d.coeff / 10 ^ k
    let r := d.coeff % 10 ^ k
    let half := 10 ^ k / 2
    let q' := if half < r ∨ (r = half ∧ q % 2 = 1) then q + 1 else q
    if q' = 10 ^ prec then ⟨10 ^ (prec - 1), d.exp + k + 1⟩ else ⟨q', d.exp + k⟩

/-- `Decimal.__mul__` under the context: exact product, then `roundCtx` -/
def Dec.mul (prec : Nat) (a b : Dec) : Dec := roundCtx prec ⟨a.coeff * b.coeff, a.exp + b.exp⟩

/-- `int(Decimal)`: truncation (the value is never negative) -/
def Dec.toNat (d : Dec) : Nat :=
  if 0 ≤ d.exp then d.coeff * 10 ^ d.exp.toNat else d.coeff / 10 ^ (-d.exp).toNat

/-- `Decimal(groups['value'])` — exact, whatever the number of digits -/
def decOfLit (l : Lit) : Dec := ⟨l.coeff, -(l.scale : Int)⟩

/-- `human_to_bytes` after the match, step by step as the code does it: `*=` only for the groups that are present -/
def bytesDec (l : Lit) : Nat :=
  let d0 := decOfLit l
  let d1 := match l.pre with
    | none => d0
    | some p => Dec.mul Gen.decimalPrec d0 ⟨p.2, 0⟩
  let d2 := match l.unit with
    | none => d1
    | some u => Dec.mul Gen.decimalPrec d1 ⟨u.2.1, -(u.2.2 : Int)⟩
  d2.toNat

/-- the literals on which the 28-digit arithmetic is exact: nothing is multiplied, or the exact product of the
coefficients still fits the precision (no rounding happens at either multiplication) -/
def exactGuard (l : Lit) : Prop :=
  (l.pre = none ∧ l.unit = none) ∨ l.coeff * l.mult * l.unitCoeff < 10 ^ Gen.decimalPrec

instance (l : Lit) : Decidable (exactGuard l) := by unfold exactGuard; exact inferInstance

/-! ## the option type function -/

/-- both are `ValueError` in Python (argparse: "invalid _rate_limit value") -/
inductive Reject where
  /-- `human_to_bytes`: `re.fullmatch` returned `None` -/
  | noMatch
  /-- `_natural_number`: `int(value) < 1` -/
  | notNatural
  deriving DecidableEq, Repr

/-- `_rate_limit(value) = _natural_number(human_to_bytes(value))` -/
def rateLimit (s : List Char) : Except Reject Nat :=
  match parse s with
  | none => .error .noMatch
  | some l => if bytesDec l < 1 then .error .notNatural else .ok (bytesDec l)

/-- where the limit of a command comes from: only the command line (`Gen.rateLimitFromFile = false`,
`Gen.rateLimitFromEnv = false`: a `limit-rate` key in the configuration file is an unrecognised option, no environment
variable is read); an absent option is `None` = no limiter.  `cli` is the text argparse hands to the option's `type=`
function; argparse itself is not modelled (observed with CPython 3.12.1: the one argument `--`, written as
`--limit-rate=--` or `-L--`, is consumed by argparse before the type function runs and the command dies with a `TypeError`) -/
def limitOfCommand (cli : Option (List Char)) : Except Reject (Option Nat) :=
  match cli with
  | none => .ok none
  | some s => match rateLimit s with
    | .ok n => .ok (some n)
    | .error e => .error e

/-! ## transfer piece size -/

inductive PieceErr where
  /-- `rate_limit // 0` -/
  | zeroDivision
  /-- the extractor did not recognise the expression -/
  | malformed
  deriving DecidableEq, Repr

def stepPiece (limit conc : Nat) (st : Except PieceErr (List Nat)) (t : Gen.PieceTok) : Except PieceErr (List Nat) :=
  match st with
  | .error e => .error e
  | .ok stack =>
    match t, stack with
    | .limit, s => .ok (limit :: s)
    | .conc, s => .ok (conc :: s)
    | .lit n, s => .ok (n :: s)
    | .mul, b :: a :: s => .ok ((a * b) :: s)
    | .add, b :: a :: s => .ok ((a + b) :: s)
    | .floordiv, b :: a :: s => if b = 0 then .error .zeroDivision else .ok ((a / b) :: s)
    | .max2, b :: a :: s => .ok ((max a b) :: s)
    | .min2, b :: a :: s => .ok ((min a b) :: s)
    | _, _ => .error .malformed

/-- value of an extracted (postfix) integer expression over `rate_limit` and `self._concurrent` -/
def evalPiece (toks : List Gen.PieceTok) (limit conc : Nat) : Except PieceErr Nat :=
  match toks.foldl (stepPiece limit conc) (.ok []) with
  | .ok [v] => .ok v
  | .ok _ => .error .malformed
  | .error e => .error e

/-- the piece size a command hands to `upload_stream` / `download_stream` when a limit is given -/
def pieceSize (site : String) (limit conc : Nat) : Except PieceErr Nat :=
  match Gen.pieceSites.find? (fun s => s.1 == site) with
  | none => .error .malformed
  | some s => evalPiece s.2 limit conc

/-- the expression the theorems were proved for: `max(rate_limit // (self._concurrent * 16), 1)` -/
def expectedPiece : List Gen.PieceTok := [.limit, .conc, .lit 16, .mul, .floordiv, .lit 1, .max2]

/-! ## the shape of the regex this parser was written from -/

def altTokens (p : List Char) : List Gen.SizeReTok :=
  (if p.length = 1 then [] else [.seq p.length]) ++ p.map (fun c => .chr c.toNat)

/-- `(?P<value>([\d]*[.])?[\d]+)\s*?(?P<prefix>…|…)?(?P<unit>[…])?` as CPython's parser reports it, for given tables -/
def expectedRegex (prefixes : List (List Char)) (units : List Char) : List Gen.SizeReTok :=
  [.seq 4, .grp 1, .seq 2, .opt, .grp 2, .seq 2, .star, .digit, .chr 46, .plus, .digit, .lazyStar, .space,
   .opt, .grp 3, .alt prefixes.length] ++ prefixes.flatMap altTokens ++ [.opt, .grp 4, .set (units.map (·.toNat))]

end Replicat.SizeLit
