import ReplicatModel.Basic
import ReplicatModel.Generated
import ReplicatModel.Paging
/-!
# Backends as object stores: specification and the S3 / B2 adapter models

* `Spec` — the specification of C13: a plain map `Name → Option Bytes`; `SpecStep` says what each backend operation must
  return and how it must change the map (listing: exactly the live names with the prefix, each once, any order).
* `MapStore` — the executable form of the specification (association list), run by the driver next to the adapters.
* `S3` — model of `replicat/backends/s3c.py` against an S3 service: PUT replaces, DELETE answers 204 also for a missing
  key, HEAD/GET answer `Gen.s3ExistsFalseStatus` (404) for a missing key, `list_files` = the paging loop of `Paging.lean`.
  Object requests go through `s3Addr`: the adapter signs the quoted path, httpx then removes `.`/`..` segments, so for such
  names the signed and the sent path differ and a conformant service answers 403.
* `B2` — model of `replicat/backends/b2.py` against the B2 native API: per name a stack of versions (uploads and hide
  markers); upload pushes a version; `delete` = `b2_hide_file`, whose 400 `already_hidden` / `no_such_file` answers are
  tolerated iff listed in `Gen.b2ToleratedHideCodes`; download/HEAD by name see the newest version if it is an upload;
  `b2_list_file_names` returns the names whose newest version is an upload.  `exists`/`download` put the *unquoted* name into
  the URL (`b2Addr`): httpx cuts it at `?`/`#` and removes dot segments, B2 decodes `%XX` and `+`.

Streamed variants: `upload_stream` sends the chunks `chunksOf c d` of the payload (`iter(lambda: read(c), b'')`),
`download_stream` truncates the sink to the object length and writes the chunks from position 0.
-/
namespace Replicat.Store
open Replicat Replicat.Paging

/-! ## the specification -/
abbrev Spec := Name → Option Bytes

def Spec.empty : Spec := fun _ => none
def Spec.put (m : Spec) (n : Name) (d : Bytes) : Spec := fun k => if k = n then some d else m k
def Spec.del (m : Spec) (n : Name) : Spec := fun k => if k = n then none else m k

inductive Err
  | notFound      -- the object does not exist (HTTP 404 / FileNotFoundError)
  | forbidden     -- the service rejected the request (403)
  | osError       -- another OSError of the file system
  | http (status : Nat) (code : String)
  | fuel          -- a model loop ran out of fuel (proved impossible)
  | unmodelled    -- input outside the modelled region (see the model's documentation)
deriving Repr, DecidableEq

/-- return values of backend calls -/
inductive Ret
  | unit
  | bool (b : Bool)
  | bytes (d : Bytes)
  | names (l : List Name)
  | error (e : Err)
deriving Repr, DecidableEq

/-- the operations of `Backend` (replicat/backends/base.py).  `chunk` = chunk size of the streamed variants,
`sink` = previous content of the sink stream of `download_stream` (position 0). -/
inductive Op
  | upload (n : Name) (d : Bytes)
  | uploadStream (n : Name) (d : Bytes) (chunk : Nat)
  | delete (n : Name)
  | exists_ (n : Name)
  | download (n : Name)
  | downloadStream (n : Name) (chunk : Nat) (sink : Bytes)
  | list (pfx : Name)
deriving Repr, DecidableEq

/-- the name an operation addresses (none for listings) -/
def Op.name? : Op → Option Name
  | .upload n _ | .uploadStream n _ _ | .delete n | .exists_ n | .download n | .downloadStream n _ _ => some n
  | .list _ => none

/-- what the specification demands of one operation: new map and return value -/
def SpecStep (m : Spec) : Op → Spec → Ret → Prop
  | .upload n d, m', r => m' = m.put n d ∧ r = .unit
  | .uploadStream n d _, m', r => m' = m.put n d ∧ r = .unit
  | .delete n, m', r => m' = m.del n ∧ r = .unit
  | .exists_ n, m', r => m' = m ∧ r = .bool (m n).isSome
  | .download n, m', r => m' = m ∧ r = (match m n with | some d => .bytes d | none => .error .notFound)
  | .downloadStream n _ _, m', r => m' = m ∧ r = (match m n with | some d => .bytes d | none => .error .notFound)
  | .list pfx, m', r => m' = m ∧ ∃ l, r = .names l ∧ l.Nodup ∧ ∀ n, n ∈ l ↔ (m n).isSome = true ∧ pfx <+: n

/-- a history against the specification: the maps and return values chain -/
inductive SpecRun : Spec → List Op → Spec → List Ret → Prop
  | nil (m : Spec) : SpecRun m [] m []
  | cons {m m1 m2 : Spec} {op : Op} {ops : List Op} {r : Ret} {rs : List Ret}
      (h : SpecStep m op m1 r) (t : SpecRun m1 ops m2 rs) : SpecRun m (op :: ops) m2 (r :: rs)

/-! ## streams -/

/-- `iter(lambda: stream.read(c), b'')`: the pieces an upload sends (needs fuel only for `c = 0`, where Python's
`read(0)` returns `b''` at once and nothing is sent) -/
def chunksOf (c : Nat) : Nat → Bytes → List Bytes
  | 0, _ => []
  | fuel + 1, d => if c = 0 ∨ d = [] then [] else d.take c :: chunksOf c fuel (d.drop c)

/-- the bytes that arrive at the service for a streamed upload -/
def streamed (c : Nat) (d : Bytes) : Bytes := (chunksOf c (d.length + 1) d).flatten

/-- write `piece` at position `pos` into `buf` (Python `BytesIO.write`: overwrite, extend if needed) -/
def writeAt (buf : Bytes) (pos : Nat) (piece : Bytes) : Bytes :=
  buf.take pos ++ piece ++ buf.drop (pos + piece.length)

/-- `download_stream`: `stream.truncate(length)`, then every chunk is written at the running position, starting at 0 -/
def sinkAfter (sink : Bytes) (c : Nat) (d : Bytes) : Bytes :=
  ((chunksOf c (d.length + 1) d).foldl (fun (acc : Bytes × Nat) piece => (writeAt acc.1 acc.2 piece, acc.2 + piece.length))
    (sink.take d.length, 0)).1

/-! ## association lists (used for the object table, the B2 version table and the file table) -/
def alookup {κ β : Type} [DecidableEq κ] : List (κ × β) → κ → Option β
  | [], _ => none
  | (k, v) :: l, n => if k = n then some v else alookup l n

def aerase {κ β : Type} [DecidableEq κ] : List (κ × β) → κ → List (κ × β)
  | [], _ => []
  | (k, v) :: l, n => if k = n then aerase l n else (k, v) :: aerase l n

def ainsert {κ β : Type} [DecidableEq κ] (l : List (κ × β)) (n : κ) (v : β) : List (κ × β) := (n, v) :: aerase l n

/-! ## executable specification: association list -/
abbrev MapStore := List (Name × Bytes)

def MapStore.get (s : MapStore) (n : Name) : Option Bytes := alookup s n
def MapStore.erase (s : MapStore) (n : Name) : MapStore := aerase s n
def MapStore.put (s : MapStore) (n : Name) (d : Bytes) : MapStore := ainsert s n d
def MapStore.keys (s : MapStore) : List Name := s.map (·.1)
def MapStore.abs (s : MapStore) : Spec := s.get
/-- invariant: every key once -/
def MapStore.Inv (s : MapStore) : Prop := s.keys.Nodup

def MapStore.step (s : MapStore) : Op → MapStore × Ret
  | .upload n d => (s.put n d, .unit)
  | .uploadStream n d _ => (s.put n d, .unit)
  | .delete n => (s.erase n, .unit)
  | .exists_ n => (s, .bool (s.get n).isSome)
  | .download n => (s, match s.get n with | some d => .bytes d | none => .error .notFound)
  | .downloadStream n _ _ => (s, match s.get n with | some d => .bytes d | none => .error .notFound)
  | .list pfx => (s, .names (s.keys.filter (fun k => pfx.isPrefixOf k)))

/-! ## URL handling shared by S3 and B2 -/

/-- split at `/` (Python `str.split('/')`) -/
def splitSlash : List Char → List (List Char)
  | [] => [[]]
  | c :: cs =>
    if c = '/' then [] :: splitSlash cs
    else match splitSlash cs with
      | [] => [[c]]
      | s :: ss => (c :: s) :: ss

def joinSlash : List (List Char) → List Char
  | [] => []
  | [s] => s
  | s :: t :: ss => s ++ '/' :: joinSlash (t :: ss)

def dot : List Char := ['.']
def dotdot : List Char := ['.', '.']

/-- the name has a `.` or `..` path segment (what `httpx` removes from a URL path) -/
def hasDotSegment (n : Name) : Bool := (splitSlash n).any (fun s => s = dot ∨ s = dotdot)

/-- httpx `normalize_path` on the components of an absolute URL path -/
def normalizeComponents (comps : List (List Char)) : List (List Char) :=
  comps.foldl (fun out c =>
    if c = dot then out
    else if c = dotdot then (if out ≠ [] ∧ out ≠ [[]] then out.dropLast else out)
    else out ++ [c]) []

/-! ## S3 -/
/-- state of the S3 service: the bucket's key → bytes table -/
abbrev S3 := MapStore

/-- object requests: the adapter signs `quote('/bucket/name')`; httpx sends the path with dot segments removed, so for a
name with a `.`/`..` segment the signature no longer matches what the service receives (403, not retried).  Every other
character is percent-quoted by the adapter and decoded by the service. -/
def s3Guard (s : S3) (n : Name) (k : S3 × Ret) : S3 × Ret :=
  if hasDotSegment n then (s, .error .forbidden) else k

/-- model of the adapter methods against the service; `ps` = page size of the service (≥ 1) -/
def S3.step (ps : Nat) (s : S3) : Op → S3 × Ret
  | .upload n d => s3Guard s n (s.put n d, .unit)
  | .uploadStream n d c => s3Guard s n (s.put n (streamed c d), .unit)
  | .delete n => s3Guard s n (s.erase n, .unit)      -- DELETE answers 204 whether or not the key exists
  | .exists_ n => s3Guard s n (s, .bool (s.get n).isSome)   -- HEAD: 200 → True, `Gen.s3ExistsFalseStatus` → False
  | .download n => s3Guard s n (s, match s.get n with | some d => .bytes d | none => .error .notFound)
  | .downloadStream n c sink =>
    s3Guard s n (s, match s.get n with | some d => .bytes (sinkAfter sink c d) | none => .error .notFound)
  | .list pfx =>
    let keys := s.keys.filter (fun k => pfx.isPrefixOf k)
    (s, match s3List (s3Serve ps keys) (keys.length + 1) with
        | some l => .names l
        | none => .error .fuel)

/-- number of list requests the adapter sends for a listing (tie: compared with what the fake service saw) -/
def S3.listRequests (ps : Nat) (s : S3) (pfx : Name) : Nat :=
  let keys := s.keys.filter (fun k => pfx.isPrefixOf k)
  s3Requests (s3Serve ps keys) (keys.length + 1) ⟨Gen.s3LoopStartsTruncated, none⟩

/-! ## S3 and the wall clock

Every S3 request carries three things that depend on the time: the `x-amz-date` header, the date in the credential scope, and
the signing key (derived from a date).  `_prepare_request` reads the clock once per request and derives all three from that
one reading (`s3Stamp`); the adapter object keeps nothing time-dependent between requests.  The service (`s3Accepts`)
re-derives the signing key from the credential-scope date, so the signature matches iff the client's key was derived from the
same date; it insists that the scope date is the date of `x-amz-date`; and it rejects a request whose `x-amz-date` is more
than `skew` seconds (S3: 900) away from its own clock.  Times are whole seconds since the epoch, UTC. -/
abbrev Time := Nat

/-- the UTC calendar day a time falls on (days since the epoch) -/
def utcDay (t : Time) : Nat := t / 86400

/-- what the SigV4 material of one request says about time -/
structure Stamp where
  amz : Time        -- `x-amz-date`
  scopeDay : Nat    -- the date in the credential scope
  keyDay : Nat      -- the date the signing key was derived from
deriving Repr, DecidableEq

/-- `_prepare_request` at clock reading `now` -/
def s3Stamp (now : Time) : Stamp := { amz := now, scopeDay := utcDay now, keyDay := utcDay now }

/-- two clock readings are at most `skew` seconds apart -/
def withinSkew (skew : Nat) (a b : Time) : Bool := decide (a ≤ b + skew) && decide (b ≤ a + skew)

/-- the service's verdict on the time-dependent part of a request, its own clock showing `server` -/
def s3Accepts (skew : Nat) (server : Time) (st : Stamp) : Bool :=
  decide (st.scopeDay = utcDay st.amz) && decide (st.keyDay = st.scopeDay) && withinSkew skew st.amz server

/-- an operation together with the two clocks: the adapter's when it prepares the request(s) of the call, the service's when
they arrive.  Nothing is assumed about successive readings (a clock may stand still, jump days ahead, or step back). -/
structure Timed where
  client : Time
  server : Time
  op : Op
deriving Repr, DecidableEq

/-- one adapter call at the given clock readings: a request the service rejects for its time stamp is answered 403, which the
adapter does not retry (`giveup=_check_403`) -/
def S3.stepT (skew ps : Nat) (s : S3) (t : Timed) : S3 × Ret :=
  if s3Accepts skew t.server (s3Stamp t.client) then S3.step ps s t.op else (s, .error .forbidden)

/-- a history of one long-lived adapter object under a clock schedule -/
def S3.runT (skew ps : Nat) : S3 → List Timed → S3 × List Ret
  | s, [] => (s, [])
  | s, t :: ts =>
    let r := S3.stepT skew ps s t
    let rest := S3.runT skew ps r.1 ts
    (rest.1, r.2 :: rest.2)

/-! ## B2 -/
inductive Ver
  | up (d : Bytes)
  | hide
deriving Repr, DecidableEq

/-- state of the B2 service: per file name its versions, newest first -/
abbrev B2 := List (Name × List Ver)

def B2.versions (s : B2) (n : Name) : List Ver := (alookup s n).getD []
def B2.setVersions (s : B2) (n : Name) (vs : List Ver) : B2 := ainsert s n vs
/-- the newest version, if it is an upload -/
def headUp : List Ver → Option Bytes
  | .up d :: _ => some d
  | _ => none
/-- what download / HEAD by name see: the newest version if it is an upload -/
def B2.visible (s : B2) (n : Name) : Option Bytes := headUp (s.versions n)
def B2.abs (s : B2) : Spec := s.visible
def B2.Inv (s : B2) : Prop := (s.map (·.1)).Nodup
/-- names returned by `b2_list_file_names`: newest version is an upload -/
def B2.liveNames (s : B2) : List Name :=
  (s.filter (fun e => (headUp e.2).isSome)).map (·.1)

/-- `b2_hide_file` on the service: status, error code, new state -/
def B2.hideFile (s : B2) (n : Name) : B2 × Option (Nat × String) :=
  match s.versions n with
  | [] => (s, some (400, "no_such_file"))
  | .hide :: _ => (s, some (400, "already_hidden"))
  | .up d :: vs => (s.setVersions n (.hide :: .up d :: vs), none)

/-- the name a download-by-name URL reaches: the adapter puts the raw name into `…/file/<bucket>/<name>`; httpx ends the path
at the first `?` or `#` and removes dot segments; B2 percent-decodes and reads `+` as a space.  `none` = the request does not
reach this bucket or needs percent-decoding (`%`, `+`), which the model does not describe. -/
def b2Addr (n : Name) : Option Name :=
  let cut := n.takeWhile (fun c => c ≠ '?' ∧ c ≠ '#')
  if cut.any (fun c => c = '%' ∨ c = '+') then none
  else
    let comps := normalizeComponents ([[], "file".toList, "bucket".toList] ++ splitSlash cut)
    match comps with
    | [] :: f :: b :: rest => if f = "file".toList ∧ b = "bucket".toList ∧ rest ≠ [] then some (joinSlash rest) else none
    | _ => none

def B2.step (ps : Nat) (s : B2) : Op → B2 × Ret
  | .upload n d => (s.setVersions n (.up d :: s.versions n), .unit)
  | .uploadStream n d c => (s.setVersions n (.up (streamed c d) :: s.versions n), .unit)
  | .delete n =>
    match s.hideFile n with
    | (s', none) => (s', .unit)
    | (s', some (status, code)) =>
      if status = Gen.b2ToleratedHideStatus ∧ code ∈ Gen.b2ToleratedHideCodes then (s', .unit)
      else (s', .error (.http status code))
  | .exists_ n =>
    match b2Addr n with
    | none => (s, .error .unmodelled)
    | some a => (s, .bool (s.visible a).isSome)
  | .download n =>
    match b2Addr n with
    | none => (s, .error .unmodelled)
    | some a => (s, match s.visible a with | some d => .bytes d | none => .error .notFound)
  | .downloadStream n c sink =>
    match b2Addr n with
    | none => (s, .error .unmodelled)
    | some a => (s, match s.visible a with | some d => .bytes (sinkAfter sink c d) | none => .error .notFound)
  | .list pfx =>
    let names := s.liveNames.filter (fun k => pfx.isPrefixOf k)
    (s, match b2List (b2Serve ps names) (names.length + 1) with
        | some l => .names l
        | none => .error .fuel)

def B2.listRequests (ps : Nat) (s : B2) (pfx : Name) : Nat :=
  let names := s.liveNames.filter (fun k => pfx.isPrefixOf k)
  b2Requests (b2Serve ps names) (names.length + 1) none

/-- run a history -/
def runHistory {σ : Type} (step : σ → Op → σ × Ret) : σ → List Op → σ × List Ret
  | s, [] => (s, [])
  | s, op :: ops =>
    let r := step s op
    let rest := runHistory step r.1 ops
    (rest.1, r.2 :: rest.2)

end Replicat.Store
