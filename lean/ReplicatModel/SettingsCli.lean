import ReplicatModel.Settings
/-!
# C17 — custom settings written on the command line

`replicat init … --encryption.kdf.n 16 --chunking.min-length 1000 --hashing.name blake2b`

Executable model of the glue between the command line and `Repository.init(settings=…)`:

* `parseWith` / `parseCliSettings` — `replicat/utils/cli.py::parse_cli_settings`, the loop as written (pending flag,
  flag after flag, value without flag, trailing flag, repeated flag: last wins; key normalisation interpreted from the
  extracted method chain `Gen.cliKeyOps`);
* `guessType`            — `replicat/utils/__init__.py::guess_type` on a DECIDABLE FRAGMENT of texts (see `guessType`),
                           `Guess.unmodelled` outside of it;
* `flatToNested`         — `replicat/utils/__init__.py::flat_to_nested`: items of the dict sorted as Python sorts `str`
                           (lexicographic by code point), split on `Gen.flatSep`, `setdefault` descent, `Conflicting options`
                           when the descent or the final item assignment hits a scalar;
* `cliMain`              — the part of `replicat/__main__.py::main` after the second parse (`Gen.mainCliChain`).

Texts are `Str = List Char` (a Python `str` is a sequence of code points; lone surrogates — undecodable bytes of `argv` —
are outside the universe).  `…S` wrappers take `String`.  Core Lean only.
-/
namespace Replicat.SettingsCli
open Replicat.Gen

abbrev Str := List Char

/-! ## `parse_cli_settings` -/

/-- `arg.startswith('--')` (prefix regenerated from the source) -/
def isFlag (a : Str) : Bool := cliFlagPrefix.isPrefixOf a

/-- `s.lstrip(chars)` -/
def lstripChars (chars : List Char) : Str → Str
  | [] => []
  | c :: cs => if chars.contains c then lstripChars chars cs else c :: cs

/-- `s.replace(a, b)` for single characters -/
def replaceChar (a b : Char) (s : Str) : Str := s.map (fun c => if c = a then b else c)

def applyKeyOp (s : Str) : CliKeyOp → Str
  | .lstrip chars => lstripChars chars s
  | .replace a b => replaceChar a b s
  | .other _ => s

/-- `key = flag.lstrip('-').replace('-', '_')` — the extracted method chain, applied left to right -/
def normKey (flag : Str) : Str := cliKeyOps.foldl applyKeyOp flag

/-- `d[k] = v` on a dict kept as an association list in insertion order: an existing key keeps its position -/
def dictSet {γ : Type} (m : List (Str × γ)) (k : Str) (v : γ) : List (Str × γ) :=
  match m with
  | [] => [(k, v)]
  | (k', v') :: rest => if k' = k then (k, v) :: rest else (k', v') :: dictSet rest k v

def dictGet {γ : Type} (m : List (Str × γ)) (k : Str) : Option γ :=
  match m with
  | [] => none
  | (k', v') :: rest => if k' = k then some v' else dictGet rest k

def pushPending (u : List Str) : Option Str → List Str
  | some f => u ++ [f]
  | none => u

/-- the loop of `parse_cli_settings`, statement by statement: `flag` = the pending flag, `m` = `mapping`, `u` = `unknown`;
`g` = the coercion applied to a value (`guess_type`) -/
def parseLoop {β : Type} (g : Str → β) : List Str → Option Str → List (Str × β) → List Str → List (Str × β) × List Str
  | [], flag, m, u => (m, pushPending u flag)
  | arg :: rest, flag, m, u =>
    if isFlag arg then parseLoop g rest (some arg) m (pushPending u flag)
    else match flag with
      | some f => parseLoop g rest none (dictSet m (normKey f) (g arg)) u
      | none => parseLoop g rest none m (u ++ [arg])

/-- `parse_cli_settings(args_list)` with the coercion as a parameter → `(mapping, unknown)` -/
def parseWith {β : Type} (g : Str → β) (args : List Str) : List (Str × β) × List Str := parseLoop g args none [] []

/-! ### specification of the loop by adjacency (what the theorems compare the loop with) -/

/-- the flag/value pairs: an argument that is a flag immediately followed by one that is not -/
def cliPairs : List Str → List (Str × Str)
  | [] => []
  | [_] => []
  | a :: b :: rest => if isFlag a && !isFlag b then (a, b) :: cliPairs rest else cliPairs (b :: rest)

/-- everything else, in order: a flag followed by a flag or by nothing, a value not preceded by a flag -/
def cliLeftover : List Str → List Str
  | [] => []
  | [a] => [a]
  | a :: b :: rest => if isFlag a && !isFlag b then cliLeftover rest else a :: cliLeftover (b :: rest)

/-- the arguments written for a list of flag/value pairs -/
def argsOfPairs (ps : List (Str × Str)) : List Str := ps.flatMap (fun p => [p.1, p.2])

/-- the dict built from a list of assignments (later assignments to the same key win, the key keeps its first position) -/
def toDict {γ : Type} (l : List (Str × γ)) : List (Str × γ) := l.foldl (fun m kv => dictSet m kv.1 kv.2) []

/-- the LAST value assigned to `k` -/
def lastFor {γ : Type} (k : Str) : List (Str × γ) → Option γ
  | [] => none
  | (k', v) :: rest =>
    match lastFor k rest with
    | some w => some w
    | none => if k' = k then some v else none

/-- the raw text last given for the (normalised) key `k` on the command line -/
def lastGiven (k : Str) (args : List Str) : Option Str :=
  lastFor k ((cliPairs args).map (fun p => (normKey p.1, p.2)))

/-! ## `guess_type` on a decidable fragment -/

/-- what the model says `guess_type(text)` returns -/
inductive Guess where
  | val (v : Val)
  /-- the text is outside the modelled fragment: the model makes no statement (the real function may return a float, a
  container, bytes, a complex number, the text itself, or raise RecursionError / MemoryError / TypeError) -/
  | unmodelled
  deriving DecidableEq, Repr

/-- texts longer than this are outside the model (a decimal literal of more than 4300 digits is NOT an int for CPython, a
plain word of some thousand characters overflows the parser's recursion limit) -/
def guessMaxLen : Nat := 256

def isPrintable (c : Char) : Bool := decide (32 ≤ c.toNat) && decide (c.toNat ≤ 126)
def isDigit (c : Char) : Bool := decide (48 ≤ c.toNat) && decide (c.toNat ≤ 57)
def isLower (c : Char) : Bool := decide (97 ≤ c.toNat) && decide (c.toNat ≤ 122)
def isUpper (c : Char) : Bool := decide (65 ≤ c.toNat) && decide (c.toNat ≤ 90)
def isLetter (c : Char) : Bool := isLower c || isUpper c
def isHexDigit (c : Char) : Bool :=
  isDigit c || (decide (97 ≤ c.toNat) && decide (c.toNat ≤ 102)) || (decide (65 ≤ c.toNat) && decide (c.toNat ≤ 70))

def lowerChar (c : Char) : Char := if isUpper c then Char.ofNat (c.toNat + 32) else c
def upperChar (c : Char) : Char := if isLower c then Char.ofNat (c.toNat - 32) else c

/-- `str.lower()` on ASCII text -/
def lowerAscii (s : Str) : Str := s.map lowerChar

/-- `str.title()` on a single ASCII word of letters: first letter upper case, the rest lower case -/
def titleWord : Str → Str
  | [] => []
  | c :: cs => upperChar c :: cs.map lowerChar

def hexDigitVal (c : Char) : Nat :=
  if isDigit c then c.toNat - 48 else if isLower c then c.toNat - 87 else c.toNat - 55

/-- `(["_"] digit)*` of Python's integer literals: every underscore is followed by a digit -/
def groupsOk (isD : Char → Bool) : Str → Bool
  | [] => true
  | [c] => isD c
  | c :: d :: rest => if isD c then groupsOk isD (d :: rest) else c = '_' && isD d && groupsOk isD rest

/-- value of a digit string in `base`, underscores skipped -/
def digitsVal (base : Nat) (s : Str) : Nat :=
  s.foldl (fun acc c => if c = '_' then acc else acc * base + hexDigitVal c) 0

/-- `decinteger ::= nonzerodigit (["_"] digit)* | "0"+ (["_"] "0")*` -/
def decLiteral (s : Str) : Option Nat :=
  match s with
  | [] => none
  | d :: rest =>
    if isDigit d && groupsOk isDigit rest && (d != '0' || rest.all (fun c => c = '0' || c = '_')) then some (digitsVal 10 s) else none

/-- `hexinteger ::= "0" ("x" | "X") (["_"] hexdigit)+` -/
def hexLiteral (s : Str) : Option Nat :=
  match s with
  | '0' :: x :: d :: rest =>
    if (x = 'x' || x = 'X') && groupsOk isHexDigit (d :: rest) then some (digitsVal 16 (d :: rest)) else none
  | _ => none

def natLiteral (s : Str) : Option Nat :=
  match decLiteral s with
  | some n => some n
  | none => hexLiteral s

/-- an integer literal with at most one sign in front (`ast.literal_eval` accepts one unary `+` / `-` on a number) -/
def intLiteral (s : Str) : Option Int :=
  match s with
  | '-' :: r => (natLiteral r).map (fun n => -(n : Int))
  | '+' :: r => (natLiteral r).map (fun n => (n : Int))
  | _ => (natLiteral s).map (fun n => (n : Int))

/-- `'…'` / `"…"` whose body has neither that quote nor a backslash (so no escapes, no implicit concatenation, no triple
quotes, no prefix letters) -/
def quotedLiteral (s : Str) : Option Str :=
  match s with
  | q :: rest =>
    if (q = '\'' || q = '"') && rest.getLast? = some q && (rest.dropLast).all (fun c => c != q && c != '\\')
    then some rest.dropLast else none
  | [] => none

def isWordStart (c : Char) : Bool := isLetter c || c = '_'
def isWordChar (c : Char) : Bool := isLetter c || isDigit c || c = '_' || c = '.' || c = '-'

/-- an identifier-like word, possibly with `.` and `-` inside (`aes_gcm`, `chacha20-poly1305`, `a.b`): it parses, if at all, to an
expression whose leftmost leaf is a name or keyword, which `ast.literal_eval` refuses — the text itself is returned -/
def plainWord (s : Str) : Bool :=
  match s with
  | c :: rest => isWordStart c && rest.all isWordChar
  | [] => false

/-- `ast.literal_eval(text)` with the fallback `except (ValueError, SyntaxError): return text`, on the fragment -/
def literalEval (s : Str) : Guess :=
  if s = [] then .val (.str "")                                   -- SyntaxError → the text itself
  else if s = "None".toList then .val .none
  else if s = "True".toList then .val (.bool true)
  else if s = "False".toList then .val (.bool false)
  else match intLiteral s with
    | some i => .val (.int i)
    | none =>
      match quotedLiteral s with
      | some body => .val (.str (String.ofList body))
      | none => if plainWord s then .val (.str (String.ofList s)) else .unmodelled

/-- **`guess_type(text)` on the modelled fragment.**  Covered, precisely: texts of at most `guessMaxLen` printable ASCII
characters (32…126) that are
* empty → `''`;
* `none` / `true` / `false` in any letter case (`Gen.guessTitleWords`, title-cased before evaluation) → `None` / `True` / `False`;
* an optional single `+` / `-` followed by a decimal literal (`0`, `00`, `1_000`; not `007`, `1__0`, `1_`) or a hexadecimal
  literal (`0x1f`, `0X_1F`) → that `int`;
* `'…'` or `"…"` without that quote and without backslash inside → the body as `str`;
* a plain word `[A-Za-z_][A-Za-z0-9_.-]*` → the text itself.
Everything else (floats, octal / binary literals, containers, bytes, texts with spaces, `007`, non-ASCII, …) is `unmodelled`. -/
def guessType (text : Str) : Guess :=
  if !(text.all isPrintable) || guessMaxLen < text.length then .unmodelled
  else if guessTitleWords.contains (lowerAscii text) then literalEval (titleWord text)
  else literalEval text

def parseCliSettings (args : List Str) : List (Str × Guess) × List Str := parseWith guessType args

/-! ## `flat_to_nested` -/

/-- a nested dict whose scalar leaves are of type `β`; children in insertion order -/
inductive Tree (β : Type) where
  | leaf (v : β)
  | node (kids : List (Str × Tree β))

/-- `ReplicatError('Conflicting options')` — the only way `flat_to_nested` fails on scalar values -/
inductive FlatErr where
  | conflictingOptions
  deriving DecidableEq, Repr

/-- Python's `<` on `str`: lexicographic by code point, a proper prefix is smaller -/
def strLt : Str → Str → Bool
  | [], [] => false
  | [], _ :: _ => true
  | _ :: _, [] => false
  | a :: as, b :: bs => if a = b then strLt as bs else decide (a.toNat < b.toNat)

def insertSorted {β : Type} (kv : Str × β) : List (Str × β) → List (Str × β)
  | [] => [kv]
  | x :: xs => if strLt kv.1 x.1 then kv :: x :: xs else x :: insertSorted kv xs

/-- `sorted(flat.items())` for a dict (distinct keys, so the values are never compared): THE strictly increasing
arrangement of the items — whatever algorithm produces it -/
def sortKeys {β : Type} (l : List (Str × β)) : List (Str × β) := l.foldr insertSorted []

/-- `key.split(sep)` — never empty; `''.split('.') = ['']` -/
def splitOn (sep : Char) : Str → List Str
  | [] => [[]]
  | c :: cs =>
    if c = sep then [] :: splitOn sep cs
    else match splitOn sep cs with
      | w :: ws => (c :: w) :: ws
      | [] => [[c]]

def splitDots (k : Str) : List Str := splitOn flatSep k

/-- `sep.join(parts)` -/
def joinOn (sep : Char) : List Str → Str
  | [] => []
  | [w] => w
  | w :: w' :: ws => w ++ sep :: joinOn sep (w' :: ws)

/-- the body of the `try:` for one item, on the path `ancestors ++ [attribute]`:
`for x in ancestors: current = current.setdefault(x, {})` then `current[attribute] = value`.
`none` = AttributeError (`setdefault` on a scalar) or TypeError (item assignment on a scalar), both caught by the source.
An EXISTING mapping at the attribute is silently replaced by the scalar (that is why the source sorts). -/
def insertPath {β : Type} : List Str → β → Tree β → Option (Tree β)
  | [], _, t => some t                                              -- unreachable: `split` never returns an empty list
  | _ :: _, _, .leaf _ => none
  | [a], v, .node kids => some (.node (dictSet kids a (.leaf v)))
  | x :: y :: rest, v, .node kids =>
    match insertPath (y :: rest) v ((dictGet kids x).getD (.node [])) with
    | none => none
    | some c => some (.node (dictSet kids x c))

def insertAll {β : Type} : List (List Str × β) → Tree β → Option (Tree β)
  | [], t => some t
  | (p, v) :: rest, t =>
    match insertPath p v t with
    | none => none
    | some t' => insertAll rest t'

/-- the order in which the items are processed: sorted iff the source says `sorted(flat.items())` -/
def flatItems {β : Type} (flat : List (Str × β)) : List (Str × β) :=
  if flatSorted then sortKeys (toDict flat) else toDict flat

/-- **`flat_to_nested(flat)`** for a dict `flat` whose values are scalars.  The argument is a list of assignments; the
dict it denotes is `toDict flat` (for a list with distinct keys that is the list itself). -/
def flatToNested {β : Type} (flat : List (Str × β)) : Except FlatErr (Tree β) :=
  match insertAll ((flatItems flat).map (fun kv => (splitDots kv.1, kv.2))) (.node []) with
  | some t => .ok t
  | none => .error .conflictingOptions

/-- `d[p₁][p₂]…` — the subtree at a path -/
def Tree.get {β : Type} : List Str → Tree β → Option (Tree β)
  | [], t => some t
  | _ :: _, .leaf _ => none
  | x :: rest, .node kids =>
    match dictGet kids x with
    | some c => Tree.get rest c
    | none => none

/-- the scalar at a path, if there is one -/
def Tree.leafAt {β : Type} (p : List Str) (t : Tree β) : Option β :=
  match t.get p with
  | some (.leaf v) => some v
  | _ => none

/-! ## `main()` after the second parse -/

inductive CliOutcome (β : Type) where
  /-- `custom_settings = None`: nothing unknown was left by argparse -/
  | noSettings
  /-- `main_parser.error('unrecognized arguments: …')` (exit status 2, the handler is not run) -/
  | unrecognised (unknown : List Str)
  /-- `ReplicatError('Conflicting options')` out of `flat_to_nested` (the handler is not run) -/
  | conflict
  /-- the handler runs with `settings=` this nested dict -/
  | settings (t : Tree β)
  /-- some value is outside the fragment of `guessType` -/
  | unmodelled

/-- `main()` from `unknown_args` (what the second `parse_known_args` did not recognise) to the `settings=` of the handler,
for the coercion `g` -/
def cliMainWith {β : Type} (g : Str → β) (action : String) (unknownArgs : List Str) : CliOutcome β :=
  if unknownArgs.isEmpty then .noSettings
  else if !(mainSettingsActions.contains action) then .unrecognised unknownArgs
  else
    let (flat, unknown) := parseWith g unknownArgs
    if !unknown.isEmpty then .unrecognised unknown
    else match flatToNested flat with
      | .ok t => .settings t
      | .error _ => .conflict

def guessedAll : List (Str × Guess) → Option (List (Str × Val))
  | [] => some []
  | (k, .val v) :: rest => (guessedAll rest).map (fun l => (k, v) :: l)
  | (_, .unmodelled) :: _ => none

/-- `main()` with the modelled `guess_type`.  `unmodelled` as soon as a PAIRED value is outside the fragment and the
outcome could depend on it (nothing left unknown). -/
def cliMain (action : String) (unknownArgs : List Str) : CliOutcome Val :=
  if unknownArgs.isEmpty then .noSettings
  else if !(mainSettingsActions.contains action) then .unrecognised unknownArgs
  else
    let (flat, unknown) := parseCliSettings unknownArgs
    if !unknown.isEmpty then .unrecognised unknown
    else match guessedAll flat with
      | none => .unmodelled
      | some flatV =>
        match flatToNested flatV with
        | .ok t => .settings t
        | .error _ => .conflict

/-! ## canonical command-line rendering of a settings dictionary (the `Settings` of `ReplicatModel/Settings.lean`) -/

/-- decimal digits of a natural number, most significant first (`fuel` bounds the number of digits) -/
def decDigitsAux : Nat → Nat → Str → Str
  | 0, _, acc => acc
  | fuel + 1, n, acc =>
    if n < 10 then Char.ofNat (48 + n) :: acc else decDigitsAux fuel (n / 10) (Char.ofNat (48 + n % 10) :: acc)

def decDigits (n : Nat) : Str := decDigitsAux (n + 1) n []

/-- the text a user writes for a value: `repr` for int / bool / None, the bare word for a string that is a plain word (and not
`none` / `true` / `false`), else the string in quotes; floats and NaN have no rendering in the modelled fragment -/
def textOf : Val → Option Str
  | .int i => some (if i < 0 then '-' :: decDigits i.natAbs else decDigits i.natAbs)
  | .bool true => some "True".toList
  | .bool false => some "False".toList
  | .none => some "None".toList
  | .str s =>
    let t := s.toList
    if plainWord t && !(guessTitleWords.contains (lowerAscii t)) then some t
    else if t.all (fun c => c != '\'' && c != '\\') then some ('\'' :: t ++ ['\''])
    else if t.all (fun c => c != '"' && c != '\\') then some ('"' :: t ++ ['"'])
    else none
  | .float _ => none
  | .nan => none

open Replicat.Settings in
def leavesOfArgs (k1 k2 : Str) (a : Args) : List (List Str × Val) :=
  a.filterMap (fun kv3 =>
    match kv3.2 with
    | .val v => some ([k1, k2, kv3.1.toList], v)
    | .mapping => none)

open Replicat.Settings in
def leavesOfSub (k1 : Str) (kv2 : String × V2) : List (List Str × Val) :=
  match kv2.2 with
  | .val v => [([k1, kv2.1.toList], v)]
  | .args a => leavesOfArgs k1 kv2.1.toList a

open Replicat.Settings in
def leavesOfEntry (kv : String × V1) : List (List Str × Val) :=
  match kv.2 with
  | .val v => [([kv.1.toList], v)]
  | .m kvs => kvs.flatMap (leavesOfSub kv.1.toList)

open Replicat.Settings in
/-- the scalar leaves of a settings dictionary with their paths (three levels: section, sub-section, argument); opaque
mappings (`Arg.mapping`) and empty mappings have no leaf — see `noOpaque` -/
def leavesOf (s : Settings) : List (List Str × Val) := s.flatMap leavesOfEntry

open Replicat.Settings in
/-- no opaque mapping and no empty mapping anywhere (neither can be written as flags) -/
def noOpaque (s : Settings) : Bool :=
  s.all (fun kv =>
    match kv.2 with
    | .val _ => true
    | .m kvs => !kvs.isEmpty && kvs.all (fun kv2 =>
        match kv2.2 with
        | .val _ => true
        | .args a => !a.isEmpty && a.all (fun kv3 => match kv3.2 with | .val _ => true | .mapping => false)))

/-- `--a.b.c text` for one leaf -/
def renderLeaf (l : List Str × Val) : List Str :=
  match textOf l.2 with
  | some t => [cliFlagPrefix ++ joinOn flatSep l.1, t]
  | none => []

/-- the canonical command line of a list of leaves, in the given order -/
def renderLeaves (ls : List (List Str × Val)) : List Str := ls.flatMap renderLeaf

open Replicat.Settings in
def renderSettings (s : Settings) : List Str := renderLeaves (leavesOf s)

def allPairs {α : Type} (r : α → α → Bool) : List α → Bool
  | [] => true
  | a :: rest => rest.all (r a) && allPairs r rest

def keysDistinct {γ : Type} (l : List (String × γ)) : Bool := allPairs (fun a b => !(a.1 == b.1)) l

open Replicat.Settings in
/-- the association lists ARE dicts: no key twice in any mapping -/
def dictLike (s : Settings) : Bool :=
  keysDistinct s && s.all (fun kv =>
    match kv.2 with
    | .val _ => true
    | .m kvs => keysDistinct kvs && kvs.all (fun kv2 =>
        match kv2.2 with
        | .val _ => true
        | .args a => keysDistinct a))

def isProperPrefix (q p : List Str) : Bool := q.isPrefixOf p && q.length < p.length

/-- a component can be written in a flag and comes back unchanged: no separator, no character the normalisation rewrites
or strips (`-`) -/
def componentOk (w : Str) : Bool := w.all (fun c => c != flatSep && c != '-')

/-- **what `cli_settings_equals_direct` asks of the leaves** (decidable): every value has a text that the modelled
`guess_type` reads back as that value and that is not itself a flag; every path is non-empty with writable components;
no two leaves have the same path or one a proper prefix of the other (true of the leaves of every dict). -/
def leafWritable (l : List Str × Val) : Bool :=
  !l.1.isEmpty && l.1.all componentOk &&
  (match textOf l.2 with
   | some t => !isFlag t && guessType t == .val l.2
   | none => false)

def leavesExpressible (ls : List (List Str × Val)) : Bool :=
  ls.all leafWritable &&
  allPairs (fun a b => !(a.1 == b.1) && !isProperPrefix a.1 b.1 && !isProperPrefix b.1 a.1) ls

open Replicat.Settings in
/-- the settings dictionaries that can be written on the command line in the modelled fragment -/
def cliExpressible (s : Settings) : Bool := !(leavesOf s).isEmpty && noOpaque s && leavesExpressible (leavesOf s)

/-! ## `String` wrappers (driver) -/

def parseCliSettingsS (args : List String) : List (String × Guess) × List String :=
  let r := parseCliSettings (args.map String.toList)
  (r.1.map (fun kv => (String.ofList kv.1, kv.2)), r.2.map String.ofList)

end Replicat.SettingsCli
