import ReplicatModel.Sym
/-!
# Commands that select among SEVERAL snapshots  (C04)

`Sym.restore p s target` is a restore filtered to ONE snapshot name.  The commands a user actually types — `restore` without a
filter (the newest version of every path), `list-files`, `list-snapshots`, each with or without `snapshot_regex` — read every
listed snapshot object the filter selects and then choose among the loaded bodies.  For them a loader that lets a damaged object
leave as "nothing" is not an error path but silent corruption: the older version of every file is restored "successfully", a named
snapshot lists no file.

`loadSnapshotL sound skip` is `_load_snapshots._download_snapshot` + `_download_snapshot_threadsafe` of a listed object.  `sound` =
`Gen.snapLoadNeverSkipsListedOwn` (tools/sections/04_snapload.py: no path returns `None` for a listed object of the own family
once the object is read).  If it holds the loader is `Sym.loadSnapshot`; if it does not, the model takes the reading under which
the objects satisfying `skip` (a predicate on the downloaded content — the empty object, a short object, a mismatching one …) are
dropped before the comparison.  `…Cmd` instantiate `sound` with the generated flag; the theorems of Properties/C04.lean are about
them.
-/
namespace Replicat.Sym

/-- the snapshot filter of a command: `none` = no `snapshot_regex`, `some n` = the name `n` -/
def selectedBy (filter : Option Term) (name : Term) : Bool :=
  match filter with
  | none => true
  | some t => decide (name = t)

/-- the loader of one listed snapshot object -/
def loadSnapshotL (sound : Bool) (skip : Term → Bool) (p : Props) (tag name stored : Term) :
    Except Err (Option (List Term × Option Data)) :=
  if !sound && skip stored then .ok none else loadSnapshot p tag name stored

/-- a loaded snapshot: name, chunk table, private data (`none` = readable table, data of another key) -/
abbrev Body := Term × List Term × Option Data

/-- `_load_snapshots(snapshot_regex = filter)` over the listing: unselected entries are skipped before any download; an error
of a selected entry aborts the command; `none` results (foreign tag) are dropped -/
def loadSel (sound : Bool) (skip : Term → Bool) (p : Props) (filter : Option Term) :
    List (Term × Term × Term) → Except Err (List Body)
  | [] => .ok []
  | (tag, name, obj) :: rest =>
    if !selectedBy filter name then loadSel sound skip p filter rest
    else
      match loadSnapshotL sound skip p tag name obj with
      | .error e => .error e
      | .ok r =>
        match loadSel sound skip p filter rest with
        | .error e => .error e
        | .ok bs =>
          match r with
          | some (table, data) => .ok ((name, table, data) :: bs)
          | none => .ok bs

/-- the bodies restore / list-files work with (`if snapshot_data is None: continue`) -/
def readable : List Body → List (List Term × Data)
  | [] => []
  | (_, table, some data) :: rest => (table, data) :: readable rest
  | (_, _, none) :: rest => readable rest

/-- the same with the snapshot name kept (list-files prints it) -/
def readableNamed : List Body → List (Term × Data)
  | [] => []
  | (name, _, some data) :: rest => (name, data) :: readableNamed rest
  | (_, _, none) :: rest => readableNamed rest

def newestFirstN (a b : Term × Data) : Bool := b.2.ts ≤ a.2.ts

/-- what `restore` does with the loaded bodies: newest first, the first occurrence of a path wins, every chunk fetched and verified -/
def restoreOf (p : Props) (s : Store) (bs : List Body) : Except Err (List (Term × List Part)) :=
  restoreFiles (fetchChunk p s) (selectFiles (isort newestFirst (readable bs)) [])

/-- what `list-files` prints: one row (snapshot name, path) per file of every loaded snapshot, newest snapshot first -/
def listFilesOf (bs : List Body) : List (Term × Term) :=
  (isort newestFirstN (readableNamed bs)).flatMap fun b => b.2.files.map fun f => (b.1, f.path)

/-- what `list-snapshots` prints: one row per loaded snapshot (also those whose data belongs to another key) -/
def listSnapshotsOf (bs : List Body) : List Term := bs.map (·.1)

def restoreSel (sound : Bool) (skip : Term → Bool) (p : Props) (s : Store) (filter : Option Term) :
    Except Err (List (Term × List Part)) :=
  match loadSel sound skip p filter (snapEntries s) with
  | .error e => .error e
  | .ok bs => restoreOf p s bs

def listFilesSel (sound : Bool) (skip : Term → Bool) (p : Props) (s : Store) (filter : Option Term) :
    Except Err (List (Term × Term)) :=
  match loadSel sound skip p filter (snapEntries s) with
  | .error e => .error e
  | .ok bs => .ok (listFilesOf bs)

def listSnapshotsSel (sound : Bool) (skip : Term → Bool) (p : Props) (s : Store) (filter : Option Term) :
    Except Err (List Term) :=
  match loadSel sound skip p filter (snapEntries s) with
  | .error e => .error e
  | .ok bs => .ok (listSnapshotsOf bs)

/-! the commands of the code as it is: the generated flag decides whether the loader can drop a listed object -/
def loadCmd (skip : Term → Bool) (p : Props) (filter : Option Term) (entries : List (Term × Term × Term)) : Except Err (List Body) :=
  loadSel Gen.snapLoadNeverSkipsListedOwn skip p filter entries

def restoreCmd (skip : Term → Bool) (p : Props) (s : Store) (filter : Option Term) : Except Err (List (Term × List Part)) :=
  restoreSel Gen.snapLoadNeverSkipsListedOwn skip p s filter

def listFilesCmd (skip : Term → Bool) (p : Props) (s : Store) (filter : Option Term) : Except Err (List (Term × Term)) :=
  listFilesSel Gen.snapLoadNeverSkipsListedOwn skip p s filter

def listSnapshotsCmd (skip : Term → Bool) (p : Props) (s : Store) (filter : Option Term) : Except Err (List Term) :=
  listSnapshotsSel Gen.snapLoadNeverSkipsListedOwn skip p s filter

/-- every snapshot entry of the listing carries the object that was stored under that name (what an undamaged repository looks
like to the loader: `name = hash of the stored bytes`) -/
def honestEntries (entries : List (Term × Term × Term)) : Prop := ∀ e ∈ entries, Term.hash e.2.2 = e.2.1

/-- two listings show the same locations (the adversary changed object contents, not the set of names) -/
def sameListing : List (Term × Term × Term) → List (Term × Term × Term) → Prop
  | [], [] => True
  | e :: es, e' :: es' => e.1 = e'.1 ∧ e.2.1 = e'.2.1 ∧ sameListing es es'
  | _, _ => False

end Replicat.Sym
