import ReplicatModel.Basic
import ReplicatModel.Generated
/-!
# Storage locations of chunks and snapshots  (C08 `location_roundtrip`, C14)

Mirrors `Repository.get_chunk_location / parse_chunk_location / get_snapshot_location / parse_snapshot_location` of
replicat/repository.py over `List Char`, with Python's `posixpath.join`, slicing, `str.startswith`, `str.rpartition` and
`str.rsplit(sep, maxsplit)`.  Prefixes, slice points, separators, `maxsplit` and the indices of the tag parts are the
regenerated `Replicat.Gen` constants.  Where Python raises (`ValueError`, `IndexError`) an error constructor is returned.
-/
namespace Replicat.Format

abbrev Str := List Char

/-- one round of the loop of `posixpath.join` -/
def joinStep (path b : Str) : Str :=
  if b.head? == some '/' then b
  else if path.isEmpty || path.getLast? == some '/' then path ++ b
  else path ++ '/' :: b

/-- `posixpath.join(a, *ps)` -/
def pjoin (a : Str) (ps : List Str) : Str := ps.foldl joinStep a

/-- Python `s[i:j]` for non-negative `i`, `j` -/
def slice (s : Str) (i j : Nat) : Str := (s.take j).drop i

def getChunkLocation (name tag : Str) : Str :=
  pjoin Gen.chunkPrefix.toList
    [slice tag 0 Gen.chunkLocSplit.1, slice tag Gen.chunkLocSplit.1 Gen.chunkLocSplit.2,
     tag.drop Gen.chunkLocSplit.2 ++ Gen.chunkBuildNameSep :: name]

def getSnapshotLocation (name tag : Str) : Str :=
  pjoin Gen.snapshotPrefix.toList [slice tag 0 Gen.snapLocSplit, tag.drop Gen.snapLocSplit ++ Gen.snapBuildNameSep :: name]

/-- `s.rpartition(sep)` → (head, tail); without a separator head is empty and tail is `s` -/
def rpartition (sep : Char) (s : Str) : Str × Str :=
  match s.reverse.dropWhile (· != sep) with
  | [] => ([], s)
  | _ :: revHead => (revHead.reverse, (s.reverse.takeWhile (· != sep)).reverse)

/-- `s.split(sep, n)` -/
def lsplit (sep : Char) : Nat → Str → List Str
  | 0, s => [s]
  | n + 1, s =>
    match s.dropWhile (· != sep) with
    | [] => [s]
    | _ :: rest => s.takeWhile (· != sep) :: lsplit sep n rest

/-- `s.rsplit(sep, n)` -/
def rsplit (sep : Char) (n : Nat) (s : Str) : List Str := ((lsplit sep n s.reverse).map List.reverse).reverse

inductive ParseErr
  | notLocation   -- ValueError
  | index         -- IndexError
deriving DecidableEq, Repr

/-- `parts[i1] + parts[i2] + …` -/
def pickParts (parts : List Str) (idx : List Nat) : Option Str := (idx.mapM (fun i => parts[i]?)).map List.flatten

def parseLocation (pre : Str) (nameSep dirSep : Char) (splits : Nat) (idx : List Nat) (loc : Str) : Except ParseErr (Str × Str) :=
  if !pre.isPrefixOf loc then .error .notLocation
  else
    let hn := rpartition nameSep loc
    match pickParts (rsplit dirSep splits hn.1) idx with
    | some tag => .ok (hn.2, tag)
    | none => .error .index

def parseChunkLocation (loc : Str) : Except ParseErr (Str × Str) :=
  parseLocation Gen.chunkPrefix.toList Gen.chunkParseNameSep Gen.chunkParseDirSep Gen.chunkParseSplits Gen.chunkParseIdx loc

def parseSnapshotLocation (loc : Str) : Except ParseErr (Str × Str) :=
  parseLocation Gen.snapshotPrefix.toList Gen.snapParseNameSep Gen.snapParseDirSep Gen.snapParseSplits Gen.snapParseIdx loc

def isHex (c : Char) : Bool := ('0' ≤ c && c ≤ '9') || ('a' ≤ c && c ≤ 'f')

end Replicat.Format
