"""Shared plumbing: paths, seeded RNG, the Lean driver client, evidence / replay / known-findings."""
import fnmatch
import hashlib
import json
import os
import random
import subprocess
import sys
import time
from pathlib import Path

VERIF = Path(__file__).resolve().parent.parent
REPO = Path(os.environ.get('REPLICAT_REPO', '/repo'))
LEAN = VERIF / 'lean'
WORK = VERIF / '.work'
DRIVER = LEAN / '.lake' / 'build' / 'bin' / 'rdriver'
PYMOD = VERIF / 'native' / 'pymod'
ALLOWED_AXIOMS = {'propext', 'Classical.choice', 'Quot.sound'}

TRUSTED_BASE_COMMON = [
    'Lean 4.33.0 kernel (theorems audited with #print axioms; allowed axioms: propext, Classical.choice, Quot.sound)',
    'tools/extract.py + tools/sections/*.py (translator regenerating ReplicatModel/Generated.lean from /repo on every run) with the symbolic executors they are built on: '
    'tools/cexpr.py (C expressions / decision trees), tools/pyflow.py, tools/symflow.py, tools/symfacts.py, tools/symflow_fmt.py, tools/replicat_facts.py, tools/optflow.py; '
    'an unrecognised shape yields false / opaque (a broken obligation), never an assumed fact',
    'harness/* (generators, canonicalisers, fakes, oracles) and the compiled driver lean/Driver/* running the same model definitions the theorems are about',
    'CPython, the OS, third-party libraries (httpx, backoff, cryptography, hashlib) — modelled, not verified',
]


def use_rebuilt_chunker():
    """Make every `import replicat…` in this process use the chunker rebuilt from /repo/src/adapters.cpp."""
    p = str(PYMOD)
    if p not in sys.path:
        sys.path.insert(0, p)
    os.environ.setdefault('REPLICAT_VERIF_GCL_SO', str(WORK / 'native' / 'libgcl.so'))
    if str(REPO) not in sys.path:
        sys.path.insert(1, str(REPO))


def seed_from_env():
    try:
        return int(os.environ.get('VERIF_SEED', '0'))
    except ValueError:
        return 0


def rng_for(seed, *labels):
    h = hashlib.sha256(('%d|' % seed + '|'.join(map(str, labels))).encode()).digest()
    return random.Random(int.from_bytes(h[:8], 'big'))


def canon(obj):
    return json.dumps(obj, sort_keys=True, separators=(',', ':'), default=str)


def digest(obj):
    return hashlib.sha256(canon(obj).encode()).hexdigest()[:16]


class Driver:
    """Line-protocol client of the compiled Lean model (`rdriver`)."""

    def __init__(self):
        if not DRIVER.exists():
            raise FileNotFoundError(str(DRIVER))
        self.p = subprocess.Popen([str(DRIVER)], stdin=subprocess.PIPE, stdout=subprocess.PIPE, text=True, bufsize=1 << 20)
        self.count = 0
        self.ops = {}

    def ask(self, req):
        self.p.stdin.write(json.dumps(req) + '\n')
        self.p.stdin.flush()
        line = self.p.stdout.readline()
        if not line:
            raise RuntimeError('driver died on %r' % (req,))
        self.count += 1
        self.ops[req.get('op')] = self.ops.get(req.get('op'), 0) + 1
        return json.loads(line)

    def ask_many(self, reqs):
        """Pipelined: a writer thread feeds the requests while this thread reads the replies (no pipe deadlock on big requests)."""
        import threading
        reqs = list(reqs)
        err = []

        def feed():
            try:
                for i in range(0, len(reqs), 64):
                    self.p.stdin.write(''.join(json.dumps(r) + '\n' for r in reqs[i:i + 64]))
                    self.p.stdin.flush()
            except Exception as e:  # noqa: BLE001
                err.append(e)
        t = threading.Thread(target=feed, daemon=True)
        t.start()
        out = []
        for r in reqs:
            line = self.p.stdout.readline()
            if not line:
                raise RuntimeError('driver died (%r)' % (err[:1],))
            out.append(json.loads(line))
            self.count += 1
            self.ops[r.get('op')] = self.ops.get(r.get('op'), 0) + 1
        t.join()
        return out

    def close(self):
        try:
            self.p.stdin.close()
            self.p.wait(timeout=5)
        except Exception:
            self.p.kill()


class Outcome:
    """Collects what a check run did; decides exit status."""

    def __init__(self, prop, tier, seed):
        self.prop, self.tier, self.seed = prop, tier, seed
        self.t0 = time.time()
        self.evaluations = 0
        self.nontrivial = set()
        self.samples = []
        self.violations = []      # dict(sig, what, replay)
        self.disagreements = []   # model vs implementation (tie broke)
        self.traces_validated = 0
        self.dist = {}
        self.extra = {}
        self.assumptions = []
        self.rule = ''

    def case(self, case, nontrivial, sample_limit=6):
        self.evaluations += 1
        if nontrivial:
            self.nontrivial.add(digest(case))
        if len(self.samples) < sample_limit and nontrivial:
            self.samples.append(case)

    def count(self, key, n=1):
        self.dist[key] = self.dist.get(key, 0) + n

    def violation(self, sig, what, replay):
        self.violations.append({'sig': sig, 'what': what, 'replay': replay})

    def disagreement(self, what, replay):
        self.disagreements.append({'what': what, 'replay': replay})


def load_known():
    p = VERIF / 'known_findings.json'
    if not p.exists():
        return []
    return json.loads(p.read_text()).get('findings', [])


def write_replay(prop, payload):
    d = VERIF / 'replays' / prop
    d.mkdir(parents=True, exist_ok=True)
    path = d / (digest(payload) + '.json')
    path.write_text(json.dumps(payload, indent=1, default=str))
    return path


def finish(out, build_info):
    """Write evidence, print KNOWN-FINDING / VIOLATION lines, return exit code."""
    prop = out.prop
    known = [k for k in load_known() if k.get('property') == prop and k.get('status', 'open') == 'open']
    printed_known = set()
    new_violations = []
    for v in out.violations:
        hit = None
        for k in known:
            if fnmatch.fnmatchcase(v['sig'], k['match']):
                hit = k
                break
        if hit is not None:
            if hit['id'] not in printed_known:
                printed_known.add(hit['id'])
                rp = write_replay(prop, {'property': prop, 'known_finding': hit['id'], 'sig': v['sig'], 'what': v['what'], 'replay': v['replay']})
                print(f"KNOWN-FINDING: property={prop} {hit['id']}: {hit['what']} (replay={rp})")
        else:
            new_violations.append(v)
    lines = []
    seen = set()
    for v in new_violations:
        if v['sig'] in seen:
            continue
        seen.add(v['sig'])
        rp = write_replay(prop, {'property': prop, 'sig': v['sig'], 'what': v['what'], 'replay': v['replay'],
                                 'how_to_rerun': f'cd /verif && /venv/bin/python -m harness.check {prop} --replay <this file>'})
        lines.append(f'VIOLATION property={prop} replay={rp}')
        if len(lines) >= 5:
            break
    proof_broken = not build_info.get('proof_ok', False)
    tie_broken = bool(out.disagreements) or not build_info.get('driver_ok', False)
    if not new_violations and (proof_broken or tie_broken):
        payload = {'property': prop, 'no_failing_input_found': True,
                   'broken_proof_obligations': build_info.get('broken', []),
                   'proof_build_log_tail': build_info.get('proof_log', '')[-3000:],
                   'driver_ok': build_info.get('driver_ok', False),
                   'correspondence_disagreements': out.disagreements[:5],
                   'searched': {'evaluations': out.evaluations, 'seed': out.seed, 'tier': out.tier}}
        rp = write_replay(prop, payload)
        lines.append(f'VIOLATION property={prop} replay={rp} no-failing-input-found')
    cov = {
        'obligations': build_info.get('obligations', 0),
        'discharged': build_info.get('discharged', 0),
        'checker_cmd': build_info.get('checker_cmd', ''),
        'trusted_base': TRUSTED_BASE_COMMON + build_info.get('trusted_extra', []),
        'theorems': build_info.get('theorems', []),
        'axioms_used': build_info.get('axioms', {}),
        'forbidden_token_hits': build_info.get('forbidden', []),
        'generated_lean_sha': build_info.get('generated_sha'),
        'extract_notes': build_info.get('extract_notes', {}),
        'source_fingerprints': build_info.get('fingerprints', {}),
        'evaluations': out.evaluations,
        'distinct_nontrivial': len(out.nontrivial),
        'rule': out.rule,
        'samples': out.samples[:8] or [{'note': 'no non-trivial case this run'}],
        'traces_validated_against_impl': out.traces_validated,
        'model_driver_requests': build_info.get('driver_requests', {}),
        'correspondence_disagreements': len(out.disagreements),
        'input_distribution': out.dist,
        'known_findings_reobserved': sorted(printed_known),
    }
    cov.update(out.extra)
    ev = {
        'property_id': prop, 'tier': out.tier, 'seed': out.seed, 'level': 'proof',
        'coverage': cov,
        'assumptions': out.assumptions,
        'wall_s': round(time.time() - out.t0, 2),
        'violations': len(lines),
    }
    (VERIF / 'evidence').mkdir(exist_ok=True)
    (VERIF / 'evidence' / f'{prop}.json').write_text(json.dumps(ev, indent=1, default=str))
    for ln in lines:
        print(ln)
    sys.stdout.flush()
    return 1 if lines else 0
