"""Files that change or vanish while a command runs (a live log, a rotated file): `live_edit(path, new_content)` rewrites `path` at the moment the
code under test first opens it for reading — i.e. AFTER whatever the command learnt about it while collecting files (stat, size, order).
Works on `io.open` / `builtins.open` (pathlib's `Path.open` goes through `io.open`), so it does not depend on any name inside replicat."""
import builtins
import contextlib
import io
import os


DENY = object()        # `new_content=DENY`: the file is still there but can no longer be opened (EACCES: mode 000 / another owner)


@contextlib.contextmanager
def live_edit(path, new_content):
    target = os.path.realpath(str(path))
    real_open = io.open
    state = {'done': False}

    def opener(file, mode='r', *a, **kw):
        if not state['done'] and 'r' in mode and '+' not in mode and isinstance(file, (str, bytes, os.PathLike)):
            try:
                same = os.path.realpath(os.fsdecode(os.fspath(file))) == target
            except (TypeError, ValueError):
                same = False
            if same:
                if new_content is DENY:              # (every attempt, for as long as the context lasts)
                    import errno
                    state['fired'] = True
                    raise PermissionError(errno.EACCES, os.strerror(errno.EACCES), os.fspath(file))
                state['done'] = True
                if new_content is None:
                    os.unlink(target)            # the file vanishes (another process removed it): the open below fails as it would
                else:
                    st = os.stat(target)
                    with real_open(target, 'wb') as f:
                        f.write(new_content)
                    os.utime(target, ns=(st.st_atime_ns, st.st_mtime_ns))
        return real_open(file, mode, *a, **kw)

    io.open = opener
    builtins.open = opener
    try:
        yield state
    finally:
        io.open = real_open
        builtins.open = real_open
