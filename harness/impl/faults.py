"""Fault injection for C12 (retry / rewind): a fault plan, an httpx transport that executes it in front of the fake S3 / B2
services, and an injector for the local backend (wraps `open`, `os.replace` / `os.rename`).  Trusted base.

A *plan* is a list of fault dicts, consumed one per ATTEMPT of the transfer (= one data request for S3 / B2, one temp file or one
open of the object for the local backend); once the list is exhausted no fault is injected any more.

HTTP fault kinds (what a real connection can do):
  connect           transport error before any byte of the request body is read
  send   j          the request body is read for j chunks, then the connection breaks (httpx.WriteError)      [upload]
  status code [ra]  the whole request is read, the service answers `code` (optionally with Retry-After) and stores nothing
  lost              the whole request is read AND served (the object is stored), the response is lost (httpx.ReadError)   [upload]
  cut    k          the response is 200 with the full Content-Length, the body breaks after k bytes (httpx.ReadError)     [download]
Local fault kinds:
  mktemp / open / write j / src j / rename          (upload_stream, upload)
  open / truncate / read j / sink j                 (download_stream, download)
Every local fault may carry `errno` (the class of OSError it surfaces with: ENOENT → FileNotFoundError, EACCES → PermissionError,
ENOSPC, ESTALE, … — built with `OSError(errno, …)` so that Python picks the subclass the OS would; 0 = an OSError without errno;
absent = EIO) and, for ENOENT at mktemp / open / rename (upload) and open (download), `state: true`: the fault is not a raised
exception but a change of the directory the OS then complains about by itself —
  mktemp  the object's freshly created, still empty directory is removed again before the temp file is created in it
          (what a concurrent `clean` → os.rmdir of empty directories does)
  open    the temp file and its (empty) directory vanish before the temp file is opened for writing
  rename  the temp file vanishes before os.replace
  open    (download) the object is not there while this attempt opens it, and is back for the next one (a flaky network FS)
(where the directory is not empty and so cannot vanish, the same exception is raised synthetically).
Every HTTP transport fault may carry `exc`, the httpx exception class the break surfaces with (ConnectError, ConnectTimeout,
PoolTimeout, WriteError, WriteTimeout, ReadError, ReadTimeout, RemoteProtocolError … — all `httpx.TransportError`).

Unlike `httpx.MockTransport` (which reads the whole request before calling the handler) `FaultTransport` pulls the request body
chunk by chunk, exactly as a socket transport does, so a fault "after j chunks" leaves the payload stream where a real broken
connection would leave it.
"""
import builtins
import errno
import io
import os

import httpx


class Watchdog(BaseException):
    """more requests / attempts than any terminating run can need"""


class Plan:
    def __init__(self, faults, limit=400):
        self.faults = list(faults)
        self.i = 0
        self.attempts = 0
        self.cur = None
        self.limit = limit
        self.received = []        # per attempt: bytes the service / temp file / sink got in that attempt (length)
        self.bodies = []          # per attempt that delivered a complete request body: the body
        self.reset_hooks = []

    def begin_attempt(self):
        self.attempts += 1
        if self.attempts > self.limit:
            raise Watchdog('more than %d attempts' % self.limit)
        self.cur = self.faults[self.i] if self.i < len(self.faults) else None
        self.i += 1
        for h in self.reset_hooks:
            h()
        return self.cur

    def kind(self):
        return self.cur['kind'] if self.cur else None


def oserror(what, code=None):
    """the OSError the OS would raise for errno `code` (None: EIO; 0: an OSError that carries no errno)"""
    if code is None:
        code = errno.EIO
    if code == 0:
        return OSError('injected I/O error without errno: ' + what)
    return OSError(code, 'injected: %s: %s' % (os.strerror(code), what))


def fault_error(f, what):
    return oserror(what, f.get('errno') if f else None)


TRANSPORT_EXC = {'connect': ('ConnectError', 'ConnectTimeout', 'PoolTimeout'),
                 'send': ('WriteError', 'WriteTimeout', 'RemoteProtocolError'),
                 'lost': ('ReadError', 'ReadTimeout', 'RemoteProtocolError'),
                 'cut': ('ReadError', 'ReadTimeout', 'RemoteProtocolError')}


def transport_error(f, default, message, request=None):
    cls = getattr(httpx, (f or {}).get('exc') or default)
    if request is not None:
        return cls(message, request=request)
    return cls(message)


# ------------------------------------------------------------------------------------------------ HTTP
class _Broken(httpx.AsyncByteStream):
    def __init__(self, data, k, piece, fault=None):
        self.data, self.k, self.piece, self.fault = data, k, max(1, piece), fault

    async def __aiter__(self):
        for off in range(0, self.k, self.piece):
            yield self.data[off:min(self.k, off + self.piece)]
        raise transport_error(self.fault, 'ReadError', 'connection broken by the fake service after %d bytes' % self.k)


class FaultTransport(httpx.AsyncBaseTransport):
    """`serve(request) -> awaitable httpx.Response` is the fake service's handler; `is_data(request)` selects the transfer request."""

    def __init__(self, serve, plan, is_data, error_body=None, request_limit=3000, piece=7):
        self.serve, self.plan, self.is_data = serve, plan, is_data
        self.error_body = error_body or (lambda code: {'content': b'injected %d' % code})
        self.request_limit = request_limit
        self.requests = []        # (method, url) of every request that reached the transport
        self.piece = piece

    async def handle_async_request(self, request):
        self.requests.append((request.method, str(request.url)))
        if len(self.requests) > self.request_limit:
            raise Watchdog('more than %d requests' % self.request_limit)
        if not self.is_data(request):
            await request.aread()
            return await self.serve(request)
        f = self.plan.begin_attempt()
        kind = f['kind'] if f else None
        if kind == 'connect':
            self.plan.received.append(0)
            raise transport_error(f, 'ConnectError', 'injected: connection refused', request)
        if kind == 'send':
            got = 0
            if f['j'] > 0:
                it = request.stream.__aiter__()
                n = 0
                while n < f['j']:
                    try:
                        part = await it.__anext__()
                    except StopAsyncIteration:
                        break
                    n += 1
                    got += len(part)
            self.plan.received.append(got)
            raise transport_error(f, 'WriteError', 'injected: connection reset after %d request bytes' % got, request)
        await request.aread()
        self.plan.received.append(len(request.content))
        self.plan.bodies.append(bytes(request.content))
        if kind == 'status':
            headers = {}
            if f.get('retry_after') is not None:
                headers['retry-after'] = str(f['retry_after'])
            return httpx.Response(f['code'], headers=headers, **self.error_body(f['code']))
        if kind == 'lost':
            await self.serve(request)
            raise transport_error(f, 'ReadError', 'injected: response lost', request)
        resp = await self.serve(request)
        if kind == 'cut' and resp.status_code == 200:
            data = resp.content
            h = {k: v for k, v in resp.headers.items() if k.lower() not in ('content-length', 'transfer-encoding')}
            h['content-length'] = str(len(data))
            return httpx.Response(200, headers=h, stream=_Broken(data, min(f['k'], len(data)), self.piece, f))
        return resp


def install(backend, transport):
    """Point a replicat S3Compatible / B2 backend at `transport`; the response hooks of the adapter are kept."""
    old = backend._client
    backend._client = httpx.AsyncClient(transport=transport, timeout=None, event_hooks=old.event_hooks)
    return old


# ------------------------------------------------------------------------------------------------ streams handed to the adapters
class Payload(io.BytesIO):
    """payload stream of an upload; `read` can fail (kind `src`, j = number of reads that succeed first) and every call is logged"""

    def __init__(self, data, plan=None):
        super().__init__(data)
        self.plan = plan
        self.reads = 0
        self.seeks = []
        if plan is not None:
            plan.reset_hooks.append(self._reset)

    def _reset(self):
        self.reads = 0

    def read(self, size=-1):
        f = self.plan.cur if self.plan is not None else None
        if f and f['kind'] == 'src' and self.reads >= f['j']:
            raise fault_error(f, 'payload read #%d' % self.reads)
        self.reads += 1
        return super().read(size)

    def seek(self, pos, whence=0):
        self.seeks.append((pos, whence))
        return super().seek(pos, whence)


class SinkMixin:
    def _init(self, plan):
        self.plan = plan
        self.writes = 0
        self.seeks = []
        self.truncates = []
        if plan is not None:
            plan.reset_hooks.append(self._reset)

    def _reset(self):
        self.writes = 0

    def _before_write(self):
        f = self.plan.cur if self.plan is not None else None
        if f and f['kind'] == 'sink' and self.writes >= f['j']:
            raise fault_error(f, 'sink write #%d' % self.writes)
        self.writes += 1

    def _before_truncate(self, size):
        self.truncates.append(size)
        f = self.plan.cur if self.plan is not None else None
        if f and f['kind'] == 'truncate':
            raise fault_error(f, 'sink truncate')


class MemSink(SinkMixin, io.BytesIO):
    """sink of a download kept in memory (what `Repository` uses for chunks)"""

    def __init__(self, initial, plan=None):
        io.BytesIO.__init__(self, initial)
        self._init(plan)

    def write(self, b):
        self._before_write()
        return io.BytesIO.write(self, b)

    def truncate(self, size=None):
        self._before_truncate(size)
        return io.BytesIO.truncate(self, size)

    def seek(self, pos, whence=0):
        self.seeks.append((pos, whence))
        return io.BytesIO.seek(self, pos, whence)

    def content(self):
        return self.getvalue()


class FileSink(SinkMixin):
    """sink of a download that is a real file (what `download_objects` uses); unbuffered so that what was written is on disk"""

    def __init__(self, path, initial, plan=None):
        with open(path, 'wb') as f:
            f.write(initial)
        self.path = path
        self.f = _REAL_OPEN(path, 'r+b', buffering=0)
        self._init(plan)

    def write(self, b):
        self._before_write()
        return self.f.write(b)

    def truncate(self, size=None):
        self._before_truncate(size)
        return self.f.truncate(size)

    def seek(self, pos, whence=0):
        self.seeks.append((pos, whence))
        return self.f.seek(pos, whence)

    def tell(self):
        return self.f.tell()

    def content(self):
        with _REAL_OPEN(self.path, 'rb') as g:
            return g.read()

    def close(self):
        self.f.close()


# ------------------------------------------------------------------------------------------------ local backend
_REAL_OPEN = io.open


class _FaultyFile:
    """a real file object whose write / read fails at the call the plan says; everything else is forwarded"""

    def __init__(self, f, plan, mode):
        self._f, self._plan, self._mode = f, plan, mode
        self._n = 0
        self._bytes = 0

    def __getattr__(self, a):
        return getattr(self._f, a)

    def __enter__(self):
        self._f.__enter__()
        return self

    def __exit__(self, *a):
        if self._mode == 'w':
            self._plan.received.append(self._bytes)
        return self._f.__exit__(*a)

    def __iter__(self):
        return iter(self._f)

    def write(self, b):
        f = self._plan.cur
        if f and f['kind'] == 'write' and self._n >= f['j']:
            raise fault_error(f, 'temp file write #%d' % self._n)
        self._n += 1
        self._bytes += len(b)
        return self._f.write(b)

    def read(self, *a):
        f = self._plan.cur
        if f and f['kind'] == 'read' and self._n >= f['j']:
            raise fault_error(f, 'object read #%d' % self._n)
        self._n += 1
        return self._f.read(*a)


class LocalInjector:
    """Context manager: while active, `open` / `io.open` / `os.replace` / `os.rename` below `root` follow the plan.
    `op` is 'upload' or 'download'.  Counts attempts (temp files created resp. opens of the object for reading)."""

    def __init__(self, root, plan, op):
        self.root, self.plan, self.op = os.path.realpath(str(root)), plan, op
        self.mktemp_pending = False
        self.renames = 0
        self.temps_created = 0
        self.state_faults = 0     # faults realised as a change of the directory (the OS raised the exception itself)
        self.synthetic_fallbacks = 0
        self._hidden = None       # (hidden path, real path) of an object that is away for one attempt

    # ---- faults that are a state of the directory, not a raised exception
    @staticmethod
    def _is_state(f):
        return bool(f) and bool(f.get('state'))

    def _vanish_dir(self, d):
        """what a concurrent `clean` does to an empty directory; False if the directory is not empty (it cannot vanish)"""
        try:
            os.rmdir(d)
        except OSError:
            self.synthetic_fallbacks += 1
            return False
        self.state_faults += 1
        return True

    def _restore_hidden(self):
        if self._hidden is not None:
            hidden, real = self._hidden
            self._hidden = None
            self._saved[3](hidden, real)

    def _mine(self, file):
        if isinstance(file, int):
            return False
        try:
            p = os.path.realpath(os.fspath(file))
        except TypeError:
            return False
        return p == self.root or p.startswith(self.root + os.sep)

    def _open(self, file, mode='r', *a, **k):
        if not self._mine(file):
            return _REAL_OPEN(file, mode, *a, **k)
        if self.op == 'upload':
            if k.get('opener') is not None:                   # tempfile.NamedTemporaryFile creating the temp file
                f = self.plan.begin_attempt()
                self.mktemp_pending = True
                if f and f['kind'] == 'mktemp':
                    self.mktemp_pending = False
                    self.plan.received.append(0)
                    if self._is_state(f) and self._vanish_dir(file):     # `file` is the directory the temp file is created in
                        return _REAL_OPEN(file, mode, *a, **k)           # … and the OS says ENOENT by itself
                    raise fault_error(f, 'creating the temporary file')
                self.temps_created += 1
                return _REAL_OPEN(file, mode, *a, **k)
            if any(c in mode for c in 'wax+'):
                if not self.mktemp_pending:
                    self.plan.begin_attempt()
                self.mktemp_pending = False
                f = self.plan.cur
                if f and f['kind'] == 'open':
                    self.plan.received.append(0)
                    if self._is_state(f):
                        try:
                            os.unlink(file)
                        except OSError:
                            pass
                        if self._vanish_dir(os.path.dirname(os.fspath(file))):
                            return _REAL_OPEN(file, mode, *a, **k)       # raises FileNotFoundError by itself
                    raise fault_error(f, 'opening the temporary file for writing')
                return _FaultyFile(_REAL_OPEN(file, mode, *a, **k), self.plan, 'w')
            return _REAL_OPEN(file, mode, *a, **k)
        # download
        if 'r' in mode and '+' not in mode:
            self._restore_hidden()
            f = self.plan.begin_attempt()
            if f and f['kind'] == 'open':
                if self._is_state(f):
                    hidden = os.path.join(os.path.dirname(self.root), '.c12-away-%d' % os.getpid())
                    self._saved[3](os.fspath(file), hidden)
                    self._hidden = (hidden, os.fspath(file))
                    self.state_faults += 1
                    return _REAL_OPEN(file, mode, *a, **k)               # raises FileNotFoundError by itself
                raise fault_error(f, 'opening the object for reading')
            return _FaultyFile(_REAL_OPEN(file, mode, *a, **k), self.plan, 'r')
        return _REAL_OPEN(file, mode, *a, **k)

    def _replace(self, real):
        def wrapped(src, dst, *a, **k):
            if self._mine(dst):
                f = self.plan.cur
                if f and f['kind'] == 'rename':
                    if self._is_state(f):
                        try:
                            os.unlink(src)
                        except OSError:
                            self.synthetic_fallbacks += 1
                        else:
                            self.state_faults += 1
                            return real(src, dst, *a, **k)               # raises FileNotFoundError by itself
                    raise fault_error(f, 'renaming the temporary file')
                self.renames += 1
            return real(src, dst, *a, **k)
        return wrapped

    def __enter__(self):
        self._saved = (io.open, builtins.open, os.replace, os.rename)
        io.open = builtins.open = self._open
        os.replace = self._replace(self._saved[2])
        os.rename = self._replace(self._saved[3])
        return self

    def __exit__(self, *a):
        io.open, builtins.open, os.replace, os.rename = self._saved
        self._restore_hidden()
        return False
