"""Tagged transparent adapters (C05 / C14 / C04 tie to the symbolic model `ReplicatModel/Sym.lean`).

For the duration of a case every cryptographic adapter of replicat (`replicat.utils.adapters._adapters_mapping`) is replaced by
a *transparent* one: each primitive returns a 16-byte TOKEN interned in a registry (token → (kind, args)), `os.urandom` inside
the adapters module and the cipher's nonce/key generators return counter-based unique values with a recorded class
(`key` = must stay secret, `nonce` = used in the clear).  Everything replicat then writes — object names, object contents, key
files — parses back into the term algebra of the Lean model (JSON form of `Driver/Sym.lean`).

`SymWorld` drives the REAL `Repository` (memory backend, one worker so that the upload order is the stream order) through
init / add-key / snapshot / delete / clean with several users, records every upload with its payload, and builds the matching
`sym.run` request for the model.  `unify` compares model terms and parsed real terms up to a bijection of the fresh values
(per class), i.e. structurally: which key, which nonce class, which payload.

Client state (C05): a `SymWorld` may be given a cache directory, an existing backend object (re-initialised location) and a
shared clock, so that several repositories are driven from "one machine"; the view each unlocked client had of `encrypted` is
recorded (`views`).  All new parameters are keyword-only with the old behaviour as default (C04 / C14 are unaffected).
"""
import base64
import contextlib
import dataclasses
import datetime as _dt
import json
import os
import re

from . import runner as R

TOK = b'\xa7T'
RND = b'\xa8R'


class Unparsed(Exception):
    pass


class Registry:
    def __init__(self):
        self.tokens = {}        # token -> (kind, args…)
        self.by_args = {}       # (kind, args…) -> token   (hash / mac / kdf are functions)
        self.rand = {}          # random bytes -> (class, index)
        self.count = 0
        self.encrypt_calls = []  # (key bytes, nonce bytes) in call order
        self.decrypt_calls = []  # (key bytes, ok)
        self.hash_calls = 0

    def fresh(self, cls, n):
        self.count += 1
        body = RND + cls[:1].encode() + self.count.to_bytes(5, 'big')
        v = (body * ((n // len(body)) + 1))[:n] if n >= len(body) else body[-n:]
        self.rand[v] = (cls, self.count)
        return v

    def token(self, kind, *args, functional=True):
        key = (kind,) + tuple(bytes(a) for a in args)
        if functional and key in self.by_args:
            return self.by_args[key]
        tok = TOK + kind[:1].encode() + (len(self.tokens) + 1).to_bytes(13, 'big')
        self.tokens[tok] = key
        if functional:
            self.by_args[key] = tok
        return tok


REG = None   # the registry of the running case


def _mods():
    from replicat import exceptions
    from replicat.utils import adapters
    return adapters, exceptions


def make_adapters():
    adapters, exceptions = _mods()

    class _Hasher(adapters.IncrementalHasher):
        def __init__(self):
            self.buf = bytearray()

        def feed(self, data):
            self.buf += data

        def digest(self):
            REG.hash_calls += 1
            return REG.token('hash', bytes(self.buf))

    class _HashMixin:
        def digest(self, data):
            REG.hash_calls += 1
            return REG.token('hash', bytes(data))

        def incremental_hasher(self):
            return _Hasher()

    class blake2b(_HashMixin, adapters.KDFAdapter, adapters.MACAdapter, adapters.HashAdapter):
        def __init__(self, *, length=64):
            self.digest_size = length

        def generate_derivation_params(self):
            return REG.fresh('key', 16)          # salt of the SHARED kdf: lives in the private section

        def derive(self, key_material, *, params, context=None):
            return REG.token('kdf', key_material, params, context or b'')

        def generate_mac_params(self):
            return REG.fresh('key', 64)

        def mac(self, message, *, params):
            return REG.token('mac', params, message)

    class sha2(_HashMixin, adapters.HashAdapter):
        def __init__(self, *, bits=512):
            self.bits = bits

    class sha3(_HashMixin, adapters.HashAdapter):
        def __init__(self, *, bits=512):
            self.bits = bits

    class scrypt(adapters.KDFAdapter):
        def __init__(self, *, length, n=1 << 20, r=8, p=1):
            self.length, self.n, self.r, self.p = length, n, r, p

        def generate_derivation_params(self):
            return REG.fresh('nonce', 16)        # salt of the USER kdf: stored in the clear in the key file

        def derive(self, pwd, *, params, context=None):
            return REG.token('kdf', pwd, params, context or b'')

    class _Cipher(adapters.CipherAdapter):
        @property
        def key_bytes(self):
            return 16

        def generate_key(self):
            return REG.fresh('key', 16)

        def encrypt(self, data, key):
            nonce = REG.fresh('nonce', 12)
            REG.encrypt_calls.append((bytes(key), nonce))
            return REG.token('enc', key, nonce, bytes(data), functional=False)

        def decrypt(self, data, key):
            e = REG.tokens.get(bytes(data))
            ok = e is not None and e[0] == 'enc' and e[1] == bytes(key)
            REG.decrypt_calls.append((bytes(key), ok))
            if not ok:
                raise exceptions.DecryptionError
            return e[3]

    class aes_gcm(_Cipher):
        def __init__(self, *, key_bits=256, nonce_bits=96):
            if key_bits not in (128, 192, 256):
                raise ValueError('Invalid key size')
            self.key_bits, self.nonce_bits = key_bits, nonce_bits

    class chacha20_poly1305(_Cipher):
        def __init__(self):
            pass

    return {c.__name__: c for c in (blake2b, sha2, sha3, scrypt, aes_gcm, chacha20_poly1305)}


class _OsProxy:
    """`adapters.os` for the duration of a case: `urandom` is the counter (class `key`: the only remaining caller is the
    chunker-key generator)."""

    def __getattr__(self, n):
        return getattr(os, n)

    def urandom(self, n):
        return REG.fresh('key', n)


@contextlib.contextmanager
def tagged():
    global REG
    adapters, _ = _mods()
    old_map = dict(adapters._adapters_mapping)
    old_os = adapters.os
    old_reg = REG
    REG = Registry()
    adapters._adapters_mapping.update(make_adapters())
    adapters.os = _OsProxy()
    try:
        yield REG
    finally:
        adapters._adapters_mapping.clear()
        adapters._adapters_mapping.update(old_map)
        adapters.os = old_os
        REG = old_reg


# ------------------------------------------------------------------------------------------------ terms (JSON form)
def pub(n):
    return {'pub': n}


def sec(n):
    return {'sec': n}


def pair(a, b):
    return {'pair': [a, b]}


def tlist(xs):
    out = None
    for x in reversed(list(xs)):
        out = pair(x, out)
    return out


def expand(t):
    """remove the `list` sugar"""
    if t is None:
        return None
    (k, v), = t.items()
    if k == 'list':
        return tlist(expand(x) for x in v)
    if k in ('pub', 'sec', 'nonce', 'key'):
        return t
    if k == 'hash':
        return {'hash': expand(v)}
    return {k: [expand(x) for x in v]}


def enc_ref(r):
    return pair(pub(r[0]), pair(pub(r[1]), pair(pub(r[2]), pub(r[3]))))


def enc_data(d):
    files = tlist(pair(f['path'], pair(tlist(enc_ref(r) for r in f['refs']), pair(f['digest'], f['md']))) for f in d['files'])
    return pair(pub(d['ts']), pair(files, d['note']))


CONFIG_LOC = pub(0)


class Parser:
    """real bytes / JSON → terms"""

    def __init__(self, reg):
        self.reg = reg
        self.secret_bytes = {}     # raw bytes -> sec id     (passwords, chunk plaintexts, file contents)
        self.secret_strings = {}   # str -> sec id           (paths, notes)
        self.secret_json = {}      # canonical json -> sec id (metadata records)
        self.pub_ids = {}          # interned public strings / numbers -> id ≥ 1000
        self.ts_rank = {}          # utc_timestamp string -> rank
        self.nsec = 0

    def _new_sec(self):
        self.nsec += 1
        return self.nsec

    def secret(self, b):
        b = bytes(b)
        if b not in self.secret_bytes:
            self.secret_bytes[b] = self._new_sec()
        return sec(self.secret_bytes[b])

    def secret_str(self, s):
        if s not in self.secret_strings:
            self.secret_strings[s] = self._new_sec()
        return sec(self.secret_strings[s])

    def secret_obj(self, o):
        k = json.dumps(o, sort_keys=True)
        if k not in self.secret_json:
            self.secret_json[k] = self._new_sec()
        return sec(self.secret_json[k])

    def pubid(self, x):
        k = repr(x)
        if k not in self.pub_ids:
            self.pub_ids[k] = 1000 + len(self.pub_ids)
        return pub(self.pub_ids[k])

    # ---- bytes
    def bytes_term(self, b):
        b = bytes(b)
        if b == b'':
            return None
        e = self.reg.tokens.get(b)
        if e is not None:
            kind = e[0]
            if kind == 'hash':
                return {'hash': self.bytes_term(e[1])}
            if kind == 'mac':
                return {'mac': [self.bytes_term(e[1]), self.bytes_term(e[2])]}
            if kind == 'kdf':
                return {'kdf': [self.bytes_term(e[1]), self.bytes_term(e[2]), self.bytes_term(e[3])]}
            if kind == 'enc':
                return {'enc': [self.bytes_term(e[1]), self.bytes_term(e[2]), self.bytes_term(e[3])]}
        r = self.reg.rand.get(b)
        if r is not None:
            return {r[0]: r[1]}
        if b in self.secret_bytes:
            return sec(self.secret_bytes[b])
        # serialized JSON (payload of an encryption, or an unencrypted object)?
        if b[:1] in (b'{', b'['):
            try:
                o = json.loads(b)
            except ValueError:
                o = None
            if o is not None:
                return self.payload(o)
        # a raw byte string that CONTAINS a token / random / secret is something the model has no constructor for
        raise Unparsed(b[:64])

    def payload(self, o):
        if isinstance(o, list):
            return tlist(self.generic(x) for x in o)                       # the chunk table
        if isinstance(o, dict) and 'utc_timestamp' in o:
            return enc_data(self.data_struct(o))
        if isinstance(o, dict) and 'shared_key' in o:
            return self.private_term(o)
        if isinstance(o, dict) and set(o) == {'chunks', 'data'}:
            return pair(self.generic(o['chunks']) if not isinstance(o['chunks'], list) else tlist(self.generic(x) for x in o['chunks']),
                        self.payload(o['data']) if isinstance(o['data'], dict) and '!b' not in o['data'] else self.generic(o['data']))
        if isinstance(o, dict) and set(o) == {'kdf', 'kdf_params', 'private'}:
            return self.key_term(o)
        return self.generic(o)

    def generic(self, o):
        if isinstance(o, dict):
            if set(o) == {'!b'}:
                return self.bytes_term(base64.standard_b64decode(o['!b']))
            return tlist(pair(self.pubid(k), self.generic(v)) for k, v in o.items())
        if isinstance(o, (bytes, bytearray)):
            return self.bytes_term(o)
        if isinstance(o, list):
            return tlist(self.generic(x) for x in o)
        if isinstance(o, str):
            if o in self.secret_strings:
                return sec(self.secret_strings[o])
            return self.pubid(o)
        return self.pubid(o)

    def data_struct(self, o):
        """snapshot private data (already type-reversed or raw JSON) → the `Data` request structure of the driver"""
        ts = self.ts_rank.setdefault(o['utc_timestamp'], len(self.ts_rank) + 1)
        files = []
        for f in o['files']:
            files.append({'path': self.secret_str(f['path']),
                          'refs': [[c['index'], c['counter'], c['range'][0], c['range'][1]] for c in f['chunks']],
                          'digest': self.generic(f['digest']) if f.get('digest') is not None else None,
                          'md': self.secret_obj(f.get('metadata'))})
        note = self.secret_str(o['note']) if o.get('note') is not None else None
        extra = set(o) - {'utc_timestamp', 'files', 'note'}
        if extra:
            raise Unparsed(('unexpected snapshot data keys %r' % sorted(extra)).encode())
        return {'ts': ts, 'files': files, 'note': note}

    def private_term(self, o):
        cfg = pair(self.generic(o['shared_kdf']), self.generic(o['mac']))
        extra = set(o) - {'shared_key', 'shared_kdf', 'shared_kdf_params', 'mac', 'mac_params', 'chunker_params'}
        if extra:
            raise Unparsed(('unexpected private keys %r' % sorted(extra)).encode())
        return pair(cfg, pair(self.generic(o['shared_key']), pair(self.generic(o['shared_kdf_params']),
                    pair(self.generic(o['mac_params']), pair(self.generic(o['chunker_params']), None)))))

    def key_term(self, o):
        extra = set(o) - {'kdf', 'kdf_params', 'private'}
        if extra:
            raise Unparsed(('unexpected key-file members %r' % sorted(extra)).encode())
        return pair(self.generic(o['kdf']), pair(self.generic(o['kdf_params']), self.generic(o['private'])))

    # ---- locations
    def loc_term(self, location):
        if location == 'config':
            return CONFIG_LOC
        m = re.fullmatch(r'data/([0-9a-f]{2})/([0-9a-f]{2})/([0-9a-f]*)-([0-9a-f]+)', location)
        if m:
            return pair(pub(1), pair(self.bytes_term(bytes.fromhex(m[1] + m[2] + m[3])), self.bytes_term(bytes.fromhex(m[4]))))
        m = re.fullmatch(r'snapshots/([0-9a-f]{2})/([0-9a-f]*)-([0-9a-f]+)', location)
        if m:
            return pair(pub(2), pair(self.bytes_term(bytes.fromhex(m[1] + m[2])), self.bytes_term(bytes.fromhex(m[3]))))
        raise Unparsed(location.encode())


def unify(model, real, bij):
    """structural equality up to a bijection of fresh values per class; `bij` = {'key': ({m: r}, {r: m}), 'nonce': (…)}.
    Returns None or a short description of the first difference."""
    if model is None or real is None:
        return None if model is None and real is None else f'{_short(model)} vs {_short(real)}'
    (km, vm), = model.items()
    (kr, vr), = real.items()
    if km != kr:
        return f'{_short(model)} vs {_short(real)}'
    if km in ('pub', 'sec'):
        return None if vm == vr else f'{_short(model)} vs {_short(real)}'
    if km in ('key', 'nonce'):
        fw, bw = bij.setdefault(km, ({}, {}))
        if fw.get(vm, vr) != vr or bw.get(vr, vm) != vm:
            return f'fresh {km}: model #{vm} ↔ real #{fw.get(vm)} / real #{vr} ↔ model #{bw.get(vr)}'
        fw[vm], bw[vr] = vr, vm
        return None
    if km == 'hash':
        return unify(vm, vr, bij)
    for a, b in zip(vm, vr):
        d = unify(a, b, bij)
        if d:
            return d
    return None


def _short(t, depth=3):
    if t is None:
        return 'nil'
    (k, v), = t.items()
    if k in ('pub', 'sec', 'key', 'nonce'):
        return f'{k}{v}'
    if depth == 0:
        return k + '(…)'
    if k == 'hash':
        return 'hash(' + _short(v, depth - 1) + ')'
    return k + '(' + ','.join(_short(x, depth - 1) for x in v) + ')'


def atoms(t, out=None):
    """all atoms of a term as a set of (class, id)"""
    out = set() if out is None else out
    if t is None:
        return out
    (k, v), = t.items()
    if k in ('pub', 'sec', 'key', 'nonce'):
        out.add((k, v))
    elif k == 'hash':
        atoms(v, out)
    else:
        for x in v:
            atoms(x, out)
    return out


# ------------------------------------------------------------------------------------------------ the driven repository
class FakeDatetime(_dt.datetime):
    _now = _dt.datetime(2031, 1, 1, 0, 0, 0)

    @classmethod
    def utcnow(cls):
        return cls._now


class RecBackend(R.MemBackend):
    """memory backend that keeps every uploaded payload and every deletion, in order"""

    def __init__(self):
        super().__init__()
        self.events = []   # ('put', name, bytes) | ('del', name)

    def upload(self, name, data):
        super().upload(name, data)
        self.events.append(('put', name, bytes(data)))

    def upload_stream(self, name, stream, length, chunk_size=128_000):
        super().upload_stream(name, stream, length, chunk_size)
        self.events.append(('put', name, self.objects[name]))

    def delete(self, name):
        super().delete(name)
        self.events.append(('del', name))


class RecChunker:
    def __init__(self, inner):
        self.inner = inner
        self.alignment = inner.alignment
        self.chunks = []

    def __call__(self, it, *, params=None):
        for c in self.inner(it, params=params):
            self.chunks.append(bytes(c))
            yield c

    def __getattr__(self, n):
        return getattr(self.inner, n)


class SymWorld:
    """One real repository + several keys; every command is mirrored as an op of the symbolic model.
    Works with the tagged adapters (symbolic tie) and with the real ones (direct oracles) alike.

    Client state (C05): every command is issued by a fresh `Repository` object created with `cache_directory` (default: none, as
    before).  Several `SymWorld`s may be given the SAME directory (the CLI's default `~/.cache/replicat` is shared by every
    repository of a user), the same `backend` object (a location that was wiped and re-initialised: the caller clears
    `backend.objects` / `backend.events` first) and the same `ticker` (one wall clock).  `views` records, per unlocked client, what
    it concluded `props.encrypted` to be — the input of `runView` in the Lean model."""

    def __init__(self, scratch, settings, password=b'pw-0-secret', parser=None, *, backend=None, cache_directory=None,
                 src_name='sym_src', ticker=None):
        import replicat.repository as rr
        self.rr = rr
        rr.datetime = FakeDatetime
        self.scratch = scratch
        self.backend = backend if backend is not None else RecBackend()
        self.cache_directory = cache_directory
        self.parser = parser
        self.enc = settings.get('encryption', {}) is not None
        self.src = scratch.dir(src_name)
        self.clock = 0
        self.ticker = ticker       # optional {'t': n} shared by the repositories of one case
        self.views = []            # what each unlocked client believed `encrypted` to be, in command order
        self.last_view = None
        self.stdout = []           # (command, text printed to stdout)
        self.keys = []             # per user: dict(key=json-able key as emitted, password, base, shared)
        self.ops = []              # model ops
        self.snaps = []            # dict(name, location, user, files {path: bytes}, result)
        self.settings = json.loads(json.dumps(settings))
        repo = R.new_repo(self.backend, concurrent=1, cache_directory=cache_directory)
        with R.quiet() as (so, _):
            res = R.run(repo.init(password=password if self.enc else None, settings=json.loads(json.dumps(settings))))
        self.stdout.append(('init', so.getvalue()))
        self.config = res.config
        self.keys.append({'key': res.key, 'password': password, 'base': None, 'shared': None})
        self.init_repo = repo

    # -- users
    _OWN = object()

    def repo(self, ui, cache_directory=_OWN):
        """a fresh client (one `Repository` object = one CLI command), unlocked as user `ui`.  `cache_directory` overrides the
        world's client state for this one client (None = a client without any local state)"""
        k = self.keys[ui]
        repo = R.new_repo(self.backend, concurrent=1, cache_directory=self.cache_directory if cache_directory is SymWorld._OWN else cache_directory)
        with R.quiet():
            if self.enc:
                R.run(repo.unlock(password=k['password'], key=self.serialized_key(ui)))
            else:
                R.run(repo.unlock())
        self.last_view = bool(repo.props.encrypted)
        self.views.append(self.last_view)
        repo.props = dataclasses.replace(repo.props, chunker=RecChunker(repo.props.chunker))
        return repo

    def serialized_key(self, ui):
        k = self.keys[ui]['key']
        return bytes(self.init_repo.serialize(k)) if isinstance(k, dict) else k

    def add_key(self, base, shared, password, kdf=None):
        if shared:
            repo = self.repo(base)
        else:
            repo = R.new_repo(self.backend, concurrent=1, cache_directory=self.cache_directory)
        with R.quiet() as (so, _):
            res = R.run(repo.add_key(password=password, settings={'encryption': {'kdf': dict(kdf or R.FAST_KDF)}}, shared=shared))
        self.stdout.append(('add_key', so.getvalue()))
        self.keys.append({'key': res.new_key, 'password': password, 'base': base, 'shared': shared})
        return len(self.keys) - 1

    # -- commands
    def tick(self):
        if self.ticker is not None:
            self.ticker['t'] += 1
            self.clock = self.ticker['t']
        else:
            self.clock += 1
        FakeDatetime._now = _dt.datetime(2031, 1, 1) + _dt.timedelta(seconds=self.clock * 11, microseconds=self.clock * 131 % 999983 + 1)

    def snapshot(self, ui, fileset, note=None, mtimes=None):
        import shutil
        for rel in list(os.listdir(self.src)):
            p = self.src / rel
            shutil.rmtree(p) if p.is_dir() else p.unlink()
        R.write_tree(self.src, {k: (v, (mtimes or {}).get(k, 10 ** 18 + 977 * len(v) + 13)) for k, v in fileset.items()})
        repo = self.repo(ui)
        self.tick()
        before = len(self.backend.events)
        res = R.snapshot(repo, [self.src], note=note)
        rec = repo.props.chunker
        ev = self.backend.events[before:]
        truth = {str(self.src / k): v for k, v in fileset.items()}
        snap = {'name': res.name, 'location': res.location, 'user': ui, 'files': truth, 'result': res, 'chunks': list(rec.chunks),
                'events': ev, 'note': note, 'repo': repo, 'view': self.last_view}
        self.snaps.append(snap)
        return snap

    def delete(self, ui, names):
        repo = self.repo(ui)
        before = len(self.backend.events)
        err = None
        try:
            with R.quiet():
                R.run(repo.delete_snapshots(list(names), confirm=False))
        except Exception as e:  # noqa: BLE001
            err = e
        return {'events': self.backend.events[before:], 'error': err}

    def clean(self, ui):
        repo = self.repo(ui)
        before = len(self.backend.events)
        with R.quiet():
            R.run(repo.clean())
        return {'events': self.backend.events[before:]}

    def restore(self, ui, snapshot_regex=None, target=None):
        """→ (exception | None, {path: bytes} | None, result)"""
        repo = self.repo(ui)
        tgt = target or self.scratch.dir()
        try:
            out = R.restore(repo, tgt, snapshot_regex=snapshot_regex)
        except BaseException as e:  # noqa: BLE001
            if isinstance(e, (KeyboardInterrupt, SystemExit)):
                raise
            return e, None, None
        got = R.read_tree(tgt)
        return None, {'/' + os.fsdecode(k): v for k, v in got.items()}, out
