"""C20 — the stack of file wrappers and the loop that drains it (model lean/ReplicatModel/IOStack.lean).

Runs the REAL classes of the tree under test: `RateLimitedIO(limit).wrap(...)` (time.sleep / perf_counter on a virtual clock;
the limiter's pause_reads / pause_writes spied on, then executed), tqdm's `CallbackIOWrapper`, `TQDMIOReader` / `TQDMIOWriter`
(`disable=True`; the tracker is a subclass of the real tqdm that logs `update` / `reset` before executing them), composed in
the order the four commands use (and a few other orders), over io.BytesIO, a real file opened `w+b`, and a stream whose reads
are short — on generated sequences of read / write / seek / tell / truncate and on `iter_chunks` drains with and without a
rewind.  Compared with the compiled model (results, final bytes, position, every call received by tracker / limiter /
callback), and with the DIRECT ORACLE: the same operations on a bare stream of the same kind (transparency), the tracker's
counter against its closed form, the pieces of iter_chunks against the content.
"""
import io
import os
import shutil

from ..common import WORK, rng_for
from . import ratelimit_real as rr
from . import vclock

LIMIT = 1024            # bytes / s, a power of two: n / LIMIT is exact in binary floating point
READER_METHS = {'read', 'seek', 'truncate'}
WRITER_METHS = {'write', 'seek', 'truncate'}
ALL_METHS = {'read', 'write', 'seek', 'tell', 'truncate'}

COMMAND_STACKS = {
    'snapshot': ['tqdmReader'], 'restore': ['tqdmWriter'],
    'upload_objects': ['tqdmReader', 'callbackR'], 'download_objects': ['tqdmWriter', 'callbackW'],
}


class ShortRaw:
    """A stream whose read(n >= 0) returns at most `cap` bytes per call (a pipe / socket / raw file would)."""

    def __init__(self, content, pos, cap):
        self._f = io.BytesIO(content)
        self._f.seek(pos)
        self._cap = cap

    def read(self, size=-1):
        if size is None or size < 0:
            return self._f.read()
        return self._f.read(min(size, self._cap))

    def write(self, data):
        return self._f.write(data)

    def seek(self, *a):
        return self._f.seek(*a)

    def tell(self):
        return self._f.tell()

    def truncate(self, *a):
        return self._f.truncate(*a)

    def getvalue(self):
        return self._f.getvalue()

    def close(self):
        self._f.close()


class Runaway(RuntimeError):
    pass


class Guard:
    """harness-side pass-through in front of the stack: a read loop that never ends is cut after 5 000 reads"""

    def __init__(self, top):
        self._top, self._n = top, 0

    def read(self, *a, **k):
        self._n += 1
        if self._n > 5000:
            raise Runaway()
        return self._top.read(*a, **k)


class Under:
    """the innermost stream of a case + how to look at it afterwards"""

    def __init__(self, case, tag):
        content = bytes.fromhex(case['content'])
        self.path = None
        if case['kind'] == 'osfile':
            d = WORK / str(os.getpid())
            d.mkdir(parents=True, exist_ok=True)
            self.path = d / f'iostack-{tag}.bin'
            self.f = open(self.path, 'w+b')
            self.f.write(content)
            self.f.flush()
            self.f.seek(case['pos'])
        elif case['cap']:
            self.f = ShortRaw(content, case['pos'], case['cap'])
        else:
            self.f = io.BytesIO(content)
            self.f.seek(case['pos'])

    def final(self):
        pos = self.f.tell()
        if self.path is not None:
            self.f.flush()
            data = self.path.read_bytes()
        else:
            data = self.f.getvalue()
        return data.hex(), pos

    def close(self):
        try:
            self.f.close()
        finally:
            if self.path is not None:
                self.path.unlink(missing_ok=True)


def call(obj, op):
    """one operation → result in the model's vocabulary"""
    m = op['m']
    try:
        fn = getattr(obj, m)
        if m == 'read':
            r = fn() if op.get('noarg') else fn(op['n'])
        elif m == 'write':
            r = fn(bytes.fromhex(op['d']))
        elif m == 'seek':
            r = fn(op['off']) if op.get('noarg') and op['whence'] == 0 else fn(op['off'], op['whence'])
        elif m == 'tell':
            r = fn()
        else:
            r = fn() if op.get('noarg') and op['n'] is None else fn(op['n'])
    except (AttributeError, io.UnsupportedOperation):
        return {'e': 'noMethod'}
    except (ValueError, OSError):
        return {'e': 'invalid'}
    if isinstance(r, (bytes, bytearray)):
        return {'b': bytes(r).hex()}
    if isinstance(r, int) and not isinstance(r, bool):
        return {'n': r}
    return {'other': repr(r)[:60]}


def build_stack(utils, under, layers, events):
    """layers outermost first → the top object"""
    from tqdm import tqdm as real_tqdm
    from tqdm.utils import CallbackIOWrapper

    class SpyTqdm(real_tqdm):
        def update(self, n=1):
            events.append(['update', n])
            return super().update(n)

        def reset(self, total=None):
            events.append(['reset', total])
            return super().reset(total)

    s = under
    for layer in reversed(layers):
        if layer == 'limiter':
            rl = utils.RateLimitedIO(LIMIT)
            for w, name in ((0, 'pause_reads'), (1, 'pause_writes')):
                orig = getattr(rl, name)

                def spy(seconds, _w=w, _orig=orig):
                    x = seconds * LIMIT
                    events.append(['pause', _w, int(x) if x == int(x) else x])
                    return _orig(seconds)
                setattr(rl, name, spy)
            s = rl.wrap(s)
        elif layer in ('callbackR', 'callbackW'):
            s = CallbackIOWrapper(lambda n: events.append(['callback', n]), s, 'read' if layer == 'callbackR' else 'write')
        elif layer in ('tqdmReader', 'tqdmWriter'):
            old = utils.tqdm
            utils.tqdm = SpyTqdm
            try:
                cls = utils.TQDMIOReader if layer == 'tqdmReader' else utils.TQDMIOWriter
                s = cls(s, desc='x', total=None, position=0, disable=True)
            finally:
                utils.tqdm = old
        else:
            raise ValueError(layer)
    return s


def run_real(case):
    utils = rr.utils_module()
    clock = vclock.InlineClock(0.0)
    events = []
    under = Under(case, 'stack')
    try:
        with rr.patched_time(utils, clock):
            top = build_stack(utils, under.f, case['layers'], events)
            results = [call(top, op) for op in case.get('ops', [])]
            res = {'results': results}
            if 'drain' in case:
                mark = len(events)
                if case['drain']['rewind']:
                    call(top, {'m': 'seek', 'off': 0, 'whence': 0, 'noarg': True})
                    mark = len(events)
                pieces, ended = [], True
                try:
                    it = utils.iter_chunks(Guard(top), case['drain']['cs'])
                    for i, p in enumerate(it):
                        pieces.append(bytes(p).hex())
                        if i > 5000:
                            ended = False
                            break
                except (AttributeError, io.UnsupportedOperation, ValueError, OSError, Runaway):
                    ended = False
                res.update(pieces=pieces, ended=ended, drain_events=events[mark:])
        res['events'] = events
        res['content'], res['pos'] = under.final()
        res['slept'] = clock.now
        return res
    finally:
        under.close()


def run_bare(case):
    """the same operations on a bare stream of the same kind; a method the top wrapper does not have by design raises and does nothing"""
    top = case['layers'][0] if case['layers'] else None
    offered = READER_METHS if top == 'tqdmReader' else WRITER_METHS if top == 'tqdmWriter' else ALL_METHS
    under = Under(case, 'bare')
    try:
        results = [call(under.f, op) if op['m'] in offered else {'e': 'noMethod'} for op in case.get('ops', [])]
        res = {'results': results, 'offered': offered}
        if 'drain' in case and 'read' in offered:
            if case['drain']['rewind']:
                under.f.seek(0)
            res['rest'] = under.f.read().hex() if not case['cap'] else under.f.read(-1).hex()
        res['content'], res['pos'] = under.final()
        return res
    finally:
        under.close()


def closed_count(case, bare_results):
    """the tracker's counter: the position returned by the last successful seek (0 at the last successful truncate — the code
    resets the bar there although the position does not move), plus the bytes moved since"""
    top = case['layers'][0] if case['layers'] else None
    if top not in ('tqdmReader', 'tqdmWriter'):
        return None
    n = 0
    for op, r in zip(case.get('ops', []), bare_results):
        if 'e' in r:
            continue
        if op['m'] == 'seek':
            n = r['n']
        elif op['m'] == 'truncate':
            n = 0
        elif op['m'] == 'read' and top == 'tqdmReader':
            n += len(r['b']) // 2
        elif op['m'] == 'write' and top == 'tqdmWriter':
            n += r['n']
    return n


def tracker_n(events):
    n = 0
    for e in events:
        if e[0] == 'update':
            n += e[1]
        elif e[0] == 'reset':
            n = 0
    return n


def model_request(case):
    q = {'op': 'iostack.drain' if 'drain' in case else 'iostack.run', 'kind': case['kind'], 'content': case['content'], 'pos': case['pos'],
         'cap': case['cap'], 'layers': case['layers'],
         'ops': [{k: v for k, v in op.items() if k != 'noarg'} for op in case.get('ops', [])]}
    if 'drain' in case:
        q.update(cs=case['drain']['cs'], rewind=case['drain']['rewind'])
    return q


def oracle(case, real, bare):
    """the property's own statement on the implementation → [(sig, what)]"""
    bad = []
    ops = case.get('ops', [])
    for i, (a, b) in enumerate(zip(real['results'], bare['results'])):
        if a != b:
            bad.append((f'iostack:not-transparent:{ops[i]["m"]}', f'operation #{i} {ops[i]} through {case["layers"]} returned {a}, the bare stream {b}'))
            break
    if 'drain' not in case:
        if not bad and (real['content'], real['pos']) != (bare['content'], bare['pos']):
            bad.append(('iostack:not-transparent:final-state', f'after {ops} through {case["layers"]} the underlying stream holds {real["content"]} at {real["pos"]}, '
                        f'the bare stream {bare["content"]} at {bare["pos"]}'))
        want = closed_count(case, bare['results'])
        if want is not None and tracker_n(real['events']) != want:
            bad.append(('iostack:tracker-count', f'tracker shows {tracker_n(real["events"])} after {ops}; last seek position / 0 after truncate + bytes moved since = {want}'))
    elif 'rest' in bare and not bad:
        cs = case['drain']['cs']
        pieces = [bytes.fromhex(p) for p in real['pieces']]
        whole = b''.join(pieces).hex()
        sig = 'iostack:rewind-redelivery' if case['drain']['rewind'] else 'iostack:iter-chunks'
        if cs >= 1 or cs < 0:
            if whole != bare['rest'] or not real['ended']:
                bad.append((sig, f'iter_chunks(chunk_size={cs}) through {case["layers"]} (cap {case["cap"]}) delivered {whole}, the stream held {bare["rest"]} from there'))
            elif any(len(p) == 0 or (cs >= 1 and len(p) > cs) for p in pieces):
                bad.append((sig, f'iter_chunks(chunk_size={cs}) yielded pieces of {[len(p) for p in pieces]} bytes'))
        elif pieces or not real['ended']:
            bad.append((sig, f'iter_chunks(chunk_size=0) yielded {len(pieces)} pieces, ended normally: {real["ended"]}'))
    return bad


def compare_model(case, real, m):
    """→ None or a description of the first difference"""
    if 'error' in m:
        return f'driver: {m["error"]}'
    if 'drain' in case:
        if m['pre_results'] != real['results']:
            return f'results before the drain: model {m["pre_results"]} real {real["results"]}'
        if m['pieces'] != real['pieces'] or m['ended'] != real['ended']:
            return f'pieces: model {m["pieces"]} ended={m["ended"]}, real {real["pieces"]} ended={real["ended"]}'
        if m['events'] != real['drain_events']:
            return f'calls during the drain: model {m["events"]} real {real["drain_events"]}'
    else:
        if m['results'] != real['results']:
            i = next((i for i, (a, b) in enumerate(zip(m['results'], real['results'])) if a != b), 0)
            return f'result #{i} of {case["ops"][i]}: model {m["results"][i]} real {real["results"][i]}'
        if m['events'] != real['events']:
            return f'calls to tracker / limiter / callback: model {m["events"]} real {real["events"]}'
        if not m.get('bare_agrees'):
            return 'model: stack and bare run differ (theorem iostack_transparent contradicted)'
    if (m['content'], m['pos']) != (real['content'], real['pos']):
        return f'final stream: model {m["content"]}@{m["pos"]} real {real["content"]}@{real["pos"]}'
    return None


def gen_case(r, force_drain=None):
    name = r.choice(list(COMMAND_STACKS))
    layers = list(COMMAND_STACKS[name])
    u = r.random()
    if u < 0.55:
        layers.append('limiter')
    elif u > 0.93:       # other compositions: the limiter alone (as the unit tests use it), wrappers in another order
        layers = r.choice([['limiter'], [], ['callbackR', 'limiter'], ['limiter', 'callbackW'], ['tqdmReader', 'limiter', 'callbackR']])
        name = 'other'
    n = r.choice([0, 1, 2, 5, 9, 16, 30])
    content = bytes(r.randrange(256) for _ in range(n))
    kind = 'osfile' if r.random() < 0.15 else 'bytesio'
    cap = 0 if kind == 'osfile' else r.choice([0, 0, 0, 1, 3, 7])
    pos = r.choice([0, 0, 0, r.randrange(n + 1), n, n + r.randrange(4)])
    case = {'site': name, 'kind': kind, 'content': content.hex(), 'pos': pos, 'cap': cap, 'layers': layers}
    writer = bool(layers) and layers[0] == 'tqdmWriter'
    drain = force_drain if force_drain is not None else False
    ops = []
    for _ in range(r.randrange(0, 4) if drain else r.randrange(1, 13)):
        w = r.random()
        if w < (0.12 if writer else 0.4):
            ops.append({'m': 'read', 'n': r.choice([None, -1, 0, 1, 2, 3, 5, 8, n, n + 2]), 'noarg': r.random() < 0.2})
            if ops[-1]['noarg']:
                ops[-1]['n'] = None
        elif w < 0.55:
            ops.append({'m': 'write', 'd': bytes(r.randrange(256) for _ in range(r.choice([0, 1, 2, 4, 9]))).hex()})
        elif w < 0.8:
            wh = r.choice([0, 0, 0, 1, 1, 2, 2, 5])
            off = r.choice([0, 0, 1, 2, n, n + 3, -1, -2, -n, -n - 2, r.randrange(-n - 1, n + 4)])
            ops.append({'m': 'seek', 'off': off, 'whence': wh, 'noarg': wh == 0 and r.random() < 0.6})
        elif w < 0.88:
            ops.append({'m': 'tell'})
        else:
            v = r.choice([None, None, 0, 1, n, n + 3, -1, r.randrange(n + 2)])
            ops.append({'m': 'truncate', 'n': v, 'noarg': v is None and r.random() < 0.5})
    if drain:
        ops = [o for o in ops if o['m'] != 'write' or not writer]
        case['drain'] = {'cs': r.choice([1, 2, 3, 4, 8, 16, 64, 128_000, 0, -1]) if r.random() < 0.9 else r.choice([1, 5]), 'rewind': r.random() < 0.5}
    case['ops'] = ops
    return case


def eval_cases(cases, drv, out):
    reals, bares = [], []
    for c in cases:
        reals.append(run_real(c))
        bares.append(run_bare(c))
    models = drv.ask_many([model_request(c) for c in cases]) if drv is not None else [None] * len(cases)
    for c, real, bare, m in zip(cases, reals, bares, models):
        rp = {'kind': 'iostack', 'case': c}
        bad = oracle(c, real, bare)
        for sig, what in bad:
            out.violation(sig, what, rp)
        if m is not None:
            d = compare_model(c, real, m)
            if d:
                out.disagreement('iostack: ' + d, rp)
            elif not bad:
                out.traces_validated += 1
    return reals


def run_stream(out, drv, info):
    quick = out.tier == 'quick'
    notes = info.get('extract_notes', {}) or {}
    changed = not info.get('proof_ok', True) or any(k.startswith('iostack.') for k in notes)
    if any(k.startswith('iostack.') for k in notes):
        out.extra['iostack_source_shape_changed'] = sorted(k for k in notes if k.startswith('iostack.'))
    boost = 3 if changed else 1
    r = rng_for(out.seed, 'C20-iostack')
    out.rule += (' | wrapper stack: the four commands\' stacks with and without the limiter (+ other orders) over BytesIO / a real w+b file / a short-reading stream; '
                 '0–12 operations (read None/-1/0/n/no argument, write incl. empty and past the end, seek whence 0/1/2/invalid incl. negative targets, tell, truncate None/n/negative), '
                 'iter_chunks drains (chunk sizes 1…128000, 0, -1) with and without a rewind after a partial read; non-trivial = at least one operation succeeded and moved bytes or the position.')
    out.assumptions += ['wrapper stack: the innermost stream is io.BytesIO, a file opened w+b, or a stream returning at most `cap` bytes per read(n>=0); '
                        'read sizes below -1 and files not opened for writing are not generated; CallbackIOWrapper is tqdm\'s (third party), executed as is']
    try:
        n_run = (700 if quick else 6000) * boost
        n_drain = (300 if quick else 2500) * boost
        cases = [gen_case(r, False) for _ in range(n_run)] + [gen_case(r, True) for _ in range(n_drain)]
        for lo in range(0, len(cases), 500):
            part = cases[lo:lo + 500]
            reals = eval_cases(part, drv, out)
            for c, real in zip(part, reals):
                nontrivial = any('e' not in x and x not in ({'b': ''}, {'n': 0}) for x in real['results']) or bool(real.get('pieces'))
                out.case({'iostack': c}, nontrivial)
                out.count('iostack:' + c['site'] + ('+limiter' if 'limiter' in c['layers'] else ''))
                out.count('iostack:' + ('drain' if 'drain' in c else 'ops') + ':' + c['kind'] + (':short' if c['cap'] else ''))
        if drv is not None:
            got = drv.ask({'op': 'iostack.stacks', 'kind': 'bytesio', 'content': '', 'pos': 0, 'cap': 0, 'layers': []})
            out.extra['iostack_model_sites'] = got.get('sites')
    finally:
        shutil.rmtree(WORK / str(os.getpid()), ignore_errors=True)


def replay_case(rp, drv):
    case = rp['case']
    try:
        real, bare = run_real(case), run_bare(case)
    finally:
        shutil.rmtree(WORK / str(os.getpid()), ignore_errors=True)
    print('stack (outermost first):', case['layers'], ' stream:', case['kind'], 'content', case['content'], 'position', case['pos'], 'cap', case['cap'])
    for op, a, b in zip(case.get('ops', []), real['results'], bare['results']):
        print('  ', op, '-> through the stack', a, ' bare', b)
    if 'drain' in case:
        print('  drain', case['drain'], '-> pieces', real.get('pieces'), 'ended', real.get('ended'), ' bare rest', bare.get('rest'))
    print('calls to tracker / limiter / callback:', real['events'])
    print('final: stack', real['content'], '@', real['pos'], ' bare', bare['content'], '@', bare['pos'])
    if drv is not None:
        m = drv.ask(model_request(case))
        print('model vs implementation:', compare_model(case, real, m) or 'agree')
    bad = oracle(case, real, bare)
    for sig, what in bad:
        print('ORACLE', sig, what)
    return 1 if bad else 0
