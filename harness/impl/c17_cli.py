"""C17 — custom settings WRITTEN ON THE COMMAND LINE: the real glue against the compiled model (`settings.cli.*`).

What runs here is replicat's own code:

* in-process: `replicat.utils.cli.parse_cli_settings`, `replicat.utils.flat_to_nested`, `replicat.utils.guess_type`;
* in a CHILD interpreter (`python harness/impl/c17_cli.py child <case.json>`, a fresh process per case — the argparse objects
  of replicat are module-level and `main()` mutates them): the real `replicat.__main__.main()` with `sys.argv` set, up to
  the handler; `Repository.init / add_key / benchmark` are replaced by recorders that capture the `settings=` they receive,
  `cli.make_main_parser` is wrapped so that what the SECOND parse leaves unknown and the message of `parser.error` are
  recorded (the model starts at `unknown_args`; argparse itself is C19's subject);
* direct oracle: `python -m replicat init … <flags>` on a local backend in its own interpreter against
  `Repository.init(settings=<dict>)` in-process on a dict backend — same stored config, same KDF section of the key, same
  verdict.

The compiled Lean model answers `settings.cli.parse / guess / nest / main / render / table`.  Values cross as the typed
arrays of `harness/props/c17.py::enc`; nested dicts as `['m', [[key, sub], …]]` IN INSERTION ORDER (the model claims the order).
"""
import collections
import itertools
import json
import math
import os
import shutil
import subprocess
import sys
from pathlib import Path

MARK = 'C17CLIRESULT '
PASSWORD = 'correct horse'


# ------------------------------------------------------------------ typed encoding
def enc_val(v):
    if isinstance(v, bool):
        return ['b', v]
    if isinstance(v, int):
        return ['i', v]
    if isinstance(v, float):
        if math.isnan(v):
            return ['nan']
        if math.isinf(v):
            return ['other', 'inf']
        n, d = v.as_integer_ratio()
        return ['f', n, d]
    if isinstance(v, str):
        return ['s', v]
    if v is None:
        return ['none']
    return ['other', type(v).__name__]


def tree_enc(v):
    """nested dict → ['m', [[key, sub], …]] in the dict's own order; scalars typed; anything else ['other', type]"""
    if isinstance(v, dict):
        return ['m', [[k if isinstance(k, str) else repr(k), tree_enc(x)] for k, x in v.items()]]
    return enc_val(v)


def is_scalar_enc(e):
    return e[0] in ('i', 'b', 'f', 'nan', 's', 'none')


def unordered(t):
    """forget the order of the children (dict equality)"""
    if isinstance(t, list) and t and t[0] == 'm':
        return ('m', tuple(sorted(((k, unordered(s)) for k, s in t[1]), key=lambda kv: kv[0])))
    return tuple(t) if isinstance(t, list) else t


# ------------------------------------------------------------------ canonical rendering (independent of the model's)
TITLE_WORDS = ('none', 'true', 'false')


def _plain_word(s):
    return bool(s) and (s[0].isascii() and (s[0].isalpha() or s[0] == '_')) and all(c.isascii() and (c.isalnum() or c in '_.-') for c in s)


def text_of(v):
    if isinstance(v, bool):
        return 'True' if v else 'False'
    if isinstance(v, int):
        return str(v)
    if v is None:
        return 'None'
    if isinstance(v, str):
        if _plain_word(v) and v.lower() not in TITLE_WORDS:
            return v
        if "'" not in v and '\\' not in v:
            return "'" + v + "'"
        if '"' not in v and '\\' not in v:
            return '"' + v + '"'
    return None


def leaves_of(s, prefix=()):
    """[(path, value)] of a nested dict, depth first in dict order; ('…', {}) for an empty mapping"""
    out = []
    for k, v in s.items():
        if isinstance(v, dict) and v:
            out.extend(leaves_of(v, prefix + (k,)))
        else:
            out.append((prefix + (k,), v))
    return out


def py_render(s):
    """`--a.b.c text` per leaf, or None if some leaf cannot be written (empty mapping, float, unquotable text)"""
    args = []
    for path, v in leaves_of(s):
        t = text_of(v)
        if t is None or isinstance(v, dict) or t.startswith('--') or any('.' in p or '-' in p for p in path):
            return None
        args += ['--' + '.'.join(path), t]
    return args


# ------------------------------------------------------------------ generators
SAFE_FLAGS = ['--a', '--a.b', '--a.b.c', '--a-b', '---a', '--x.y', '--a_b', '--\xe9.\xfc', '--A', '--a..b', '--a.', '--.a', '--a=5', '--a.b-c.d', '----x-y', '--x',
              '--x.y.z', '--a.c', '--b', '--a!b', '--a/b', '--a0', '--hashing.name', '--encryption.kdf.n', '--encryption.kdf', '--encryption', '--chunking.min-length',
              '--chunking.min_length', '--HASHING.name']
SAFE_VALUES = ['1', 'x', '-5', '-s', 'None', 'none', 'TRUE', 'fAlse', "'q r'", '"dq"', '0x10', '0X_fF', '1_000', '007', '00', '1.5', '1e3', '[1]', '{}', "{'a': 1}", 'a.b',
               '', '\xe9', 'blake2b', 'aes-gcm', '-', '+7', '-0x1f', "'it''s'", "b'x'", '1j', '(2)', '5 ', ' 5', 'nan', 'inf', '-x', '1__0', '0o17', '16', '4', '1024',
               'a b', "'--x'", 'None.', '_', '__a__', 'a-', '1a', '"a\'b"', '0', '-0', '+0', 'True', 'False']
LITERAL_TEXTS = ['none', 'None', 'NONE', 'nOnE', 'true', 'True', 'TRUE', 'false', 'False', 'FALSE', 'nil', 'null', 'yes', '0', '00', '000', '0_0', '1', '10', '1_0', '1__0',
                 '1_', '_1', '01', '007', '-1', '+1', '- 1', '--1', '-0', '1.0', '1.', '.5', '1e3', '1E3', '0x1f', '0X1F', '0x_1f', '0x1_f', '0x', '0x_', '0xg', '-0x10',
                 '+0x10', '0o17', '0b11', '0B1', '1j', '1+2j', "''", '""', "'a'", '"a"', "'a b'", "'a\\nb'", "'a\"b'", '"a\'b"', "'a''b'", "'''a'''", "r'a'", "b'a'", "u'a'",
                 "f'a'", "'a", "a'", "'", '"', 'a', 'A', '_', 'a1', 'a_b', 'a-b', 'a.b', 'a..b', 'a.', 'a-', 'a.-', '.a', '-a', 'a b', 'if', 'not', 'lambda', 'None-1',
                 'None.x', 'True.', 'not-1', 'e5', 'inf', 'nan', '[]', '[1, 2]', '{}', "{'a': 1}", '{1}', '()', '(1,)', '(5)', 'set()', '5#x', '5 ', ' 5', '\t5', '', ' ',
                 '\xe9', 'K', 'K', 'falſe', '١٢', '1' * 300, 'a' * 256, 'a' * 257, '-' + '1' * 255, '0x' + 'f' * 254, "'" + 'x' * 254 + "'",
                 "'" + 'x' * 255 + "'", 'a-' * 100 + 'a', 'a.' * 127 + 'a']
GUESS_ALPHABET = "0179_xXaAeEfnN.-+'\" #[{("


def gen_soup(r, via_main):
    n = r.choice([0, 1, 2, 2, 3, 4, 5, 6, 8, 11])
    args = []
    for _ in range(n):
        k = r.random()
        if k < 0.45:
            args.append(r.choice(SAFE_FLAGS))
        else:
            v = r.choice(SAFE_VALUES)
            if via_main and v in ('-s', '-x', '-') and r.random() < 0.5:
                v = 'w'
            args.append(v)
    return args


def respell(r, pairs):
    """other spellings of the same values, as the README writes them: `none` for None, `4_194_304` / hexadecimal for integers,
    quotes around words; `key-bits` for `key_bits`"""
    out = []
    for flag, text in pairs:
        if text == 'None':
            text = r.choice(['none', 'NONE', 'None', 'nOnE'])
        elif text in ('True', 'False'):
            text = r.choice([text.lower(), text.upper(), text])
        elif text.lstrip('-').isdigit():
            n = int(text)
            text = r.choice([f'{n:_}', hex(n), f'+{n}' if n >= 0 else text, f'{n:_}', text, hex(n).upper().replace('X', 'x', 1) if n >= 0 else text])
        elif r.random() < 0.4 and "'" not in text:
            text = "'" + text + "'" if r.random() < 0.5 else '"' + text + '"'
        if r.random() < 0.5:
            flag = '--' + flag[2:].replace('_', '-')
        out.append([flag, text])
    return out


def gen_args_cases(r, n, lattice_point, render):
    """→ list of dict(kind, args, settings?) ; `render(settings)` = canonical rendering (the model's, else py_render)"""
    cases = []
    fixed = [
        ('paper', ['--encryption.kdf.n', '16', '--chunking.min-length', '1000', '--hashing.name', 'blake2b']),
        ('readme', ['--encryption', 'none']), ('readme', ['--encryption.cipher.name', 'chacha20_poly1305']),
        ('readme', ['--encryption.cipher.name', 'aes_gcm', '--encryption.cipher.key_bits', '128', '--encryption.kdf.name', 'scrypt', '--encryption.kdf.n', '2097152']),
        ('readme', ['--encryption.kdf.n', '4_194_304', '--encryption.cipher.key-bits', '128']),
        ('conflict', ['--encryption.kdf', '5', '--encryption.kdf.n', '4']),
        ('conflict', ['--encryption.kdf.n', '4', '--encryption.kdf', '5']),
        ('conflict', ['--a', '1', '--a.b', '2']), ('conflict', ['--a.b', '2', '--a', '1']), ('conflict', ['--a.b.c', '1', '--x', '0', '--a', '1']),
        ('conflict', ['--', '1', '--.', '2']), ('conflict', ['--a..b', '1', '--a.', '2']), ('near-conflict', ['--a', '1', '--ab', '2', '--a-b.c', '3', '--a!b', '4']),
        ('irregular', ['--a', '--b', '1']), ('irregular', ['1', '--a', '2']), ('irregular', ['--a', '1', '--b']), ('irregular', ['--a', '1', '2']),
        ('irregular', ['-a', '1']), ('irregular', ['---a', '1']), ('irregular', ['--a', '1', '--a', '2']), ('irregular', ['--a-b', '1', '--a_b', '2']),
        ('irregular', []), ('irregular', ['--a']), ('irregular', ['x']), ('irregular', ['--a', '--a', '--a', '1', '1']),
        ('literal', ['--a', '{}', '--a.b', '1']), ('literal', ['--a', '[]', '--a.b', '1']), ('literal', ['--a', "{'b': 2}", '--a.c', '1']),
        ('literal', ['--encryption', 'none']), ('literal', ['--encryption', 'NONE', '--hashing.length', '0x20']),
    ]
    for kind, args in fixed:
        cases.append({'kind': kind, 'args': args, 'origin': 'corpus'})
    while len(cases) < n:
        k = r.random()
        if k < 0.50:
            s = lattice_point(r)
            args = render(s)
            if args is None:
                continue
            pairs = [args[i:i + 2] for i in range(0, len(args), 2)]
            kind = 'lattice'
            m = r.random()
            if m < 0.25:
                pass
            elif m < 0.40:
                r.shuffle(pairs)
                kind = 'lattice-shuffled'
            elif m < 0.50:
                pairs = respell(r, pairs)
                r.shuffle(pairs)
                kind = 'lattice-spelled'
            elif m < 0.65:
                pairs = [[('-' * r.choice([2, 2, 3, 5])) + p[0][2:].replace('_', '-' if r.random() < 0.7 else '_'), p[1]] for p in pairs]
                kind = 'lattice-dashes'
            elif m < 0.80 and pairs:
                i = r.randrange(len(pairs))
                dup = [pairs[i][0], r.choice(['1', '64', 'sha2', 'None', pairs[i][1]])]
                pairs.insert(r.randrange(len(pairs) + 1), dup)
                kind = 'lattice-repeated'
            elif m < 0.92 and pairs:
                p = r.choice(pairs)[0]
                comps = p[2:].split('.')
                if len(comps) > 1:
                    cut = '--' + '.'.join(comps[:r.randrange(1, len(comps))])
                    pairs.insert(r.randrange(len(pairs) + 1), [cut, r.choice(['5', 'x', 'None'])])
                    kind = 'lattice-conflict'
                else:
                    pairs.append([p + '.deeper', '1'])
                    kind = 'lattice-conflict'
            else:
                j = r.randrange(len(pairs) + 1)
                extra = r.choice([['x'], ['--loose'], ['--loose', '--looser'], ['-s']])
                flat = [a for p in pairs[:j] for a in p] + extra + [a for p in pairs[j:] for a in p]
                cases.append({'kind': 'lattice-leftover', 'args': flat, 'settings': s, 'origin': 'generated'})
                continue
            case = {'kind': kind, 'args': [a for p in pairs for a in p], 'origin': 'generated'}
            if kind in ('lattice', 'lattice-shuffled', 'lattice-dashes', 'lattice-spelled'):
                case['settings'] = s
            cases.append(case)
        elif k < 0.85:
            cases.append({'kind': 'soup', 'args': gen_soup(r, True), 'origin': 'generated'})
        else:
            # values that look like literals on lattice keys
            keys = ['--hashing.length', '--chunking.min-length', '--encryption.kdf.n', '--encryption.cipher.key_bits', '--hashing.name', '--encryption']
            args = []
            for key in r.sample(keys, r.randint(1, 3)):
                args += [key, r.choice(SAFE_VALUES + LITERAL_TEXTS[:60])]
            cases.append({'kind': 'literal', 'args': args, 'origin': 'generated'})
    return cases


COMPONENTS = ['a', 'b', 'ab', 'a!', 'a/', 'a0', 'A', '_', '', '\xe9', 'a-b', 'z', 'a b', '0']


def gen_flat_case(r):
    """a dict with dotted keys (components around '.' in code-point order, empty components) and scalar values, in a random
    insertion order; about a third contain a dotted-prefix pair"""
    n = r.choice([1, 2, 2, 3, 4, 5, 7])
    keys = []
    while len(keys) < n:
        depth = r.choice([1, 1, 2, 2, 3, 4])
        k = '.'.join(r.choice(COMPONENTS) for _ in range(depth))
        if keys and r.random() < 0.25:
            base = r.choice(keys)
            k = base + '.' + r.choice(COMPONENTS) if r.random() < 0.6 else '.'.join(base.split('.')[:max(1, len(base.split('.')) - 1)])
        if k not in keys:
            keys.append(k)
    r.shuffle(keys)
    vals = [r.choice([1, 0, -3, True, False, None, 'x', '', 'a.b', 1.5, 2 ** 40]) for _ in keys]
    return [[k, v] for k, v in zip(keys, vals)]


def guess_texts(r, quick):
    texts = list(LITERAL_TEXTS)
    alpha = GUESS_ALPHABET
    for ln in (1, 2):
        texts += [''.join(t) for t in itertools.product(alpha, repeat=ln)]
    n3 = 2500 if quick else 14000
    texts += [''.join(r.choice(alpha) for _ in range(3)) for _ in range(n3)]
    texts += [''.join(r.choice(alpha) for _ in range(r.randint(4, 9))) for _ in range(1500 if quick else 20000)]
    pieces = ['0', '1', '9', '_', 'x', 'a', 'e', '-', '.', 'None', 'true', "'", '"', '0x', 'ff', ' ']
    texts += [''.join(r.choice(pieces) for _ in range(r.randint(2, 6))) for _ in range(1500 if quick else 20000)]
    return list(dict.fromkeys(texts))


# ------------------------------------------------------------------ the real functions, in-process
def real_parse(args):
    from replicat.utils.cli import parse_cli_settings
    try:
        mapping, unknown = parse_cli_settings(list(args))
    except BaseException as e:  # noqa: BLE001
        return {'raised': type(e).__name__}
    return {'mapping': [[k, enc_val(v)] for k, v in mapping.items()], 'unknown': list(unknown), 'raw': mapping}


def real_nest(flat_dict):
    from replicat import exceptions
    from replicat.utils import flat_to_nested
    try:
        return {'conflict': False, 'tree': tree_enc(flat_to_nested(dict(flat_dict))), 'raw': None}
    except exceptions.ReplicatError as e:
        return {'conflict': True, 'tree': None, 'message': str(e)}
    except BaseException as e:  # noqa: BLE001
        return {'raised': type(e).__name__}


def real_guess(text):
    from replicat.utils import guess_type
    try:
        return enc_val(guess_type(text))
    except BaseException as e:  # noqa: BLE001
        return ['raised', type(e).__name__]


# ------------------------------------------------------------------ the real main() in a child interpreter
def child_entry(case_path):
    case = json.load(open(case_path))
    sys.path[:0] = [*case['paths'], case['repo']]
    os.chdir(case['cwd'])
    sys.argv = ['replicat', *case['argv']]
    out = {'unknown_args': None, 'parse_input': None, 'handler': None, 'parser_error': None}
    try:
        import replicat.__main__ as m
        from replicat import exceptions
        from replicat.repository import Repository
        from replicat.utils import cli
        orig_make = cli.make_main_parser

        def make(*a, **k):
            p = orig_make(*a, **k)
            opk = p.parse_known_args

            def pka(*aa, **kk):
                r = opk(*aa, **kk)
                out['unknown_args'] = list(r[1])
                return r

            def err(msg):
                out['parser_error'] = msg
                raise SystemExit(2)
            p.parse_known_args = pka
            p.error = err
            return p
        cli.make_main_parser = make
        orig_pcs = cli.parse_cli_settings

        def pcs(a):
            out['parse_input'] = list(a)
            return orig_pcs(a)
        cli.parse_cli_settings = pcs

        def recorder(name):
            async def rec(self, *a, **kw):
                out['handler'] = {'method': name, 'has_settings_kw': 'settings' in kw, 'settings': tree_enc(kw.get('settings')),
                                  'settings_is_none': kw.get('settings') is None}
            return rec
        for name in ('init', 'add_key', 'benchmark', 'unlock', 'list_snapshots'):
            setattr(Repository, name, recorder(name))
        try:
            m.main()
            out['ended'] = 'returned'
        except SystemExit as e:
            out['ended'] = 'exit'
            out['code'] = e.code if isinstance(e.code, int) or e.code is None else str(e.code)
        except exceptions.ReplicatError as e:
            out['ended'] = 'replicat_error'
            out['message'] = str(e)
        except BaseException as e:  # noqa: BLE001
            out['ended'] = 'raised'
            out['exc'] = type(e).__name__
    except BaseException as e:  # noqa: BLE001
        out['ended'] = 'harness'
        out['exc'] = f'{type(e).__name__}: {e}'[:300]
    sys.stdout.write('\n' + MARK + json.dumps(out) + '\n')
    sys.stdout.flush()
    os._exit(0)


def _env(repo, pymod, so_path):
    env = {'PATH': os.environ.get('PATH', '/usr/bin:/bin'), 'LANG': 'C.UTF-8', 'LC_ALL': 'C.UTF-8', 'HOME': os.environ.get('HOME', '/root'),
           'PYTHONPATH': os.pathsep.join([str(pymod), str(repo)]), 'REPLICAT_VERIF_GCL_SO': str(so_path)}
    return env


ACTION_ARGV = {
    'init': ['init'], 'add-key': ['add-key', '-n', 'new password'], 'benchmark': ['benchmark', 'aes_gcm'], 'list-snapshots': ['list-snapshots'],
}


def run_main_child(case, scratch, repo, pymod, so_path):
    """the real main() on `<action> -r <dir> --ignore-config --no-cache -q [-p pw] <args…>` in a fresh interpreter"""
    root = Path(scratch) / ('m%d' % case['idx'])
    if root.exists():
        shutil.rmtree(root)
    root.mkdir(parents=True)
    try:
        argv = [*ACTION_ARGV[case['action']], '-r', str(root / 'backend'), '--ignore-config', '--no-cache', '-q', '-p', PASSWORD, *case['args']]
        (root / 'case.json').write_text(json.dumps({'paths': [str(pymod)], 'repo': str(repo), 'cwd': str(root), 'argv': argv}))
        p = subprocess.run([sys.executable, str(Path(__file__).resolve()), 'child', str(root / 'case.json')], env=_env(repo, pymod, so_path),
                           stdout=subprocess.PIPE, stderr=subprocess.STDOUT, text=True, timeout=120)
        for line in p.stdout.splitlines():
            if line.startswith(MARK):
                return json.loads(line[len(MARK):])
        return {'ended': 'harness', 'exc': 'no result line: ' + p.stdout[-300:]}
    except subprocess.TimeoutExpired:
        return {'ended': 'harness', 'exc': 'timeout'}
    finally:
        shutil.rmtree(root, ignore_errors=True)


# ------------------------------------------------------------------ direct oracle: CLI init against init(settings=dict)
def run_oracle(case, scratch, repo, pymod, so_path):
    """`python -m replicat init … <flags>` (own interpreter, local backend) and `Repository.init(settings=dict)` in-process (dict backend)"""
    from . import c17_repo as R
    root = Path(scratch) / ('o%d' % case['idx'])
    if root.exists():
        shutil.rmtree(root)
    root.mkdir(parents=True)
    try:
        key = root / 'repo.key'
        encrypted = not (isinstance(case['settings'], dict) and 'encryption' in case['settings'] and case['settings']['encryption'] is None)
        argv = [sys.executable, '-m', 'replicat', 'init', '-r', str(root / 'backend'), '--ignore-config', '--no-cache', '-q', '-p', PASSWORD, '-o', str(key), *case['args']]
        p = subprocess.run(argv, env=_env(repo, pymod, so_path), cwd=str(root), stdout=subprocess.PIPE, stderr=subprocess.STDOUT, text=True, timeout=300)
        cfg_path = root / 'backend' / 'config'
        cli = {'rc': p.returncode, 'config': json.loads(cfg_path.read_bytes()) if cfg_path.exists() else None,
               'objects': sorted(str(x.relative_to(root / 'backend')) for x in (root / 'backend').rglob('*') if x.is_file()) if (root / 'backend').exists() else [],
               'kdf': json.loads(key.read_bytes()).get('kdf') if key.exists() else None, 'tail': p.stdout[-300:]}
        res = R.run_init(case['settings'], PASSWORD.encode())
        direct = {'accepted': res['accepted'], 'error': res['error_repr'], 'config': None, 'kdf': None}
        if res['accepted']:
            direct['config'] = json.loads(res['backend'].objects['config'])
            if res['key'] is not None:
                direct['kdf'] = json.loads(R.new_repo(res['backend']).serialize(res['key']))['kdf']
        return {'cli': cli, 'direct': direct, 'encrypted': encrypted}
    except Exception as e:  # noqa: BLE001
        return {'harness_error': repr(e)[:300]}
    finally:
        shutil.rmtree(root, ignore_errors=True)


# ------------------------------------------------------------------ checks
def check_parse_case(out, drv, case, real, model):
    """in-process parse_cli_settings (+ flat_to_nested on its mapping) against `settings.cli.parse` / `settings.cli.nest`"""
    args = case['args']
    replay = {'kind': 'cli-parse', 'args': args, 'label': case['kind']}
    if 'settings' in case:
        replay['settings_repr'] = repr(case['settings'])
    out.count('cli:' + case['kind'])
    if 'raised' in real:
        out.count('cli-parse:raised:' + real['raised'])
        return
    ok = True
    # ---- direct oracle: nothing is dropped silently
    ca, cu = collections.Counter(args), collections.Counter(real['unknown'])
    consumed = len(args) - len(real['unknown'])
    if (cu - ca) or consumed % 2 or consumed < 2 * len(real['mapping']):
        out.violation('settings:cli:argument-dropped', f'parse_cli_settings({args!r}) = ({real["raw"]!r}, {real["unknown"]!r}): arguments unaccounted for',
                      dict(replay, observed={'mapping': real['mapping'], 'unknown': real['unknown']}))
    if model is not None:
        if 'error' in model and 'mapping' not in model:
            out.disagreement('driver error on settings.cli.parse', {'case': replay, 'reply': model})
            return
        if model['unknown'] != real['unknown']:
            ok = False
            out.disagreement(f'unknown list differs: model {model["unknown"]}, implementation {real["unknown"]}', dict(replay, model=model))
        if model['leftover'] != model['unknown'] or len(args) != 2 * len(model['pairs']) + len(model['leftover']):
            ok = False
            out.disagreement('model: loop and adjacency specification differ', dict(replay, model=model))
        mk, rk = [k for k, _ in model['mapping']], [k for k, _ in real['mapping']]
        if mk != rk:
            ok = False
            out.disagreement(f'mapping keys (insertion order) differ: model {mk}, implementation {rk}', dict(replay, model=model))
        else:
            for (k, mv), (_, rv) in zip(model['mapping'], real['mapping']):
                if mv == ['u']:
                    out.count('cli-value:unmodelled')
                    continue
                out.count('cli-value:modelled')
                if mv != rv:
                    ok = False
                    out.disagreement(f'value of {k!r} differs: model {mv}, implementation {rv}', dict(replay, model=model, impl=real['mapping']))
    # ---- flat_to_nested on the REAL mapping
    scalars = all(is_scalar_enc(v) for _, v in real['mapping'])
    nest = real_nest(real['raw'])
    if 'raised' in nest:
        out.count('cli-nest:raised:' + nest['raised'])
    elif not scalars:
        out.count('cli-nest:container-value(' + ('conflict' if nest['conflict'] else 'merged') + ')')
    else:
        out.count('cli-nest:' + ('conflict' if nest['conflict'] else 'tree'))
        # direct oracle: conflict ⇔ dotted prefix; every leaf is the value of its key
        keys = [k for k, _ in real['mapping']]
        dotted = any(p.startswith(q + '.') for q in keys for p in keys)
        if dotted != nest['conflict']:
            out.violation('settings:cli:conflict-detection', f'flat_to_nested({real["raw"]!r}): conflict={nest["conflict"]}, a key is a dotted prefix of another: {dotted}',
                          dict(replay, observed=nest['conflict'], expected=dotted))
        if drv is not None:
            m2 = drv.ask({'op': 'settings.cli.nest', 'flat': real['mapping']})
            if m2.get('conflict') != nest['conflict'] or m2.get('tree') != nest['tree']:
                ok = False
                out.disagreement(f'flat_to_nested differs (children order included): model {m2}, implementation {nest}', dict(replay, flat=real['mapping']))
    # ---- direct oracle for lattice cases: the command line is as good as the dict
    if 'settings' in case and case['kind'] in ('lattice', 'lattice-shuffled', 'lattice-dashes', 'lattice-spelled'):
        want = unordered(tree_enc(case['settings']))
        got = None if ('raised' in nest or nest['conflict']) else unordered(nest['tree'])
        if real['unknown'] or got != want:
            out.violation('settings:cli:roundtrip', f'settings {case["settings"]!r} written as {args!r} come back as {nest.get("tree")!r} (unknown {real["unknown"]!r})',
                          dict(replay, observed=nest.get('tree'), expected=tree_enc(case['settings'])))
    nontrivial = len(real['mapping']) >= 1 and (len(args) >= 4 or bool(real['unknown']))
    out.case({'cli_args': args, 'mapping': real['mapping'], 'unknown': real['unknown']}, nontrivial)
    if ok and model is not None:
        out.traces_validated += 1


def check_main_case(out, drv, case, res):
    """the real main() (child interpreter) against `settings.cli.main` on the arguments the second parse left unknown"""
    replay = {'kind': 'cli-main', 'action': case['action'], 'args': case['args'], 'label': case['kind']}
    out.count('cli-main:' + case['action'] + ':' + str(res.get('ended')))
    if res.get('ended') == 'harness':
        out.disagreement('child interpreter failed: ' + str(res.get('exc')), replay)
        return
    ua = res.get('unknown_args')
    if ua is None:
        out.count('cli-main:second-parse-not-reached')
        return
    out.count('cli-main:argparse-' + ('passes-unchanged' if ua == case['args'] else 'alters'))
    out.case({'main': case['action'], 'args': case['args'], 'ended': res.get('ended'), 'handler': (res.get('handler') or {}).get('settings')}, bool(ua))
    # ---- direct oracle: the handler receives `settings=`; a parser error never reaches it
    h = res.get('handler')
    if h is not None and h['method'] in ('init', 'add_key', 'benchmark') and not h['has_settings_kw']:
        out.violation('settings:cli:handler-without-settings', f'{h["method"]} was called without settings= for {case["args"]!r}', dict(replay, observed=h))
    if drv is None:
        return
    m = drv.ask({'op': 'settings.cli.main', 'action': case['action'], 'args': ua})
    kind = m.get('outcome')
    out.count('cli-main-model:' + str(kind))
    ok = True
    if kind == 'none':
        ok = h is not None and h['settings_is_none'] and res['ended'] == 'returned'
    elif kind == 'unrecognised':
        ok = res['ended'] == 'exit' and res.get('parser_error') == 'unrecognized arguments: ' + ' '.join(m['unknown']) and h is None
    elif kind == 'conflict':
        ok = res['ended'] == 'replicat_error' and res.get('message') == 'Conflicting options' and h is None
    elif kind == 'settings':
        ok = h is not None and res['ended'] == 'returned' and h['settings'] == m['tree']
    elif kind == 'unmodelled':
        return
    else:
        ok = False
    if not ok:
        out.disagreement(f'main(): model {m}, implementation ended {res.get("ended")} handler {h} error {res.get("parser_error") or res.get("message")}',
                         dict(replay, unknown_args=ua, model=m, impl={k: res.get(k) for k in ('ended', 'handler', 'parser_error', 'message', 'code')}))
    else:
        out.traces_validated += 1


def check_oracle_case(out, case, res):
    replay = {'kind': 'cli-oracle', 'settings_repr': repr(case['settings']), 'args': case['args']}
    if 'harness_error' in res:
        out.disagreement('command-line oracle could not run: ' + res['harness_error'], replay)
        return
    c, d = res['cli'], res['direct']
    out.case({'cli_init': case['args'], 'rc': c['rc'], 'direct_accepted': d['accepted']}, True)
    out.count('cli-oracle:' + ('accepted' if d['accepted'] else 'rejected') + ('/encrypted' if res['encrypted'] else '/unencrypted'))
    same = (c['rc'] == 0) == d['accepted'] and c['config'] == d['config'] and c['kdf'] == d['kdf']
    if not d['accepted'] and c['objects']:
        same = False
    if not same:
        out.violation('settings:cli-differs-from-direct',
                      f'init with settings {case["settings"]!r}: through the command line {case["args"]!r} → rc {c["rc"]}, config {c["config"]!r}, kdf {c["kdf"]!r}; '
                      f'init(settings=dict) → accepted {d["accepted"]} ({d["error"]}), config {d["config"]!r}, kdf {d["kdf"]!r}',
                      dict(replay, observed=c, expected=d))
    else:
        out.traces_validated += 1


def check_flat_case(out, drv, flat):
    """`flat_to_nested` on a dict with dotted keys: direct oracle (conflict ⇔ dotted prefix; every scalar at its path, nothing else)
    and the model, children order included"""
    replay = {'kind': 'cli-flat', 'flat': flat}
    d = {k: v for k, v in flat}
    nest = real_nest(d)
    if 'raised' in nest:
        out.count('cli-flat:raised:' + nest['raised'])
        out.disagreement('flat_to_nested raised ' + nest['raised'], replay)
        return
    keys = list(d)
    dotted = any(p.startswith(q + '.') for q in keys for p in keys)
    out.count('cli-flat:' + ('conflict' if nest['conflict'] else 'tree'))
    out.case({'flat': flat, 'conflict': nest['conflict']}, len(flat) >= 2)
    if dotted != nest['conflict']:
        out.violation('settings:cli:conflict-detection', f'flat_to_nested({d!r}): conflict={nest["conflict"]}, a key is a dotted prefix of another: {dotted}',
                      dict(replay, observed=nest['conflict'], expected=dotted))
    if not nest['conflict']:
        from replicat.utils import flat_to_nested
        tree = flat_to_nested(dict(d))
        got = {'.'.join(p): v for p, v in leaves_of(tree)}
        if got != d or any(type(got[k]) is not type(d[k]) for k in d):
            out.violation('settings:cli:lookup', f'flat_to_nested({d!r}) = {tree!r}: the scalars are not the values of their dotted keys', dict(replay, observed=repr(tree)))
    if drv is None:
        return
    m = drv.ask({'op': 'settings.cli.nest', 'flat': [[k, enc_val(v)] for k, v in flat]})
    if m.get('conflict') != nest['conflict'] or m.get('tree') != nest['tree']:
        out.disagreement(f'flat_to_nested differs (children order included): model {m}, implementation {nest}', replay)
    else:
        out.traces_validated += 1


def check_guess_texts(out, drv, texts):
    """`guess_type` on every text: wherever the model makes a statement it must be the real result (type included)"""
    real = [real_guess(t) for t in texts]
    for rv in real:
        out.count('guess-impl:' + rv[0] + (':' + rv[1] if rv[0] in ('raised', 'other') else ''))
    if drv is None:
        return
    model = []
    for i in range(0, len(texts), 1500):
        model += drv.ask({'op': 'settings.cli.guess', 'texts': texts[i:i + 1500]})['values']
    bad = 0
    for t, rv, mv in zip(texts, real, model):
        if mv == ['u']:
            out.count('guess-model:unmodelled(impl ' + ('text itself' if rv == ['s', t] else rv[0]) + ')')
            continue
        out.count('guess-model:' + mv[0] + ('(text itself)' if mv == ['s', t] else ''))
        if mv != ['s', t]:
            out.case({'guess_type': t, 'value': rv}, True, sample_limit=0)
        if mv != rv:
            bad += 1
            if bad <= 5:
                out.disagreement(f'guess_type({t!r}): model {mv}, implementation {rv}', {'kind': 'cli-guess', 'text': t})
        else:
            out.traces_validated += 1


def replay_case(rp, drv, scratch, repo):
    from ..common import PYMOD, WORK
    so = os.environ.get('REPLICAT_VERIF_GCL_SO') or WORK / 'native' / 'libgcl.so'
    if rp['kind'] == 'cli-parse':
        from ..common import Outcome
        real = real_parse(rp['args'])
        print('parse_cli_settings:', {k: v for k, v in real.items() if k != 'raw'})
        if 'raw' in real:
            print('flat_to_nested:', {k: v for k, v in real_nest(real['raw']).items() if k != 'raw'})
        model = None
        if drv is not None:
            model = drv.ask({'op': 'settings.cli.parse', 'args': rp['args']})
            print('model:', model)
            print('model main(init):', drv.ask({'op': 'settings.cli.main', 'action': 'init', 'args': rp['args']}))
        case = {'kind': rp.get('label', 'replay'), 'args': rp['args']}
        if 'settings_repr' in rp:
            case['settings'] = eval(rp['settings_repr'], {'nan': float('nan'), 'inf': float('inf')})  # noqa: S307 — our own repr of a settings dict
        o = Outcome('C17', 'replay', 0)
        check_parse_case(o, drv, case, real, model)
        for v in o.violations:
            print('FAILS:', v['sig'], '—', v['what'])
        for d_ in o.disagreements:
            print('model ≠ implementation:', d_['what'])
        return 1 if o.violations else 0
    if rp['kind'] == 'cli-main':
        res = run_main_child({'idx': 0, 'action': rp['action'], 'args': rp['args']}, scratch, repo, PYMOD, so)
        print('main():', res)
        if drv is not None and res.get('unknown_args') is not None:
            print('model:', drv.ask({'op': 'settings.cli.main', 'action': rp['action'], 'args': res['unknown_args']}))
        return 0
    if rp['kind'] == 'cli-oracle':
        settings = eval(rp['settings_repr'], {'nan': float('nan'), 'inf': float('inf')})  # noqa: S307 — our own repr of a settings dict
        res = run_oracle({'idx': 0, 'settings': settings, 'args': rp['args']}, scratch, repo, PYMOD, so)
        print(json.dumps(res, indent=1, default=str))
        c, d = res.get('cli', {}), res.get('direct', {})
        return 0 if ((c.get('rc') == 0) == d.get('accepted') and c.get('config') == d.get('config') and c.get('kdf') == d.get('kdf')) else 1
    if rp['kind'] == 'cli-flat':
        from ..common import Outcome
        d = {k: v for k, v in rp['flat']}
        print('flat_to_nested:', {k: v for k, v in real_nest(d).items() if k != 'raw'})
        o = Outcome('C17', 'replay', 0)
        check_flat_case(o, drv, rp['flat'])
        for v in o.violations:
            print('FAILS:', v['sig'], '—', v['what'])
        for d_ in o.disagreements:
            print('model ≠ implementation:', d_['what'])
        return 1 if o.violations else 0
    if rp['kind'] == 'cli-guess':
        print('guess_type:', real_guess(rp['text']))
        if drv is not None:
            print('model:', drv.ask({'op': 'settings.cli.guess', 'texts': [rp['text']]}))
        return 0
    print('replay kind not supported:', rp.get('kind'))
    return 2


if __name__ == '__main__':
    if len(sys.argv) == 3 and sys.argv[1] == 'child':
        child_entry(sys.argv[2])
