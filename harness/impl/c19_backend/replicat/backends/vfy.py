"""A custom backend that is discovered ONLY through the namespace packages `replicat` / `replicat.backends`
(this directory is put on sys.path next to the checkout of replicat; see README "Custom backends").

Its constructor's keyword-only arguments are the "backend-specific options of a custom backend" of property C19:
two required ones, and optional ones whose constructor defaults are an int, a bool, a plain string, None and a
string that happens to look like a number.
"""
from .base import Backend


class Verif(Backend, short_name='vfy', display_name='Verif'):
    def __init__(self, connection_string, *, token, account_id, port=9_876, legacy=False, label='plain',
                 ratio=None, numeric_label='7'):
        self.connection_string = connection_string
        self.options = dict(token=token, account_id=account_id, port=port, legacy=legacy, label=label,
                            ratio=ratio, numeric_label=numeric_label)

    async def exists(self, name):
        return False

    async def upload(self, name, data):
        return None

    async def upload_stream(self, name, stream, length, chunk_size=128_000):
        return None

    async def download(self, name):
        return b''

    async def download_stream(self, name, stream, chunk_size=128_000):
        return None

    async def list_files(self, prefix=''):
        return []

    async def delete(self, name):
        return None


Client = Verif
