"""A second custom backend found ONLY through the namespace packages `replicat` / `replicat.backends` — the ANNOTATED probe.

None of the shipped backends (and not `vfy`) annotates its keyword-only options, so whatever `cli.parser_for_backend`,
`config.config_for_backend` or `BaseBackendConfig` do with `inspect.Parameter.annotation` is invisible through them.
This constructor carries every kind of annotation a backend author would plausibly write — the classes themselves
(`str`, `int`, `bool`, `float`), `Optional[...]` / `Union[...]`, PEP 604 unions, and the same spelled as STRING annotations
(what `from __future__ import annotations` turns every annotation into) — on required options and on options with defaults.

The extractor (tools/sections/19_options.py) puts these options into the generated option table (`Gen.optRows`, owner
`vfa`) and derives `Gen.optBackendCliTy` from them; harness/props/c19.py treats `vfa` like the other backends.
"""
from typing import Any, Optional, Union

from .base import Backend


class VerifAnnotated(Backend, short_name='vfa', display_name='Verif (annotated)'):
    def __init__(
        self,
        connection_string,
        *,
        account_id: str,
        secret: 'str',
        tenant: Optional[str] = None,
        port: int = 9_876,
        retries: 'int' = 3,
        legacy: bool = False,
        timeout: float = 2.5,
        region: str = 'plain',
        zone: Union[int, str] = 'z1',
        limit: 'Optional[int]' = None,
        tag: 'str | None' = None,
        extra: Any = None,
    ):
        self.connection_string = connection_string
        self.options = dict(account_id=account_id, secret=secret, tenant=tenant, port=port, retries=retries,
                            legacy=legacy, timeout=timeout, region=region, zone=zone, limit=limit, tag=tag, extra=extra)

    async def exists(self, name):
        return False

    async def upload(self, name, data):
        return None

    async def upload_stream(self, name, stream, length, chunk_size=128_000):
        return None

    async def download(self, name):
        return b''

    async def download_stream(self, name, stream, chunk_size=128_000):
        return None

    async def list_files(self, prefix=''):
        return []

    async def delete(self, name):
        return None


Client = VerifAnnotated
