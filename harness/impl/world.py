"""A 'world': one real repository (memory backend) used by several users whose keys are related as owner / clone / shared /
independent (or an unencrypted repository), driven through histories of snapshot / delete / clean / list / restore, together
with the ABSTRACTION of the real backend state into the Lean model's `Store` (names → (family, content id) / (family, snapshot id)).

Ground truth (what each snapshot captured) is kept independently for the direct oracles.
"""
import dataclasses
import datetime as _dt
import json
import os
import re
from pathlib import Path

from . import runner as R


class RecChunker:
    """records the plaintext chunks the real chunker produced (content ids are assigned from the plaintext)"""

    def __init__(self, inner):
        self.inner = inner
        self.alignment = inner.alignment
        self.chunks = []

    def __call__(self, it, *, params=None):
        for c in self.inner(it, params=params):
            self.chunks.append(bytes(c))
            yield c

    def __getattr__(self, n):
        return getattr(self.inner, n)


class FakeDatetime(_dt.datetime):
    """`datetime.utcnow()` inside replicat.repository returns the world's controlled clock.  The machine's LOCAL zone is not UTC
    and its offset changes from one command to the next (two machines sharing a repository, travel, the DST fall-back hour):
    `now()` without a zone returns `utcnow() + offset`, so code that records local time where UTC is documented misorders snapshots."""
    _now = _dt.datetime(2030, 1, 1, 0, 0, 0)
    _offsets = [_dt.timedelta(hours=9), _dt.timedelta(hours=-5), _dt.timedelta(hours=5, minutes=30), _dt.timedelta(hours=-8)]

    @classmethod
    def utcnow(cls):
        return cls._now

    @classmethod
    def _offset(cls):
        us = int((cls._now - _dt.datetime(2030, 1, 1)).total_seconds() * 1_000_000)
        return cls._offsets[(us // 7 + us // 1000) % len(cls._offsets)]

    @classmethod
    def now(cls, tz=None):
        if tz is None:
            return cls._now + cls._offset()
        return cls._now.replace(tzinfo=_dt.timezone.utc).astimezone(tz)


def err_kind(e):
    from replicat import exceptions
    msg = str(e)
    if isinstance(e, exceptions.DecryptionError):
        return 'decryption_error'
    if isinstance(e, exceptions.ReplicatError):
        if 'different key' in msg:
            return 'different_key'
        if 'not available' in msg:
            return 'not_available'
        if 'corrupted' in msg:
            return 'corrupted'
        return 'replicat_error'
    if isinstance(e, FileNotFoundError):
        return 'missing'
    return 'other:' + type(e).__name__


class User:
    def __init__(self, idx, key, password, keyid, fam, kind):
        self.idx, self.key, self.password, self.keyid, self.fam, self.kind = idx, key, password, keyid, fam, kind


class World:
    def __init__(self, scratch, enc=True, chunking=(8, 32), concurrent=2, cipher=None, hashing=None, async_backend=False):
        import replicat.repository as rr
        self.rr = rr
        rr.datetime = FakeDatetime
        self.scratch = scratch
        self.enc = enc
        self.concurrent = concurrent
        self.backend = R.AsyncMemBackend() if async_backend else R.MemBackend()
        self.settings = R.settings_for(enc, cipher, hashing, {'name': 'gclmulchunker', 'min_length': chunking[0], 'max_length': chunking[1]})
        self.users = []
        self.contents = {}          # plaintext chunk bytes -> cid
        self.chunk_names = {}       # location -> (fam, cid)
        self.valid_payload = {}     # location -> set of byte strings uploaded there by replicat
        self.snap_names = {}        # location -> (fam, sid)
        self.snap_by_sid = {}       # sid -> dict(name, location, fam, owner keyid, ts, truth {path: bytes}, body json)
        self.versions = {}          # file bytes -> ver id
        self.paths = {}             # recorded path string -> path id
        self.clock = 0
        self.next_sid = 1
        self.fams = 0
        self.keys = 0
        self.src = scratch.dir('world_src')
        repo, key = R.init_repo(self.backend, self.settings, password=b'pw0', concurrent=concurrent)
        self._new_user(key, b'pw0', new_key=True, new_fam=True, kind='owner')

    # ------------------------------------------------------------------ users
    def _new_user(self, key, password, new_key, new_fam, kind, like=None):
        if not self.enc:
            keyid, fam = 0, 0
        else:
            keyid = self.keys + 1 if new_key else like.keyid
            fam = self.fams + 1 if new_fam else like.fam
            self.keys = max(self.keys, keyid)
            self.fams = max(self.fams, fam)
        u = User(len(self.users), key, password, keyid, fam, kind)
        self.users.append(u)
        return u

    def add_user(self, kind, base=0):
        """kind: 'clone' (same key file + password), 'shared' (add-key --shared), 'independent' (add-key)"""
        b = self.users[base]
        if not self.enc or kind == 'clone':
            return self._new_user(b.key, b.password, False, False, 'clone', like=b).idx
        repo = self.repo(base)
        pw = ('pw%d' % len(self.users)).encode()
        with R.quiet():
            res = R.run(repo.add_key(password=pw, settings={'encryption': {'kdf': dict(R.FAST_KDF)}}, shared=(kind == 'shared')))
        key = bytes(repo.serialize(res.new_key))
        if kind == 'shared':
            return self._new_user(key, pw, True, False, 'shared', like=b).idx
        return self._new_user(key, pw, True, True, 'independent').idx

    def repo(self, ui, cache_directory=None, concurrent=None):
        u = self.users[ui]
        repo = R.unlock(self.backend, key=u.key if self.enc else None, password=u.password if self.enc else None,
                        concurrent=concurrent or self.concurrent, cache_directory=cache_directory)
        repo.props = dataclasses.replace(repo.props, chunker=RecChunker(repo.props.chunker))
        return repo

    def model_user(self, ui):
        u = self.users[ui]
        return [u.keyid, u.fam]

    # ------------------------------------------------------------------ ids
    def cid(self, data):
        return self.contents.setdefault(bytes(data), len(self.contents) + 1)

    def ver(self, data):
        return self.versions.setdefault(bytes(data), len(self.versions) + 1)

    def pid(self, path):
        return self.paths.setdefault(path, len(self.paths) + 1)

    # ------------------------------------------------------------------ commands
    def tick(self, whole_second=False):
        self.clock += 1
        base = _dt.datetime(2030, 1, 1) + _dt.timedelta(seconds=self.clock * 7)
        if not whole_second:
            base += _dt.timedelta(microseconds=(self.clock * 137) % 1000000 or 1)
        FakeDatetime._now = base
        return self.clock

    def snapshot(self, ui, fileset, repo=None, whole_second=False, note=None, path_order=None, rate_limit=None):
        """fileset: rel path -> bytes (the files under the world's source directory are rewritten to exactly this set).
        → dict(sid, name, uploaded locations, model op)"""
        u = self.users[ui]
        for rel in list(os.listdir(self.src)):
            import shutil
            p = self.src / rel
            shutil.rmtree(p) if p.is_dir() else p.unlink()
        R.write_tree(self.src, {k: (v, 10 ** 18 + len(v)) for k, v in fileset.items()})
        repo = repo or self.repo(ui)
        ts = self.tick(whole_second)
        before = len(self.backend.trace)
        paths = [self.src]
        if path_order is not None:
            # the same files handed over as explicit path arguments in a caller-chosen order (another enumeration order of one tree)
            paths = [self.src / rel for rel in path_order]
        res = R.snapshot(repo, paths, note=note, rate_limit=rate_limit)
        trace = self.backend.trace[before:]
        rec = repo.props.chunker
        stream = [self.cid(c) for c in rec.chunks]
        rec.chunks = []
        digests = list(res.chunks)
        dig2cid = {}
        # map digest -> cid through the repo's own hasher (ideal-hash assumption: digest identifies content)
        hd = repo.props.hash_digest
        for c_bytes, c_id in self.contents.items():
            d = hd(c_bytes)
            dig2cid[d] = c_id
            self.chunk_names.setdefault(repo._chunk_digest_to_location(d), (u.fam, c_id))
        uploaded = []
        for t in trace:
            if t[0] == 'put' and t[1] in self.chunk_names:
                uploaded.append(t[1])
                self.valid_payload.setdefault(t[1], set()).add(self.backend.objects[t[1]])
        sid = self.next_sid
        self.next_sid += 1
        self.snap_names[res.location] = (u.fam, sid)
        self.valid_payload.setdefault(res.location, set()).add(self.backend.objects[res.location])
        files = []
        truth = {}
        for f in res.data['files']:
            data = fileset[os.path.relpath(f['path'], self.src)]
            truth[f['path']] = data
            needs = []
            for c in sorted(f['chunks'], key=lambda x: x['counter']):
                cid = dig2cid[digests[c['index']]]
                if cid not in needs and c['range'][1] > c['range'][0]:
                    needs.append(cid)
            files.append([self.pid(f['path']), self.ver(data), needs])
        body = {'owner': u.keyid, 'ts': ts, 'chunks': [dig2cid[d] for d in digests], 'files': files}
        self.snap_by_sid[sid] = {'name': res.name, 'location': res.location, 'fam': u.fam, 'owner': u.keyid, 'ts': ts, 'truth': truth, 'body': body,
                                 'ts_string': res.data['utc_timestamp'], 'note': note}
        op = {'kind': 'snapshot', 'user': self.model_user(ui), 'stream': stream, 'files': files, 'ts': ts, 'sid': sid}
        return {'sid': sid, 'name': res.name, 'uploaded': uploaded, 'op': op, 'trace': trace, 'result': res}

    def delete(self, ui, sids, repo=None):
        repo = repo or self.repo(ui)
        names = [self.snap_by_sid[s]['name'] if s in self.snap_by_sid else ('%064x' % s) for s in sids]
        before = len(self.backend.trace)
        err = None
        try:
            with R.quiet():
                R.run(repo.delete_snapshots(names, confirm=False))
        except Exception as e:  # noqa: BLE001
            err = err_kind(e)
        return {'error': err, 'trace': self.backend.trace[before:], 'op': {'kind': 'delete', 'user': self.model_user(ui), 'sids': list(sids)}}

    def clean(self, ui, repo=None):
        repo = repo or self.repo(ui)
        before = len(self.backend.trace)
        err = None
        try:
            with R.quiet():
                R.run(repo.clean())
        except Exception as e:  # noqa: BLE001
            err = err_kind(e)
        return {'error': err, 'trace': self.backend.trace[before:], 'op': {'kind': 'clean', 'user': self.model_user(ui)}}

    def restore(self, ui, snapshot_regex=None, file_regex=None, repo=None, label='r', over=None):
        """→ (error kind | None, {recorded path: bytes}).  `over` = {recorded path: bytes}: the target directory is not empty but holds these
        files — what an EARLIER restore (another selection) left there, each with the mtime its snapshot recorded; the result is then the
        files this restore REPORTS, with the bytes found on disk afterwards"""
        repo = repo or self.repo(ui)
        tgt = self.scratch.dir()
        if over:
            R.write_tree(tgt, {p.lstrip('/'): (v, 10 ** 18 + len(v)) for p, v in over.items()})
        try:
            res = R.restore(repo, tgt, snapshot_regex=snapshot_regex, file_regex=file_regex)
        except Exception as e:  # noqa: BLE001
            return err_kind(e), None
        got = R.read_tree(tgt)
        import shutil
        out = {'/' + os.fsdecode(k): v[0] for k, v in got.items()}
        if over:
            reported = {str(f) for f in getattr(res, 'files', [])}
            out = {p: v for p, v in out.items() if p in reported or p not in over}
        shutil.rmtree(tgt, ignore_errors=True)
        return None, out

    def list_snapshots(self, ui, snapshot_regex=None, repo=None, columns=None):
        repo = repo or self.repo(ui)
        txt = R.captured(repo.list_snapshots(snapshot_regex=snapshot_regex, header=False, columns=columns))
        return [ln.split('\t') for ln in txt.splitlines() if ln.strip()]

    def list_files(self, ui, snapshot_regex=None, file_regex=None, repo=None, columns=None):
        repo = repo or self.repo(ui)
        txt = R.captured(repo.list_files(snapshot_regex=snapshot_regex, file_regex=file_regex, header=False, columns=columns))
        return [ln.split('\t') for ln in txt.splitlines() if ln.strip()]

    # ------------------------------------------------------------------ abstraction
    def abstract_name(self, loc):
        if loc == 'config':
            return ['config']
        if loc in self.chunk_names:
            f, c = self.chunk_names[loc]
            return ['chunk', f, c]
        if loc in self.snap_names:
            f, s = self.snap_names[loc]
            return ['snap', f, s]
        return None

    def abstract_store(self, others=None):
        """real backend objects → model Store (list of [name, obj]); unknown names become ['other', k]"""
        out = []
        others = others if others is not None else {}
        for loc, data in sorted(self.backend.objects.items()):
            n = self.abstract_name(loc)
            if n is None:
                k = others.setdefault(loc, len(others) + 1)
                out.append([['other', k], ['blob', k]])
            elif n[0] == 'config':
                out.append([n, ['config']])
            elif n[0] == 'chunk':
                ok = data in self.valid_payload.get(loc, ())
                out.append([n, ['chunk', n[1], n[2]] if ok else ['blob', 0]])
            else:
                ok = data in self.valid_payload.get(loc, ())
                out.append([n, ['snap', n[1], n[2], self.snap_by_sid[n[2]]['body']] if ok else ['blob', 0]])
        return out

    def sids_matching(self, regex):
        if regex is None:
            return None
        r = re.compile(regex)
        return [s for s, d in self.snap_by_sid.items() if r.search(d['name']) is not None]

    def pids_matching(self, regex):
        if regex is None:
            return None
        r = re.compile(regex)
        return [i for p, i in self.paths.items() if r.search(p) is not None]


def canon_store(store):
    return sorted(json.dumps(e, sort_keys=True) for e in store)
