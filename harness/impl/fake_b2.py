"""In-process fake of the Backblaze B2 native API (v2) for `httpx.MockTransport` (trusted base; written from the published
protocol: b2_authorize_account, b2_list_buckets, b2_get_upload_url, b2_upload_file, b2_download_file_by_name (GET/HEAD
/file/<bucket>/<name>), b2_list_file_names, b2_hide_file, and the "String Encoding" page).

Self-contained (standard library + httpx).  Reused by several properties (C12, C13).

    fake = FakeB2(bucket_name='bkt', key_id='kid', application_key='secret', page_size=2)
    backend = B2('bkt', key_id='kid', application_key='secret')
    install(backend, fake)

What it does
* account authorisation by HTTP basic auth; authorisation tokens carry a use counter (`token_uses`: after that many API calls
  the token answers 401 `expired_auth_token`; None = never expires); every API call checks the token;
* optional service clock (`clock` = callable returning the service's current UTC time as a naive `datetime`): account and
  upload-URL authorisation tokens then also expire `token_ttl` seconds after they were issued (B2: 24 hours), again with 401
  `expired_auth_token`.  Without a clock tokens never age (the behaviour every earlier user of this fake relies on);
* per file name a stack of versions: `('upload', bytes)` or `('hide',)`; uploads push a version, `b2_hide_file` pushes a hide
  marker (400 `no_such_file` if the name has no version, 400 `already_hidden` if the newest version is a hide marker);
* download/HEAD by name serve the newest version if it is an upload, else 404 `not_found`; the bucket in `/file/<bucket>/…` must be
  the bucket's NAME (its id, or another bucket's name, answers 404), the `bucketId` of the API calls must be its ID (400 `bad_bucket_id`);
  `other_buckets` / `buckets_after` are further (empty) buckets `b2_list_buckets` reports before / after ours;
* `b2_list_file_names`: newest *visible* version per name, names in UTF-8 byte order, `>= startFileName`, with `prefix`,
  at most `min(page_size, maxFileCount)` per page, `nextFileName` = the next name or null;
* file names in URLs and in `X-Bz-File-Name` are percent-decoded the way B2 documents it (UTF-8, `+` decodes to a space);
  names with control characters, DEL, a backslash, a leading `/`, `//`, or longer than 1024 bytes are rejected (400 `bad_request`);
* `Content-Length` is enforced on uploads; `X-Bz-Content-Sha1` is verified unless `do_not_verify`.

* credentials with a lifetime (C12 sessions; nothing changes until one of these is called): `expire_account_tokens()` — every
  account token issued so far answers 401 `expired_auth_token` from now on; `expire_upload_tokens()` — so does every upload URL /
  upload token pair issued so far; `retire_upload_pods()` — every upload URL issued so far answers 503 `service_unavailable`
  (the pod behind it is gone; B2 tells clients to fetch a new upload URL).  Credentials issued AFTER the event are valid.

Fault hook: `fault(request) -> None | httpx.Response | BaseException`, consulted first on every request.
Every request is appended to `fake.log` as a dict (api, name, status).
"""
import base64
import hashlib
import json
from urllib.parse import unquote_plus

import httpx

AUTH_URL = 'https://api.backblazeb2.com/b2api/v2/b2_authorize_account'


class FakeB2:
    def __init__(self, bucket_name, key_id, application_key, bucket_id='4a48fe8875c6214145260818', account_id='acc0123456789',
                 page_size=10000, fault=None, token_uses=None, restricted=False, other_buckets=(), clock=None, token_ttl=86400,
                 buckets_after=()):
        self.bucket_name, self.bucket_id, self.account_id = bucket_name, bucket_id, account_id
        self.key_id, self.application_key = key_id, application_key
        self.page_size = page_size
        self.fault = fault
        self.token_uses = token_uses
        self.restricted = restricted            # key restricted to this bucket (authorize answer carries bucketId/bucketName)
        self.other_buckets = list(other_buckets)  # [(id, name)] listed before ours by b2_list_buckets
        self.buckets_after = list(buckets_after)  # [(id, name)] listed after ours (all other buckets are empty and answer like unknown ones)
        self.api_url = 'https://api001.fake-b2.test'
        self.download_url = 'https://f001.fake-b2.test'
        self.upload_host = 'https://pod-000-1001-01.fake-b2.test'
        self.versions = {}         # name -> [('upload', bytes) | ('hide',)], newest last
        self.tokens = {}           # auth token -> remaining uses (None = unlimited)
        self.upload_tokens = set()
        self.clock = clock                  # None, or () -> naive UTC datetime: the service's own clock
        self.token_ttl = token_ttl          # seconds a token stays valid once issued (only with a clock)
        self.issued = {}                    # token (account or upload) -> time of issue
        self.n_aged_out = 0                 # requests answered 401 because the token was older than token_ttl
        self.n_tokens = 0
        self.log = []
        self.revoked_tokens = set()         # account tokens that stopped being accepted (expire_account_tokens)
        self.revoked_upload_tokens = set()  # upload tokens / URLs that stopped being accepted (expire_upload_tokens)
        self.retired_upload_tokens = set()  # upload URLs whose pod is gone: 503 (retire_upload_pods)
        self.n_revoked_hits = 0             # requests answered 401 / 503 because of one of the three sets

    # ------------------------------------------------------------------ state helpers
    def live(self):
        """name -> bytes for names whose newest version is an upload."""
        return {n: v[-1][1] for n, v in self.versions.items() if v and v[-1][0] == 'upload'}

    # ------------------------------------------------------------------ credentials with a lifetime (events between requests)
    def expire_account_tokens(self):
        """every account authorisation token handed out so far expires now (B2: 24 h after b2_authorize_account)"""
        self.revoked_tokens |= set(self.tokens)

    def expire_upload_tokens(self):
        """every upload URL / upload authorisation token handed out so far expires now (B2: 24 h, or when the pod says so)"""
        self.revoked_upload_tokens |= set(self.upload_tokens)

    def retire_upload_pods(self):
        """the pods behind every upload URL handed out so far are gone: 503, "get a new upload URL" """
        self.retired_upload_tokens |= set(self.upload_tokens)

    @staticmethod
    def _err(status, code, message=''):
        return httpx.Response(status, json={'status': status, 'code': code, 'message': message or code})

    def _new_token(self):
        self.n_tokens += 1
        t = '4_%s_tok%04d_%s=' % (self.key_id, self.n_tokens, hashlib.sha1(str(self.n_tokens).encode()).hexdigest()[:12])
        self.tokens[t] = self.token_uses
        if self.clock is not None:
            self.issued[t] = self.clock()
        return t

    def _aged_out(self, t):
        if self.clock is None or t not in self.issued:
            return False
        if (self.clock() - self.issued[t]).total_seconds() < self.token_ttl:
            return False
        self.n_aged_out += 1
        return True

    def _check_token(self, request):
        t = request.headers.get('authorization')
        if t not in self.tokens:
            return self._err(401, 'bad_auth_token', 'Invalid authorization token')
        if self._aged_out(t):
            return self._err(401, 'expired_auth_token', 'Authorization token has expired')
        if t in self.revoked_tokens:
            self.n_revoked_hits += 1
            return self._err(401, 'expired_auth_token', 'Authorization token has expired')
        left = self.tokens[t]
        if left is not None:
            if left <= 0:
                return self._err(401, 'expired_auth_token', 'Authorization token has expired')
            self.tokens[t] = left - 1
        return None

    @staticmethod
    def name_ok(name):
        if not name or len(name.encode('utf-8', 'surrogateescape')) > 1024:
            return False
        if name.startswith('/') or '//' in name:
            return False
        return all(ord(c) >= 32 and ord(c) != 127 and c != '\\' for c in name)

    # ------------------------------------------------------------------ handler
    async def handler(self, request):
        if self.fault is not None:
            f = self.fault(request)
            if isinstance(f, BaseException):
                raise f
            if f is not None:
                return f
        entry = {'method': request.method, 'api': '?', 'name': None}
        resp = self._serve(request, entry)
        entry['status'] = resp.status_code
        self.log.append(entry)
        return resp

    def _serve(self, request, entry):
        url = request.url
        base = '%s://%s' % (url.scheme, url.netloc.decode('ascii'))
        raw = url.raw_path.decode('ascii', 'replace')
        raw_path, _, raw_query = raw.partition('?')
        body = request.content
        if str(url).split('?')[0] == AUTH_URL:
            entry['api'] = 'b2_authorize_account'
            expect = 'Basic ' + base64.b64encode(('%s:%s' % (self.key_id, self.application_key)).encode()).decode()
            if request.method != 'GET' or request.headers.get('authorization') != expect:
                return self._err(401, 'unauthorized', 'bad key id or application key')
            allowed = {'capabilities': ['listBuckets', 'listFiles', 'readFiles', 'writeFiles', 'deleteFiles'],
                       'bucketId': self.bucket_id if self.restricted else None,
                       'bucketName': self.bucket_name if self.restricted else None, 'namePrefix': None}
            return httpx.Response(200, json={'accountId': self.account_id, 'authorizationToken': self._new_token(), 'allowed': allowed,
                                             'apiUrl': self.api_url, 'downloadUrl': self.download_url, 'recommendedPartSize': 100000000,
                                             'absoluteMinimumPartSize': 5000000, 's3ApiUrl': 'https://s3.fake-b2.test'})
        if base == self.upload_host:
            return self._upload(request, raw_path, body, entry)
        if base == self.download_url and raw_path.startswith('/file/'):
            return self._download(request, raw_path, entry)
        if base == self.api_url and raw_path.startswith('/b2api/v2/'):
            api = raw_path[len('/b2api/v2/'):]
            entry['api'] = api
            bad = self._check_token(request)
            if bad is not None:
                return bad
            if request.method != 'POST':
                return self._err(405, 'method_not_allowed')
            try:
                params = json.loads(body.decode('utf-8')) if body else {}
            except ValueError:
                return self._err(400, 'bad_json')
            if isinstance(params, dict) and 'bucketId' in params:
                entry['bucket_id'] = params['bucketId']      # how the request addressed the bucket (API calls: by id)
            fn = getattr(self, '_api_' + api, None)
            if fn is None:
                return self._err(404, 'not_found', 'unknown api call ' + api)
            return fn(params, entry)
        entry['api'] = 'unknown-url'
        return self._err(404, 'not_found', 'no such URL on the fake: %s' % url)

    # ------------------------------------------------------------------ API calls
    def _api_b2_list_buckets(self, p, entry):
        if p.get('accountId') != self.account_id:
            return self._err(400, 'bad_request', 'accountId')
        bs = [{'accountId': self.account_id, 'bucketId': i, 'bucketName': n, 'bucketType': 'allPrivate'} for i, n in self.other_buckets]
        bs.append({'accountId': self.account_id, 'bucketId': self.bucket_id, 'bucketName': self.bucket_name, 'bucketType': 'allPrivate'})
        bs += [{'accountId': self.account_id, 'bucketId': i, 'bucketName': n, 'bucketType': 'allPrivate'} for i, n in self.buckets_after]
        return httpx.Response(200, json={'buckets': bs})

    def _api_b2_get_upload_url(self, p, entry):
        if p.get('bucketId') != self.bucket_id:
            return self._err(400, 'bad_bucket_id', 'bucketId')
        t = 'up_%04d_%s' % (len(self.upload_tokens) + 1, hashlib.sha1(str(len(self.upload_tokens)).encode()).hexdigest()[:10])
        self.upload_tokens.add(t)
        if self.clock is not None:
            self.issued[t] = self.clock()
        return httpx.Response(200, json={'bucketId': self.bucket_id, 'authorizationToken': t,
                                         'uploadUrl': '%s/b2api/v2/b2_upload_file/%s/%s' % (self.upload_host, self.bucket_id, t)})

    def _api_b2_list_file_names(self, p, entry):
        if p.get('bucketId') != self.bucket_id:
            return self._err(400, 'bad_bucket_id', 'bucketId')
        prefix = p.get('prefix') or ''
        start = p.get('startFileName')
        entry['prefix'], entry['start'] = prefix, start
        try:
            limit = int(p.get('maxFileCount', 100))
        except (TypeError, ValueError):
            return self._err(400, 'bad_request', 'maxFileCount')
        if limit < 1 or limit > 10000:
            return self._err(400, 'out_of_range', 'maxFileCount out of range')
        limit = min(limit, self.page_size)
        enc = lambda s: s.encode('utf-8', 'surrogateescape')
        live = self.live()
        names = sorted((n for n in live if n.startswith(prefix)), key=enc)
        if start is not None:
            names = [n for n in names if enc(n) >= enc(start)]
        page, rest = names[:limit], names[limit:]
        files = [{'accountId': self.account_id, 'action': 'upload', 'bucketId': self.bucket_id, 'contentLength': len(live[n]),
                  'contentType': 'application/octet-stream', 'fileId': '4_z%s_f%06d' % (self.bucket_id, len(self.versions[n])),
                  'fileName': n, 'uploadTimestamp': 1600000000000 + len(self.versions[n])} for n in page]
        entry['returned'] = len(page)
        return httpx.Response(200, json={'files': files, 'nextFileName': rest[0] if rest else None})

    def _api_b2_hide_file(self, p, entry):
        if p.get('bucketId') != self.bucket_id:
            return self._err(400, 'bad_bucket_id', 'bucketId')
        name = p.get('fileName')
        entry['name'] = name
        if not isinstance(name, str) or not self.name_ok(name):
            return self._err(400, 'bad_request', 'File names must not contain control characters, start with / or contain //')
        v = self.versions.get(name)
        if not v:
            return self._err(400, 'no_such_file', 'File not present: ' + name)
        if v[-1][0] == 'hide':
            return self._err(400, 'already_hidden', 'File already hidden: ' + name)
        v.append(('hide',))
        return httpx.Response(200, json={'action': 'hide', 'fileName': name, 'fileId': '4_z%s_f%06d' % (self.bucket_id, len(v)), 'contentLength': 0})

    # ------------------------------------------------------------------ upload / download
    def _upload(self, request, raw_path, body, entry):
        entry['api'] = 'b2_upload_file'
        pre = '/b2api/v2/b2_upload_file/%s/' % self.bucket_id
        tok = request.headers.get('authorization')
        if request.method != 'POST' or not raw_path.startswith(pre) or raw_path[len(pre):] != tok or tok not in self.upload_tokens:
            return self._err(401, 'bad_auth_token', 'upload token')
        if self._aged_out(tok):
            return self._err(401, 'expired_auth_token', 'Upload authorization token has expired')
        if tok in self.revoked_upload_tokens:
            self.n_revoked_hits += 1
            return self._err(401, 'expired_auth_token', 'Upload authorization token has expired')
        if tok in self.retired_upload_tokens:
            self.n_revoked_hits += 1
            return self._err(503, 'service_unavailable', 'The upload pod is gone, call b2_get_upload_url again')
        enc_name = request.headers.get('x-bz-file-name')
        if enc_name is None:
            return self._err(400, 'bad_request', 'missing X-Bz-File-Name')
        name = unquote_plus(enc_name, errors='strict') if _valid_pct_utf8(enc_name) else None
        entry['name'] = name
        if name is None or not self.name_ok(name):
            return self._err(400, 'bad_request', 'File names must be percent-encoded UTF-8 without control characters')
        if 'content-type' not in request.headers:
            return self._err(400, 'bad_request', 'missing Content-Type')
        try:
            declared = int(request.headers['content-length'])
        except (KeyError, ValueError):
            return self._err(400, 'bad_request', 'missing Content-Length')
        if declared != len(body):
            return self._err(400, 'bad_request', 'Content-Length %d does not match the %d bytes received' % (declared, len(body)))
        sha1 = request.headers.get('x-bz-content-sha1')
        if sha1 is None:
            return self._err(400, 'bad_request', 'missing X-Bz-Content-Sha1')
        if sha1 != 'do_not_verify' and sha1 != hashlib.sha1(body).hexdigest():
            return self._err(400, 'bad_request', 'Sha1 did not match data received')
        v = self.versions.setdefault(name, [])
        v.append(('upload', bytes(body)))
        return httpx.Response(200, json={'action': 'upload', 'fileName': name, 'fileId': '4_z%s_f%06d' % (self.bucket_id, len(v)),
                                         'contentLength': len(body), 'contentSha1': hashlib.sha1(body).hexdigest(), 'bucketId': self.bucket_id})

    def _download(self, request, raw_path, entry):
        entry['api'] = 'download_by_name' if request.method == 'GET' else 'head_by_name'
        if request.method not in ('GET', 'HEAD'):
            return self._err(405, 'method_not_allowed')
        bad = self._check_token(request)
        if bad is not None:
            return bad
        rest = raw_path[len('/file/'):]
        bucket, _, enc_name = rest.partition('/')
        entry['bucket'] = unquote_plus(bucket)                # how the request addressed the bucket (download by name: by name)
        if unquote_plus(bucket) != self.bucket_name:
            return self._err(404, 'not_found', 'bucket ' + bucket)
        name = unquote_plus(enc_name, errors='surrogateescape')
        entry['name'] = name
        data = self.live().get(name)
        if data is None:
            return self._err(404, 'not_found', 'File with such name does not exist.')
        headers = {'content-length': str(len(data)), 'content-type': 'application/octet-stream', 'x-bz-file-name': enc_name,
                   'x-bz-content-sha1': hashlib.sha1(data).hexdigest()}
        if request.method == 'HEAD':
            return httpx.Response(200, headers=headers)
        return httpx.Response(200, headers=headers, content=data)


def _valid_pct_utf8(s):
    try:
        unquote_plus(s, errors='strict')
        s.encode('ascii')
        return True
    except (UnicodeError, ValueError):
        return False


def install(backend, fake):
    """Point a replicat B2 backend at the fake: new AsyncClient on a MockTransport, same event hooks."""
    old = backend._client
    backend._client = httpx.AsyncClient(transport=httpx.MockTransport(fake.handler), timeout=None, event_hooks=old.event_hooks)
    return old
