"""Runs the REAL `replicat.utils.RateLimitedIO` / `_RateLimitedFileWrapper` on a virtual clock (C20).

`time` as referenced inside `replicat.utils` is replaced by `vclock.TimeShim`, every `threading.Lock` held by the
limiter instance by a `vclock.VLock`; the underlying stream is an in-memory file whose `read`/`write` take a
prescribed amount of virtual time.  One thread: no real thread is used.  Several threads: real threads under the
deterministic scheduler `vclock.VSched`.
"""
import contextlib
import io
import threading
import time as _real_time
from fractions import Fraction

from . import vclock

_LOCK_TYPE = type(threading.Lock())


def utils_module():
    from replicat import utils
    return utils


@contextlib.contextmanager
def patched_time(utils, sched):
    shim = vclock.TimeShim(sched, _real_time)
    old = utils.time
    utils.time = shim
    try:
        yield shim
    finally:
        utils.time = old


class LatStream:
    """In-memory file; `read`/`write` let `task.lat` virtual seconds pass (the latency of the underlying I/O)."""

    def __init__(self, sched, initial=b'', log=None):
        self._s = sched
        self._f = io.BytesIO(initial)
        self.log = log if log is not None else []
        self.closed_calls = 0

    def _lat(self):
        t = self._s.current()
        return t.lat if t is not None else 0.0

    def read(self, size=-1):
        data = self._f.read(size)
        lat = self._lat()
        if lat:
            self._s.delay(lat)
        self.log.append(('read', len(data), self._s.now))
        return data

    def write(self, data):
        n = self._f.write(data)
        lat = self._lat()
        if lat:
            self._s.delay(lat)
        self.log.append(('write', n, self._s.now))
        return n

    def seek(self, *a, **k):
        return self._f.seek(*a, **k)

    def tell(self, *a, **k):
        return self._f.tell(*a, **k)

    def truncate(self, *a, **k):
        return self._f.truncate(*a, **k)

    def getvalue(self):
        return self._f.getvalue()

    def close(self):
        self.closed_calls += 1

    def __enter__(self):
        return self

    def __exit__(self, *a):
        pass


def swap_locks(obj, sched, acq_log):
    """Replace every threading.Lock attribute of `obj` by a VLock that logs (name, tid, time) into acq_log."""
    names = []
    for k, v in list(vars(obj).items()):
        if isinstance(v, _LOCK_TYPE):
            lk = _LoggingLock(sched, k, acq_log)
            setattr(obj, k, lk)
            names.append(k)
    return names


class _LoggingLock(vclock.VLock):
    def __init__(self, sched, name, acq_log):
        super().__init__(sched, name)
        self._log = acq_log

    def acquire(self, blocking=True, timeout=-1):
        n = len(self.acquisitions)
        r = super().acquire(blocking, timeout)
        if r and len(self.acquisitions) > n:
            tid, t = self.acquisitions[-1]
            self._log.append((self.name, tid if tid is not None else 0, t))
        return r

    __enter__ = acquire


def debts_of(rl):
    """(read debt, write debt) as exact Fractions, or None where the attribute cannot be identified."""
    out = {'r': None, 'w': None}
    for d, word in (('r', 'read'), ('w', 'write')):
        cands = [(k, v) for k, v in vars(rl).items()
                 if word in k and 'limit' not in k and not isinstance(v, bool) and isinstance(v, (int, float, Fraction))]
        if len(cands) > 1:
            cands = [(k, v) for k, v in cands if any(w in k for w in ('amort', 'debt', 'sleep'))]
        if len(cands) == 1:
            v = cands[0][1]
            if isinstance(v, float) and (v != v or v in (float('inf'), float('-inf'))):
                continue
            out[d] = Fraction(v)
    return out


def dir_of_lock(name):
    if 'read' in name:
        return 'r'
    if 'write' in name:
        return 'w'
    return '?'


def run_history(L, Lw, t0, programs, payloads, policy='fifo'):
    """Execute per-thread programs against one shared RateLimitedIO.

    programs[i] = list of steps: {'k':'idle','dt':float} | {'k':'io','dir':'r'|'w','n':int,'lat':float,'ov':float}
      ('n' = size argument of read (None = -1) / number of bytes to write)
    payloads[i] = bytes the thread's source stream holds (reads) and from which written data is taken.
    Returns dict(calls=[...in completion order...], acq=[(dir, tid, time)...in lock order...], final=debts,
                 read_back=[bytes per thread], sinks=[bytes per thread], written=[bytes per thread], raised=None|str)
    """
    utils = utils_module()
    multi = len(programs) > 1
    sched = vclock.VSched(t0, policy) if multi else vclock.InlineClock(t0)
    acq_log = []
    res = {'calls': [], 'acq': [], 'raised': None}
    with patched_time(utils, sched):
        rl = utils.RateLimitedIO(L) if Lw is None else utils.RateLimitedIO(L, Lw)
        swap_locks(rl, sched, acq_log)
        n = len(programs)
        sources = [LatStream(sched, payloads[i]) for i in range(n)]
        sinks = [LatStream(sched, b'') for i in range(n)]
        read_back = [bytearray() for _ in range(n)]
        written = [bytearray() for _ in range(n)]

        def body(task, i=None):
            i = task.tid if i is None else i
            wr, ww = rl.wrap(sources[i]), rl.wrap(sinks[i])
            wpos = 0
            k_io = 0
            for st in programs[i]:
                if st['k'] == 'idle':
                    sched.delay(st['dt'])
                    continue
                task.lat, task.ov = st['lat'], st['ov']
                ns = len(sched.sleeps)
                t_start = sched.now
                before = debts_of(rl)
                if st['dir'] == 'r':
                    data = wr.read(-1 if st['n'] is None else st['n'])
                    b = len(data)
                    read_back[i] += data
                    t_pre = sources[i].log[-1][2]
                else:
                    chunk = payloads[i][wpos:wpos + st['n']]
                    wpos += len(chunk)
                    b = ww.write(chunk)
                    written[i] += chunk
                    t_pre = sinks[i].log[-1][2]
                t_rel = sched.now
                mine = [s for s in sched.sleeps[ns:] if s[0] == task.tid]
                after = debts_of(rl)
                res['calls'].append({'tid': i, 'k': k_io, 'dir': st['dir'], 'b': b, 'lat': st['lat'], 'tStart': t_start, 'tPre': t_pre,
                                     'tRel': t_rel, 'sleeps': [(s[1], s[2]) for s in mine],
                                     'debt': after[st['dir']], 'debt_before': before[st['dir']]})
                k_io += 1

        try:
            if multi:
                for i in range(n):
                    sched.spawn(body)
                sched.run()
            else:
                body(sched.current(), 0)
        except ZeroDivisionError:
            res['raised'] = 'ZeroDivisionError'
        res['final'] = debts_of(rl)
        res['limits'] = (rl.read_limit, rl.write_limit)
    res['acq'] = [(dir_of_lock(nm), tid, t) for nm, tid, t in acq_log]
    res['read_back'] = [bytes(x) for x in read_back]
    res['written'] = [bytes(x) for x in written]
    res['sinks'] = [s.getvalue() for s in sinks]
    res['end'] = sched.now
    return res


def model_events(programs, res):
    """The history as the model wants it: events in lock order (idle steps of a thread just before its next call).
    Returns (events for rate.run2, list mapping each io event to the index in res['calls'])."""
    n = len(programs)
    ptr = [0] * n
    kio = [0] * n
    by = {(c['tid'], c['k']): idx for idx, c in enumerate(res['calls'])}
    evs, back = [], []
    for d, tid, _t in res['acq']:
        prog = programs[tid]
        while ptr[tid] < len(prog) and prog[ptr[tid]]['k'] == 'idle':
            evs.append({'s': tid, 'idle': vclock.jr(prog[ptr[tid]]['dt'])})
            ptr[tid] += 1
        if ptr[tid] >= len(prog):
            return None, 'more lock acquisitions than calls'
        st = prog[ptr[tid]]
        if st['dir'] != d:
            return None, f'lock of direction {d} taken by a call of direction {st["dir"]}'
        idx = by.get((tid, kio[tid]))
        if idx is None:
            return None, 'lock acquisition without a completed call'
        c = res['calls'][idx]
        evs.append({'dir': d, 's': tid, 'b': c['b'], 'lat': vclock.jr(st['lat']), 'ov': vclock.jr(st['ov'])})
        back.append(idx)
        ptr[tid] += 1
        kio[tid] += 1
    for tid in range(n):
        prog = programs[tid]
        while ptr[tid] < len(prog):
            if prog[ptr[tid]]['k'] != 'idle':
                return None, 'a call completed without entering a pause section'
            evs.append({'s': tid, 'idle': vclock.jr(prog[ptr[tid]]['dt'])})
            ptr[tid] += 1
    return evs, back


# ------------------------------------------------------------------ the wrappers stacked as the commands stack them
def run_stack(direction, L, t0, initial, ops, use_callback=False):
    """TQDMIOReader/Writer → [CallbackIOWrapper →] limiter → in-memory stream, one thread.
    ops: list of dicts {'op': 'read'|'write'|'seek'|'tell'|'truncate', ..., 'lat', 'ov', 'via': 'top'|'limiter'}.
    Returns results (as the driver reports them), final content/position, the limiter calls, and the same ops applied
    to a plain io.BytesIO (the direct oracle for transparency)."""
    utils = utils_module()
    sched = vclock.InlineClock(t0)
    acq_log = []
    out = {'results': [], 'plain': [], 'calls': []}
    with patched_time(utils, sched):
        rl = utils.RateLimitedIO(L)
        swap_locks(rl, sched, acq_log)
        under = LatStream(sched, initial)
        under.seek(0)
        plain = io.BytesIO(initial)
        limited = rl.wrap(under)
        mid = limited
        if use_callback:
            from tqdm.utils import CallbackIOWrapper
            mid = CallbackIOWrapper(lambda n: None, limited, 'read' if direction == 'r' else 'write')
        cls = utils.TQDMIOReader if direction == 'r' else utils.TQDMIOWriter
        top = cls(mid, desc='x', total=len(initial) if direction == 'r' else None, position=2, disable=True)
        task = sched.current()
        with under, limited, top:
            for o in ops:
                task.lat, task.ov = o.get('lat', 0.0), o.get('ov', 0.0)
                target = top if o.get('via', 'top') == 'top' else limited
                ns = len(sched.sleeps)
                nlog = len(under.log)
                before = debts_of(rl)
                t_start = sched.now

                def apply(f, o=o):
                    k = o['op']
                    if k == 'read':
                        return f.read(-1 if o.get('size') is None else o['size'])
                    if k == 'write':
                        return f.write(o['data'])
                    if k == 'seek':
                        return f.seek(o['off'], o['whence'])
                    if k == 'tell':
                        return f.tell()
                    if k == 'truncate':
                        return f.truncate(o.get('size'))
                    raise ValueError(k)

                def canon(fn, f):
                    try:
                        r = fn(f)
                    except ValueError:
                        return {'err': 'ValueError'}
                    if isinstance(r, (bytes, bytearray)):
                        return {'data': bytes(r).hex()}
                    return {'num': r}
                out['results'].append(canon(apply, target))
                out['plain'].append(canon(apply, plain))
                if len(under.log) > nlog:
                    kind, b, t_pre = under.log[-1]
                    d = 'r' if kind == 'read' else 'w'
                    after = debts_of(rl)
                    out['calls'].append({'dir': d, 'b': b, 'tPre': t_pre, 'tRel': sched.now, 'tStart': t_start,
                                         'sleeps': [(s[1], s[2]) for s in sched.sleeps[ns:]], 'debt': after[d], 'debt_before': before[d]})
        out['wrapper_closed'] = bool(getattr(limited, 'closed', False))
        out['under_close_calls'] = under.closed_calls
    out['data'] = under.getvalue()
    out['pos'] = under.tell()
    out['plain_data'] = plain.getvalue()
    out['plain_pos'] = plain.tell()
    out['acq'] = [(dir_of_lock(nm), tid, t) for nm, tid, t in acq_log]
    out['end'] = sched.now
    return out
