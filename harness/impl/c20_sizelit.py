"""C20 — the bandwidth limit as the user WRITES it (`-L` / `--limit-rate 1.5Mi`) and the transfer piece sizes derived from it.

Tie (model = `lean/ReplicatModel/SizeLit.lean`, driver requests `rate.parse*`): generated literals go through
  * the REAL `replicat.utils.cli._rate_limit` (and `human_to_bytes` / `re.fullmatch(HUMAN_SIZE_REGEX, …).groupdict()` to see
    which of the two `ValueError`s it was and what the groups held),
  * the REAL argparse path: `cli.make_main_parser(initial_parser, common_options_parser, parser_for_backend(Local))` →
    `snapshot | restore | upload-objects | download-objects` with `--limit-rate=<lit>`, `-L <lit>`, `-L<lit>`,
  * for a handful per run the REAL `replicat.__main__.main()` in a fresh process (harness/impl/c19_child.py): command line,
    configuration file and environment spellings,
and are compared with the compiled model: matched?, groups (digits by value, white-space count, prefix key, unit key),
accepted value / which rejection, exit status of the command.  Strings cross as code points.

The piece sizes: the expression at each of the four call sites, cut out of the real function's source and evaluated, and the
`chunk_size` the REAL `Repository.snapshot / restore / upload_objects / download_objects` hand to the backend (virtual
clock), against `rate.parse.piece`.

Direct oracle (independent of model and of `re`/`Decimal`): `ref_parse` is a hand-written recogniser of the documented
grammar with its own documented tables; the exact value is a `fractions.Fraction`.
  * an accepted literal is well-formed, its value is ⌊exact value⌋ (inside the guard where 28-digit arithmetic is exact) and ≥ 1;
  * a well-formed literal with ⌊value⌋ ≥ 1 is accepted (inside the guard); nothing < 1 is ever handed on (everywhere);
  * larger value ⇒ not smaller limit; direct call, argparse forms and sub-commands agree;
  * 1 ≤ piece ≤ max(limit, 1) and piece·16·concurrent ≤ max(limit, 16·concurrent) at the backend.
Beyond the guard the real arithmetic rounds: recorded as an observation (`beyond_guard` in the evidence), together with the
replay of the Lean witness `C20.size_literal_guard_needed`.
"""
import ast
import asyncio
import contextlib
import inspect
import io
import json
import os
import re
import shutil
import subprocess
import sys
import textwrap
import unicodedata
from fractions import Fraction as Fr
from pathlib import Path

from ..common import WORK, REPO, VERIF, PYMOD, rng_for

PY = '/venv/bin/python' if os.path.exists('/venv/bin/python') else sys.executable
CHILD = VERIF / 'harness' / 'impl' / 'c19_child.py'

# the DOCUMENTED meaning (README: "500K, 10M"; decimal k/M/G = 10^3,6,9, binary Ki/Mi/Gi = 2^10,20,30, either case;
# B = bytes, b = bits) — typed here independently of the source on purpose: this is the oracle's table
DOC_PREFIX = {'k': 10 ** 3, 'K': 10 ** 3, 'Ki': 2 ** 10, 'ki': 2 ** 10, 'M': 10 ** 6, 'm': 10 ** 6, 'Mi': 2 ** 20, 'mi': 2 ** 20,
              'g': 10 ** 9, 'G': 10 ** 9, 'gi': 2 ** 30, 'Gi': 2 ** 30}
DOC_UNIT = {'B': Fr(1), 'b': Fr(1, 8)}
TAILS = {}
for _p in [None, *DOC_PREFIX]:
    for _u in [None, *DOC_UNIT]:
        TAILS[(_p or '') + (_u or '')] = (_p, _u)
assert len(TAILS) == 39
SUBCOMMANDS = ['snapshot', 'restore', 'upload-objects', 'download-objects']
SITES = {'snapshot': 'snapshot', 'restore': 'restore', 'upload-objects': 'upload_objects', 'download-objects': 'download_objects'}
PIECE_VARS = {'snapshot': 'upload_chunk_size', 'restore': 'download_chunk_size', 'upload_objects': 'upload_chunk_size',
              'download_objects': 'download_chunk_size'}


def cps(s):
    return [ord(c) for c in s]


def model_cps(s):
    """what the driver gets: a lone surrogate (Lean's Char cannot hold one) becomes NUL — both are 'any other character'"""
    return [0 if 0xD800 <= ord(c) < 0xE000 else ord(c) for c in s]


def from_cps(x):
    return ''.join(chr(c) for c in x)


# ------------------------------------------------------------------ independent reference (no `re`, no `Decimal`)
def ref_parse(s):
    n = len(s)

    def digits(i):
        vals = []
        while i < n:
            d = unicodedata.decimal(s[i], None)
            if d is None:
                break
            vals.append(d)
            i += 1
        return vals, i

    ip, i = digits(0)
    fp = None
    if i < n and s[i] == '.':
        fp, i = digits(i + 1)
        if not fp:
            return None
    elif not ip:
        return None
    ws = 0
    while i < n and s[i].isspace():
        i += 1
        ws += 1
    if s[i:] not in TAILS:
        return None
    p, u = TAILS[s[i:]]
    return {'ip': ip, 'fp': fp, 'ws': ws, 'prefix': p, 'unit': u}


def ref_value(g):
    ds = g['ip'] + (g['fp'] or [])
    coeff = int(''.join(map(str, ds)) or '0')
    v = Fr(coeff, 10 ** len(g['fp'] or []))
    if g['prefix'] is not None:
        v *= DOC_PREFIX[g['prefix']]
    if g['unit'] is not None:
        v *= DOC_UNIT[g['unit']]
    guard = (g['prefix'] is None and g['unit'] is None) or \
        coeff * DOC_PREFIX.get(g['prefix'], 1) * (125 if g['unit'] == 'b' else 1) < 10 ** 28
    return v, v.numerator // v.denominator, guard


# ------------------------------------------------------------------ the real code
class Real:
    def __init__(self):
        from replicat import utils
        from replicat.utils import cli
        self.utils, self.cli = utils, cli
        backend_type, _ = utils.load_backend('local', '.')
        self.parser = cli.make_main_parser(cli.initial_parser, cli.common_options_parser, cli.parser_for_backend(backend_type), defaults={})

    def direct(self, s):
        """-> (result, groups): result = ('ok', n) | ('reject', 'noMatch' | 'notNatural') | ('exc', name)"""
        m = re.fullmatch(self.utils.HUMAN_SIZE_REGEX, s)
        groups = None
        if m is not None:
            gd = m.groupdict()
            val = gd['value']
            a, dot, b = val.partition('.')
            groups = {'ip': [unicodedata.decimal(c) for c in a], 'fp': [unicodedata.decimal(c) for c in b] if dot else None,
                      'ws': len(s) - len(val) - len(gd['prefix'] or '') - len(gd['unit'] or ''), 'prefix': gd['prefix'], 'unit': gd['unit']}
        try:
            h = ('value', self.utils.human_to_bytes(s))
        except ValueError:
            h = ('noMatch',)
        except Exception as e:  # noqa: BLE001
            h = ('exc', type(e).__name__)
        try:
            n = self.cli._rate_limit(s)
            r = ('ok', n)
        except ValueError:
            r = ('reject', 'noMatch' if h[0] == 'noMatch' else 'notNatural')
        except Exception as e:  # noqa: BLE001
            r = ('exc', type(e).__name__)
        return r, groups, h

    def argparse(self, s, cmd, form):
        """the real parser of the sub-command; -> ('ok', rate_limit) | ('exit', code)"""
        opt = {'eq': ['--limit-rate=' + s], 'sep': ['-L', s], 'attached': ['-L' + s], 'long-sep': ['--limit-rate', s]}[form]
        argv = [cmd, *opt] + (['p'] if cmd in ('snapshot', 'upload-objects') else [])
        err = io.StringIO()
        try:
            with contextlib.redirect_stderr(err):
                ns, unknown = self.parser.parse_known_args(argv)
        except SystemExit as e:
            return ('exit', e.code)
        except Exception as e:  # noqa: BLE001
            return ('exc', type(e).__name__)
        if unknown:
            return ('exit', 2)     # main() calls parser.error on unknown arguments
        return ('ok', getattr(ns, 'rate_limit', None))


def run_main(argv, env, cdir, config_text=None):
    """REAL `replicat.__main__.main()` in a fresh process, handler replaced by a recorder (c19_child.py)"""
    cdir.mkdir(parents=True, exist_ok=True)
    xdg = cdir / 'xdg'
    (xdg / 'replicat').mkdir(parents=True, exist_ok=True)
    if config_text is not None:
        (xdg / 'replicat' / 'replicat.toml').write_text(config_text, encoding='utf-8')
    spec = {'repo': str(REPO), 'paths': [str(PYMOD)], 'argv': argv, 'cwd': str(cdir)}
    (cdir / 'case.json').write_text(json.dumps(spec))
    envx = {'PATH': os.environ.get('PATH', '/usr/bin:/bin'), 'LANG': 'C.UTF-8', 'LC_ALL': 'C.UTF-8',
            'REPLICAT_VERIF_GCL_SO': os.environ.get('REPLICAT_VERIF_GCL_SO', str(WORK / 'native' / 'libgcl.so')),
            'HOME': str(cdir / 'home'), 'XDG_CONFIG_HOME': str(xdg), 'XDG_CACHE_HOME': str(cdir / 'xdgcache')}
    envx.update(env)
    try:
        p = subprocess.run([PY, str(CHILD), str(cdir / 'case.json')], capture_output=True, env=envx, timeout=120)
    except subprocess.TimeoutExpired:
        return {'outcome': 'timeout'}
    res = None
    for line in p.stdout.decode('utf-8', 'replace').splitlines():
        if line.startswith('C19RESULT '):
            res = json.loads(line[len('C19RESULT '):])
    if res is None:
        res = {'outcome': 'crash', 'rc': p.returncode}
    res['stderr'] = p.stderr.decode('utf-8', 'replace')[-1500:]
    return res


# ------------------------------------------------------------------ generators
ASCII_WS = [' ', '\t', '\n', '\r', '\x0b', '\x0c']
JUNK = list('!#$%&*/:;<=>?@[]^_`{|}~"\'\\eExXnNaAfFtT,')


def digit_blocks():
    zeros = [i for i in range(0x110000) if not 0xD800 <= i < 0xE000 and unicodedata.decimal(chr(i), None) == 0]
    return zeros


def all_spaces():
    return [chr(i) for i in range(0x110000) if not 0xD800 <= i < 0xE000 and chr(i).isspace()]


def spell_digits(r, ds, zeros=None):
    if zeros is None:
        return ''.join(str(d) for d in ds)
    return ''.join(chr(r.choice(zeros) + d) for d in ds)


def dec_str(fr_value, min_frac=0):
    """finite decimal expansion of a Fraction whose denominator is 2^a·5^b"""
    num, den = fr_value.numerator, fr_value.denominator
    k = 0
    while (10 ** k) % den:
        k += 1
        if k > 80:
            raise ValueError('not a finite decimal')
    k = max(k, min_frac)
    scaled = num * 10 ** k // den
    s = str(scaled).rjust(k + 1, '0')
    return (s[:-k] + '.' + s[-k:]) if k else s


def gen_valid(r, quick):
    """[(class, string)] — every prefix × unit × digit shapes × white space"""
    out = []
    shapes = ['7', '0', '007', '1234', '10', '1.5', '.5', '0.125', '1.50', '000.001', '12.', None, None]
    for p in [None, *DOC_PREFIX]:
        for u in [None, *DOC_UNIT]:
            tail = (p or '') + (u or '')
            for sh in shapes:
                if sh is None:
                    a = ''.join(str(r.randrange(10)) for _ in range(r.choice([0, 1, 2, 5, 9])))
                    b = ''.join(str(r.randrange(10)) for _ in range(r.choice([1, 2, 3, 7])))
                    sh = r.choice([a + '.' + b, (a or '3'), '.' + b])
                ws = r.choice(['', '', ' ', '  ', '\t', ' \t ', '\n', r.choice(ASCII_WS) * r.choice([1, 2, 3])])
                out.append(('valid-shape' if not sh.endswith('.') else 'malformed:trailing-dot', sh + ws + tail))
            # boundary around one byte per second: the mantissa that gives exactly 1, one ulp below, one ulp above
            mult = Fr(DOC_PREFIX.get(p, 1)) * DOC_UNIT.get(u, Fr(1))
            one = Fr(1) / mult
            for extra in (0, 3):
                d = dec_str(one, min_frac=extra)
                k = len(d.partition('.')[2])
                ulp = Fr(1, 10 ** (k + 1))
                for v in (one, one - ulp, one + ulp, one * 2 - ulp, one * 1000):
                    ws = r.choice(['', ' '])
                    out.append(('boundary-one-byte', dec_str(v, min_frac=r.choice([0, 0, 2])) + ws + tail))
    return out


def gen_long(r, n):
    """long mantissas up to and beyond the 28-digit guard, incl. ties and carries of ROUND_HALF_EVEN"""
    out = []
    tails = list(TAILS)
    crafted = []
    for nd in (27, 28, 29, 30, 31, 40):
        crafted += ['9' * nd, '1' + '0' * (nd - 2) + '5', '1' + '0' * (nd - 2) + '15', '1' + '0' * (nd - 2) + '25', '4' * nd, '5' + '0' * (nd - 1),
                    '0.' + '9' * nd, '0.' + '0' * 5 + '9' * nd, '1.' + '0' * (nd - 2) + '9', '12345678901234567890123456789'[:nd % 29 or 29]]
    for c in crafted:
        for t in ('', 'B', 'b', 'k', 'Ki', 'kB', 'Kib', 'Gi', 'Gib'):
            out.append(('long-crafted', c + t))
    n += len(out)
    while len(out) < n:
        total = r.choice([20, 24, 26, 27, 28, 29, 30, 31, 33, 40, 60])
        ds = [r.randrange(10) for _ in range(total)]
        if r.random() < 0.5:
            ds[0] = r.randrange(1, 10)
        kind = r.choice(['int', 'frac', 'small'])
        if kind == 'int':
            m = ''.join(map(str, ds))
        elif kind == 'frac':
            cut = r.randrange(0, total)
            m = ''.join(map(str, ds[:cut])) + '.' + ''.join(map(str, ds[cut:]))
        else:
            m = '0.' + '0' * r.choice([0, 1, 3, 8]) + ''.join(map(str, ds))
        if r.random() < 0.3:
            # force a tie / carry in the dropped digits
            m = m[:-3] + r.choice(['500', '499', '501', '999', '000'])
        out.append(('long-random', m + r.choice(['', ' ']) + r.choice(tails)))
    return out


def gen_unicode(r, zeros, spaces, n):
    out = []
    # every digit block once (all ten digits), every white-space character once
    for z in zeros:
        out.append(('unicode-digit-block', ''.join(chr(z + d) for d in (1, 0, 2, 3, 4, 5, 6, 7, 8, 9)) + r.choice(['', 'k', 'b', 'KiB'])))
        out.append(('unicode-digit-block', chr(z + r.randrange(10)) + '.' + chr(z + r.randrange(10)) + chr(r.choice(zeros) + 5) + r.choice(list(TAILS))))
    for sp in spaces:
        out.append(('unicode-space', '1' + sp + 'k'))
        out.append(('unicode-space', '2.5' + sp + r.choice(spaces) + r.choice(list(TAILS))))
    while len(out) < n:
        a = [r.randrange(10) for _ in range(r.choice([0, 1, 2, 4]))]
        b = [r.randrange(10) for _ in range(r.choice([1, 2, 3]))]
        m = r.choice([spell_digits(r, a or [4], zeros), spell_digits(r, a, zeros) + '.' + spell_digits(r, b, zeros)])
        ws = ''.join(r.choice(spaces) for _ in range(r.choice([0, 1, 2, 3])))
        out.append(('unicode-mixed', m + ws + r.choice(list(TAILS))))
    return out


def gen_malformed(r, zeros, spaces, n):
    fixed = [
        ('empty', ''), ('empty', ' '), ('empty', 'k'), ('empty', 'B'), ('empty', 'kB'), ('empty', '.'), ('empty', '.k'), ('empty', ' 1'),
        ('sign', '+1'), ('sign', '-1'), ('sign', '-1k'), ('sign', '+1.5Mi'), ('sign', '−1'), ('sign', '1-'), ('sign', '--1'), ('sign', '--'), ('sign', '-0'), ('sign', '-.5'),
        ('exponent', '1e3'), ('exponent', '1E3'), ('exponent', '1e-3'), ('exponent', '1.5e3k'), ('exponent', '1e'), ('exponent', '1E+2B'),
        ('two-dots', '1..5'), ('two-dots', '1.2.3'), ('two-dots', '..5'), ('two-dots', '1.5.'), ('two-dots', '1.k'), ('two-dots', '1.'), ('two-dots', '1 .5'), ('two-dots', '1. 5'),
        ('unknown-prefix', '1T'), ('unknown-prefix', '1Ti'), ('unknown-prefix', '1kk'), ('unknown-prefix', '1Kii'), ('unknown-prefix', '1iK'), ('unknown-prefix', '1i'),
        ('unknown-prefix', '1KI'), ('unknown-prefix', '1kI'), ('unknown-prefix', '1MI'), ('unknown-prefix', '1mB i'), ('unknown-prefix', '1P'), ('unknown-prefix', '1Gig'),
        ('unknown-prefix', '1KB i'), ('unknown-prefix', '1 K i'), ('unknown-prefix', '1Ｋ'), ('unknown-prefix', '1K'), ('unknown-prefix', '1µ'),
        ('order', '1Bk'), ('order', '1bK'), ('order', 'k1'), ('order', 'B1'), ('order', '1BB'), ('order', '1bb'), ('order', '1Bb'), ('order', '1kBk'), ('order', '1k1'),
        ('trailing-junk', '1k!'), ('trailing-junk', '1kB/s'), ('trailing-junk', '1kbps'), ('trailing-junk', '1k '), ('trailing-junk', '1 '), ('trailing-junk', '1B\n'),
        ('trailing-junk', '1k\x00'), ('trailing-junk', '1\x00'), ('trailing-junk', '1kB '), ('trailing-junk', '10M.'), ('trailing-junk', '1k,'),
        ('inner-space', '1 000'), ('inner-space', '1k B'), ('inner-space', '1 k B'), ('inner-space', '1K iB'), ('inner-space', '1​k'), ('inner-space', '1﻿k'),
        ('other-number', '1,5k'), ('other-number', '1_000'), ('other-number', '0x10'), ('other-number', 'inf'), ('other-number', 'Infinity'), ('other-number', 'NaN'),
        ('other-number', 'nan'), ('other-number', '1/2'), ('other-number', '½'), ('other-number', '²'), ('other-number', '1²'), ('other-number', '①'), ('other-number', 'Ⅷ'),
        ('other-number', '一'), ('other-number', '1%'), ('other-number', '1.5.5'), ('other-number', '1e'), ('other-number', '٫5'), ('other-number', '1٫5'), ('other-number', '1٬000'),
        ('surrogate', '1\udc80'), ('surrogate', '\udcff1'), ('surrogate', '1\ud800k'), ('surrogate', '1k\udfff'),
        ('zero', '0'), ('zero', '0.0'), ('zero', '0k'), ('zero', '0.999'), ('zero', '0Gi'), ('zero', '.0'), ('zero', '000'), ('zero', '7b'), ('zero', '0.0009k'),
    ]
    out = [('malformed:' + c if c != 'zero' else 'below-one', s) for c, s in fixed]
    valid_seeds = ['1k', '1.5Mi', '10MB', '8b', '3 KiB', '.5g', '12', '1\tGib']
    while len(out) < n:
        s = r.choice(valid_seeds)
        op = r.choice(['insert-junk', 'append-junk', 'prepend', 'dup-char', 'swapcase', 'drop', 'unicode-letter'])
        i = r.randrange(len(s) + 1)
        if op == 'insert-junk':
            s = s[:i] + r.choice(JUNK) + s[i:]
        elif op == 'append-junk':
            s = s + r.choice(JUNK + [' ', 'i', 'k', 'B', '.'])
        elif op == 'prepend':
            s = r.choice(['+', '-', ' ', '\t', 'k', 'B', "'", '=']) + s
        elif op == 'dup-char' and s:
            j = r.randrange(len(s))
            s = s[:j] + s[j] + s[j:]
        elif op == 'swapcase':
            s = s.swapcase()
        elif op == 'drop' and s:
            j = r.randrange(len(s))
            s = s[:j] + s[j + 1:]
        else:
            s = s + r.choice(['Ｋ', 'ｋ', 'Ｂ', 'К', 'к', 'Μ', 'і', 'ⅰ', 'ᴷ'])
        out.append(('mutated', s))
    return out


def gen_fuzz(r, zeros, n):
    alpha = list('0123456789') * 2 + list('...  kKmMgGiiBb') + ['\t', chr(zeros[1] + 3), chr(zeros[-1] + 7), 'x', '-', 'e', '\xa0']
    out = []
    for _ in range(n):
        out.append(('fuzz', ''.join(r.choice(alpha) for _ in range(r.choice([0, 1, 2, 3, 3, 4, 4, 5, 6, 8])))))
    return out


# ------------------------------------------------------------------ comparison of one literal
def model_result(m):
    res = m.get('result', {})
    if 'ok' in res:
        return ('ok', int(res['ok']))
    if 'reject' in res:
        return ('reject', res['reject'])
    return ('error', m.get('error'))


def model_groups(m):
    if not m.get('match'):
        return None
    g = m['lit']
    return {'ip': g['ip'], 'fp': g['fp'], 'ws': g['ws'], 'prefix': g['prefix'], 'unit': g['unit']}


def oracle_one(s, res):
    """the property's statement on the real result of one literal; -> [(sig, what)], observation-or-None"""
    bad, obs = [], None
    ref = ref_parse(s)
    shown = ascii(s)
    if res[0] == 'exc':
        bad.append(('sizelit:unexpected-exception:' + res[1], f'_rate_limit({shown}) raised {res[1]} (argparse only turns ValueError/TypeError into a usage error)'))
        return bad, obs
    if res[0] == 'ok':
        n = res[1]
        if type(n) is not int or n < 1:
            bad.append(('sizelit:limit-below-one', f'_rate_limit({shown}) returned {n!r}: a limit below 1 byte/s reaches RateLimitedIO'))
        if ref is None:
            bad.append(('sizelit:accepts-malformed', f'_rate_limit({shown}) = {n!r} although the text is not <number>[white space][prefix][unit]'))
            return bad, obs
        v, fl, guard = ref_value(ref)
        if n != fl:
            if guard:
                bad.append(('sizelit:value-not-floor', f'_rate_limit({shown}) = {n}, the exact value is {v} (floor {fl})'))
            else:
                obs = {'literal': s, 'accepted_as': n, 'exact_floor': fl, 'accepted_although_below_one': fl < 1}
    else:
        if ref is not None:
            v, fl, guard = ref_value(ref)
            if fl >= 1 and guard:
                bad.append(('sizelit:rejects-valid', f'_rate_limit({shown}) is rejected although it spells {v} >= 1 byte/s'))
            elif fl >= 1:
                obs = {'literal': s, 'rejected': True, 'exact_floor': fl}
            if res[1] == 'noMatch':
                bad.append(('sizelit:rejects-wellformed', f'human_to_bytes({shown}) does not match although the text is <number>[white space][prefix][unit]'))
        elif res[1] != 'noMatch':
            bad.append(('sizelit:accepts-malformed', f'human_to_bytes({shown}) matched although the text is not <number>[white space][prefix][unit]'))
    return bad, obs


def rep_of(s, **kw):
    return dict({'kind': 'sizelit', 'cps': cps(s), 'literal_ascii': ascii(s)}, **kw)


# ------------------------------------------------------------------ piece sizes
def site_expressions():
    """the piece-size expression of each call site, cut out of the REAL function's source, as a callable"""
    from replicat.repository import Repository
    out = {}
    for fn, var in PIECE_VARS.items():
        src = textwrap.dedent(inspect.getsource(getattr(Repository, fn)))
        tree = ast.parse(src)
        exprs = [node.value for node in ast.walk(tree) if isinstance(node, ast.Assign) and len(node.targets) == 1
                 and ast.unparse(node.targets[0]) == var and any(isinstance(x, ast.Name) and x.id == 'rate_limit' for x in ast.walk(node.value))]
        if len(exprs) != 1:
            # the variable may have been renamed / the expression moved into a helper: use the expression the extractor resolved for
            # this site (note `sizelit.piece_exprs`, the value that really reaches the backend call under `rate_limit is not None`)
            try:
                note = json.loads(json.load(open(WORK / 'extract.json'))['notes'].get('sizelit.piece_exprs', '{}'))
                exprs = [ast.parse(note[fn], mode='eval').body] if fn in note else []
            except Exception:  # noqa: BLE001
                exprs = []
        if len(exprs) != 1:
            out[fn] = None
            continue
        code = compile(ast.Expression(exprs[0]), f'<{fn}>', 'eval')

        def f(limit, conc, code=code):
            class S:
                _concurrent = conc
            return eval(code, {'max': max, 'min': min}, {'rate_limit': limit, 'self': S})   # noqa: S307
        out[fn] = (f, ast.unparse(exprs[0]))
    return out


class _PieceBackend:
    """async in-memory backend that records the chunk_size argument it is handed"""

    def __init__(self):
        self.objects = {}
        self.pieces = {'up': [], 'down': []}

    async def exists(self, name):
        return name in self.objects

    async def upload(self, name, data):
        self.objects[name] = bytes(data)

    async def upload_stream(self, name, stream, length, chunk_size):
        self.pieces['up'].append(chunk_size)
        buf = bytearray()
        while True:
            b = stream.read(chunk_size)
            if not b:
                break
            buf += b
        self.objects[name] = bytes(buf)

    async def download(self, name):
        return self.objects[name]

    async def download_stream(self, name, stream, chunk_size):
        self.pieces['down'].append(chunk_size)
        data = self.objects[name]
        stream.truncate(len(data))
        for off in range(0, len(data), chunk_size):
            stream.write(data[off:off + chunk_size])

    async def list_files(self, prefix=''):
        for k in sorted(self.objects):
            if k.startswith(prefix):
                yield k

    async def delete(self, name):
        self.objects.pop(name, None)

    async def clean(self):
        pass

    async def close(self):
        pass


def real_pieces(limit, conc, scratch):
    """REAL snapshot / restore / upload_objects / download_objects with rate_limit=limit on a virtual clock;
    -> {site: sorted set of chunk sizes the backend was handed}"""
    from replicat.repository import Repository
    from . import ratelimit_real as rr
    from . import vclock
    utils = rr.utils_module()
    clock = vclock.InlineClock(0.0)
    d = Path(scratch)
    shutil.rmtree(d, ignore_errors=True)
    (d / 'src').mkdir(parents=True)
    (d / 'src' / 'a.bin').write_bytes(bytes(range(48)))
    (d / 'src' / 'b.bin').write_bytes(b'xyz' * 5)
    (d / 'dst').mkdir()
    (d / 'dst2').mkdir()
    out = {}
    cwd = os.getcwd()
    so, se = sys.stdout, sys.stderr
    sys.stdout, sys.stderr = io.StringIO(), io.StringIO()
    try:
        with rr.patched_time(utils, clock):
            b = _PieceBackend()
            repo = Repository(b, concurrent=conc, quiet=True)
            asyncio.run(repo.init(settings={'encryption': None, 'chunking': {'min_length': 8, 'max_length': 32}}))
            b.pieces = {'up': [], 'down': []}
            asyncio.run(repo.snapshot(paths=[d / 'src'], rate_limit=limit))
            out['snapshot'] = sorted(set(b.pieces['up']))
            b.pieces = {'up': [], 'down': []}
            repo2 = Repository(b, concurrent=conc, quiet=True)
            asyncio.run(repo2.unlock())
            asyncio.run(repo2.restore(path=d / 'dst', rate_limit=limit))
            out['restore'] = sorted(set(b.pieces['down']))
            restored = {p.name: p.read_bytes() for p in (d / 'dst').rglob('*') if p.is_file()}
            out['restored_ok'] = restored.get('a.bin') == bytes(range(48)) and restored.get('b.bin') == b'xyz' * 5
            b2 = _PieceBackend()
            repo3 = Repository(b2, concurrent=conc, quiet=True)
            os.chdir(d / 'src')
            asyncio.run(repo3.upload_objects([d / 'src'], rate_limit=limit))
            out['upload_objects'] = sorted(set(b2.pieces['up']))
            asyncio.run(repo3.download_objects(path=d / 'dst2', rate_limit=limit))
            out['download_objects'] = sorted(set(b2.pieces['down']))
    finally:
        sys.stdout, sys.stderr = so, se
        os.chdir(cwd)
        shutil.rmtree(d, ignore_errors=True)
    return out


def piece_oracle(site, limit, conc, piece):
    bad = []
    if not (isinstance(piece, int) and 1 <= piece <= max(limit, 1)):
        bad.append(f'{site}(rate_limit={limit}, concurrent={conc}): piece size {piece!r} outside [1, max(limit, 1)]')
    elif piece * 16 * conc > max(limit, 16 * conc):
        bad.append(f'{site}(rate_limit={limit}, concurrent={conc}): {16 * conc} pieces of {piece} bytes exceed one second of the limit')
    return bad


# ------------------------------------------------------------------ the stream
def run_stream(out, drv, info):
    quick = out.tier == 'quick'
    changed = not info.get('proof_ok', True)
    notes = info.get('extract_notes', {}) or {}
    shape_changed = sorted(k for k in notes if k.startswith('sizelit.') and k not in ('sizelit.unicode', 'sizelit.sources'))
    if shape_changed:
        out.extra['sizelit_source_shape_changed'] = shape_changed
    boost = 3 if (changed or shape_changed) else 1
    r = rng_for(out.seed, 'C20-sizelit')
    real = Real()
    zeros, spaces = digit_blocks(), all_spaces()
    out.rule += (' | size literals: every prefix × unit × digit shapes × white space, boundary values around 1 byte/s, mantissas of 20–60 digits (ties / carries of '
                 'the 28-digit rounding), every Unicode digit block and white-space character, malformed classes (empty, signs, exponents, two dots, unknown '
                 'prefixes, order, trailing junk, inner space, other number syntaxes, surrogates), mutations of valid literals, random strings over the '
                 'grammar\'s alphabet; non-trivial = the text is well-formed; distinct = the string. Piece sizes: limits around 16·concurrent, concurrent 0–16.')
    out.assumptions += ['size literal: the exponent limits of the decimal context (Emax = 999999) are out of reach (execve limits one argument to 131072 bytes); '
                        'argparse itself (option recognition, `type=` conversion errors → exit status 2) is modelled, not verified',
                        'size literal: digits / white space are the Unicode classes of the running CPython (regenerated into Gen.decimalZeros / Gen.spaceChars)']

    # ---- the model sees the source's tables and this interpreter's character classes
    if drv is not None:
        t = drv.ask({'op': 'rate.parse.tables'})
        import decimal
        real_pref = [[k, str(v)] for k, v in real.utils.PREFIXES_TABLE.items()]
        real_units = []
        for k, v in real.utils.UNITS_TABLE.items():
            fv = Fr(v)
            sc = 0
            while (fv * 10 ** sc).denominator != 1:
                sc += 1
            real_units.append([k, int(fv * 10 ** sc) if not isinstance(v, int) else v, sc if not isinstance(v, int) else 0])
        diffs = []
        if t.get('prefixes') != real_pref:
            diffs.append('PREFIXES_TABLE')
        if [[k, Fr(c, 10 ** s)] for k, c, s in t.get('units', [])] != [[k, Fr(c, 10 ** s)] for k, c, s in real_units]:
            diffs.append('UNITS_TABLE')
        if t.get('prec') != decimal.getcontext().prec or decimal.getcontext().rounding != decimal.ROUND_HALF_EVEN:
            diffs.append('decimal context')
        if t.get('zeros') != zeros or t.get('spaces') != [ord(c) for c in spaces]:
            diffs.append('character classes (\\d, \\s)')
        if diffs:
            out.disagreement('size literal: the model\'s tables differ from the running code: ' + ', '.join(diffs), {'kind': 'sizelit-tables', 'model': {k: t.get(k) for k in ('prefixes', 'units', 'prec')}})
        else:
            out.traces_validated += 1
        out.extra['sizelit_model_tables'] = {'prefixes': t.get('prefixes'), 'units': t.get('units'), 'prec': t.get('prec'), 'digit_blocks': len(t.get('zeros', [])),
                                             'space_chars': len(t.get('spaces', [])), 'limit_from_file': t.get('fromFile'), 'limit_from_env': t.get('fromEnv'),
                                             'regex_as_expected': t.get('regexAsExpected'), 'unicode': unicodedata.unidata_version}

    # ---- literals
    lits = []
    lits += gen_valid(r, quick)
    lits += gen_long(r, (400 if quick else 20000) * boost)
    lits += gen_unicode(r, zeros, spaces, (450 if quick else 6000))
    lits += gen_malformed(r, zeros, spaces, (500 if quick else 12000) * boost)
    lits += gen_fuzz(r, zeros, (1500 if quick else 80000) * boost)
    # the Lean witness of `size_literal_guard_needed`
    witness = '0.' + '9' * 31
    lits += [('witness', witness + 'B'), ('witness', witness)]
    seen = set()
    uniq = []
    for c, s in lits:
        if s not in seen:
            seen.add(s)
            uniq.append((c, s))
    lits = uniq
    models = drv.ask_many([{'op': 'rate.parse', 'cps': model_cps(s)} for _c, s in lits]) if drv is not None else [None] * len(lits)
    beyond = []
    in_guard_accepted = []     # (exact value, accepted) for the monotonicity oracle
    forms = ['eq', 'sep', 'attached', 'long-sep']
    for k, ((cls, s), m) in enumerate(zip(lits, models)):
        res, groups, h = real.direct(s)
        ref = ref_parse(s)
        out.case({'kind': 'sizelit', 'literal': ascii(s)}, ref is not None)
        out.count('lit:' + cls.split(':')[0])
        out.count('lit_outcome:' + (res[0] if res[0] != 'reject' else 'reject:' + res[1]))
        if ref is not None:
            out.count('lit_prefix:' + str(ref['prefix']))
            out.count('lit_unit:' + str(ref['unit']))
            v, fl, guard = ref_value(ref)
            nd = len(str(int(''.join(map(str, ref['ip'] + (ref['fp'] or []))) or '0')))
            out.count('lit_sigdigits:' + ('1-9' if nd < 10 else '10-27' if nd < 28 else '28-31' if nd < 32 else '32+'))
            if not guard:
                out.count('lit_beyond_guard')
            if guard and res[0] == 'ok':
                in_guard_accepted.append((v, res[1], s))
            if any(ord(c) > 127 for c in s):
                out.count('lit_non_ascii_wellformed')
        bad, obs = oracle_one(s, res)
        for sig, what in bad:
            out.violation(sig, what, rep_of(s))
        if obs is not None:
            beyond.append(obs)
        # the same literal through the real argparse path
        cmd = SUBCOMMANDS[k % 4]
        todo = [(cmd, forms[(k // 4) % 4])]
        if k % 16 == 0:
            todo = [(c, f) for c in SUBCOMMANDS for f in ('eq', 'sep')]
        for c, f in todo:
            if f == 'attached' and s.startswith('='):
                continue
            a = real.argparse(s, c, f)
            out.evaluations += 1
            if s == '--' and f in ('eq', 'attached'):
                continue     # consumed by argparse itself, see `sizelit_argparse_double_dash` below
            want = ('ok', res[1]) if res[0] == 'ok' else ('exit', 2)
            if res[0] != 'exc' and a != want:
                out.violation('sizelit:cli-path-differs', f'{c} {f}-form of {ascii(s)}: the parser gives {a}, _rate_limit gives {res}', rep_of(s, cmd=c, form=f))
            if m is not None:
                mc = m.get('command', {})
                mwant = ('ok', int(mc['limit'])) if mc.get('limit') is not None else ('exit', mc.get('exit'))
                if a != mwant:
                    out.disagreement(f'size literal {ascii(s)} through `{c}` ({f}): parser {a}, model {mwant}', rep_of(s, cmd=c, form=f))
        # model vs implementation
        if m is not None:
            mr = model_result(m)
            mg = model_groups(m)
            if res[0] == 'exc' or mr != res or mg != groups:
                out.disagreement(f'size literal {ascii(s)}: implementation {res} groups {groups}, model {mr} groups {mg}', rep_of(s))
            else:
                out.traces_validated += 1
            if m.get('match') and ref is not None:
                # the model's exact value / guard agree with the independent Fraction
                v, fl, guard = ref_value(ref)
                if Fr(int(m['value'][0]), int(m['value'][1])) != v or int(m['bytes']) != fl or m['guard'] != guard:
                    out.disagreement(f'size literal {ascii(s)}: exact value / floor / guard of the model ({m["value"]}, {m["bytes"]}, {m["guard"]}) differ from the '
                                     f'reference ({v}, {fl}, {guard})', rep_of(s))
    # CPython's argparse (observed with 3.12.1) strips a lone `--` from an option's argument list BEFORE the type function runs:
    # `--limit-rate=--` / `-L--` never reach `_rate_limit` and yield rate_limit = [] (the command then dies with a TypeError).
    # argparse is outside the model (trusted base): recorded as an observation, not compared.
    out.extra['sizelit_argparse_double_dash'] = {
        'argv': ['snapshot', '--limit-rate=--', 'p'], 'parser_result': list(real.argparse('--', 'snapshot', 'eq')),
        'attached_form': list(real.argparse('--', 'restore', 'attached')), 'separate_form': list(real.argparse('--', 'restore', 'sep')),
        'note': 'the literal `--` is consumed by argparse itself; _rate_limit is never called (it would reject it: ' + str(real.direct('--')[0]) + ')'}
    # monotone on the real results
    in_guard_accepted.sort(key=lambda t: t[0])
    for (v1, n1, s1), (v2, n2, s2) in zip(in_guard_accepted, in_guard_accepted[1:]):
        if n1 > n2:
            out.violation('sizelit:not-monotone', f'{ascii(s1)} = {v1} gives {n1} but {ascii(s2)} = {v2} gives {n2}', rep_of(s1, other=cps(s2)))
            break
    out.extra['sizelit_beyond_guard'] = {
        'what': 'literals whose coefficient·prefix·unit needs more than 28 digits: Decimal rounds at each multiplication, so the accepted value is not the exact '
                'floor (outside the hypothesis of C20.size_literal_value; the model bytesDec follows the rounding and agreed with the code on every such literal)',
        'count': len(beyond), 'accepted_although_below_one_byte': sum(1 for o in beyond if o.get('accepted_although_below_one')),
        'samples': [dict(o, literal=ascii(o['literal'])) for o in beyond[:4]]}
    # the Lean witness on the real code
    w1, _, _ = real.direct(witness + 'B')
    w2, _, _ = real.direct(witness)
    out.extra['sizelit_guard_witness'] = {'literal': witness + 'B', 'real': list(w1), 'without_unit': list(w2),
                                          'lean': 'C20.size_literal_guard_needed: bytes = 0, bytesDec = 1, rateLimit = ok 1; without the B: notNatural'}
    if (w1, w2) != (('ok', 1), ('reject', 'notNatural')):
        out.disagreement(f'the witness of C20.size_literal_guard_needed behaves differently on the real code: {w1}, {w2}', rep_of(witness + 'B'))

    # ---- canonical renderings of literals (the round-trip theorem's `render`)
    if drv is not None:
        reqs = []
        for _ in range(300 if quick else 5000):
            ip = [r.randrange(10) for _ in range(r.choice([0, 1, 1, 2, 3, 6]))]
            fp = [r.randrange(10) for _ in range(r.choice([1, 2, 4]))] if (not ip or r.random() < 0.5) else None
            reqs.append({'op': 'rate.parse.render', 'lit': {'ip': ip, 'fp': fp, 'ws': r.choice([0, 0, 1, 2, 5]), 'prefix': r.choice([None, *DOC_PREFIX]),
                                                         'unit': r.choice([None, *DOC_UNIT])}})
        for q, a in zip(reqs, drv.ask_many(reqs)):
            out.evaluations += 1
            if 'cps' not in a:
                out.disagreement(f'rate.parse.render failed: {a}', {'kind': 'sizelit-render', 'req': q})
                continue
            s = from_cps(a['cps'])
            res, groups, _h = real.direct(s)
            if groups != q['lit'] or not a.get('reparsed') or model_result(a) != res:
                out.disagreement(f'canonical rendering {ascii(s)} of {q["lit"]}: the implementation reads {groups} → {res}, the model {model_result(a)}',
                                 {'kind': 'sizelit-render', 'req': q})
            else:
                out.traces_validated += 1
            out.count('render_roundtrip')

    # ---- the whole option pipeline (real main() in a fresh process): command line, configuration file, environment
    accepted = [s for (v, n, s) in in_guard_accepted if all(31 < ord(c) < 127 for c in s) and not s.startswith('-') and n < 2 ** 53]
    scratch = WORK / str(os.getpid()) / 'sizelit'
    try:
        picks = [r.choice(accepted) for _ in range(2 if quick else 6)] if accepted else []
        plans = []
        for i, lit in enumerate(picks):
            cmd = SUBCOMMANDS[(out.seed + i) % 4]
            pos = ['p'] if cmd in ('snapshot', 'upload-objects') else []
            plans.append(('cli', lit, [cmd, '-L', lit, *pos], {}, None))
        lit = picks[0] if picks else '1k'
        plans += [
            ('config-file', lit, ['snapshot', 'p'], {}, f'limit-rate = "{lit}"\nrate-limit = "{lit}"\nrate_limit = "{lit}"\n'),
            ('environment', lit, ['restore'], {'REPLICAT_LIMIT_RATE': lit, 'REPLICAT_RATE_LIMIT': lit, 'LIMIT_RATE': lit, 'RATE_LIMIT': lit}, None),
            ('cli+config', lit, ['upload-objects', '--limit-rate=' + lit, 'p'], {'REPLICAT_RATE_LIMIT': '7'}, 'limit-rate = "3"\n'),
            ('cli-invalid', '1.', ['download-objects', '-L', '1.'], {}, None),
            ('cli-zero', '0.5', ['snapshot', '-L', '0.5', 'p'], {}, None),
        ]
        for i, (how, lit, argv, env, cfg) in enumerate(plans):
            res = run_main(argv, env, scratch / f'm{i}', cfg)
            out.evaluations += 1
            out.count('main:' + how)
            got = None
            if res.get('outcome') == 'ok':
                rl = res['handler']['args'].get('rate_limit', {'t': 'absent'})
                got = ('limit', rl.get('v') if rl.get('t') == 'int' else None if rl.get('t') == 'none' else rl)
            elif res.get('outcome') == 'exit':
                got = ('exit', res.get('exit_code'))
            else:
                got = (res.get('outcome'), res.get('exc') or res.get('rc'))
            want_real = real.direct(lit)[0]
            rp = {'kind': 'sizelit-main', 'how': how, 'literal': lit, 'argv': argv, 'env': env, 'config': cfg}
            if how in ('cli', 'cli+config', 'cli-invalid', 'cli-zero'):
                want = ('limit', want_real[1]) if want_real[0] == 'ok' else ('exit', 2)
                if got != want:
                    out.violation('sizelit:cli-path-differs', f'main() with {argv}: the handler saw {got}, _rate_limit({lit!r}) gives {want_real}', rp)
                if drv is not None:
                    mc = drv.ask({'op': 'rate.parse', 'cps': cps(lit)}).get('command', {})
                    mwant = ('limit', int(mc['limit'])) if mc.get('limit') is not None else ('exit', mc.get('exit'))
                    if got != mwant:
                        out.disagreement(f'main() with {argv}: handler {got}, model {mwant}', rp)
                    else:
                        out.traces_validated += 1
            else:
                # the model: only the command line supplies the limit (Gen.rateLimitFromFile / FromEnv = false)
                mwant = ('limit', drv.ask({'op': 'rate.parse.absent'}).get('limit')) if drv is not None else ('limit', None)
                if got != mwant:
                    out.disagreement(f'main() with the limit written in the {how} only ({cfg or env}): handler {got}, model {mwant}', rp)
                else:
                    out.traces_validated += 1
                if how == 'config-file':
                    out.extra['sizelit_config_file_key'] = {'config': cfg, 'handler_rate_limit': got[1],
                                                            'warned_unrecognized': 'unrecognized options' in res.get('stderr', '')}

        # ---- piece sizes: the expression of the four call sites (cut out of the source) and the real commands
        exprs = site_expressions()
        limits = sorted(set(list(range(0, 40)) + [47, 48, 49, 79, 80, 81, 159, 160, 161, 255, 256, 257, 1000, 4095, 4096, 65537, 10 ** 6, 10 ** 9, 2 ** 63, 10 ** 30]
                            + [r.randrange(1, 10 ** 7) for _ in range(40 * boost)]))
        concs = [0, 1, 2, 3, 5, 16]
        reqs = [{'op': 'rate.parse.piece', 'site': site, 'limit': L, 'concurrent': c} for site in PIECE_VARS for L in limits for c in concs]
        answers = drv.ask_many(reqs) if drv is not None else [None] * len(reqs)
        for q, a in zip(reqs, answers):
            out.evaluations += 1
            fx = exprs.get(q['site'])
            if fx is None:
                out.disagreement(f'piece size: no single assignment from rate_limit found in Repository.{q["site"]}', {'kind': 'sizelit-piece', 'req': q})
                break
            try:
                rv = ('piece', fx[0](q['limit'], q['concurrent']))
            except ZeroDivisionError:
                rv = ('raises', 'ZeroDivisionError')
            except Exception as e:  # noqa: BLE001
                rv = ('raises', type(e).__name__)
            if rv[0] == 'piece' and q['concurrent'] >= 1:
                for what in piece_oracle(q['site'], q['limit'], q['concurrent'], rv[1]):
                    out.violation('sizelit:piece-bounds', what + f' (expression in the source: {fx[1]})', {'kind': 'sizelit-piece', 'req': q})
            if a is not None:
                mv = ('piece', a['piece']) if 'piece' in a else ('raises', a.get('raises')) if 'raises' in a else ('malformed', None)
                if mv != rv or ('piece' in a and a['piece'] != a.get('chunkSize') and q['concurrent'] >= 1):
                    out.disagreement(f'piece size at {q["site"]} (rate_limit={q["limit"]}, concurrent={q["concurrent"]}): source expression gives {rv}, model {a}',
                                     {'kind': 'sizelit-piece', 'req': q})
                else:
                    out.traces_validated += 1
        out.count('piece_expr_cases', len(reqs))
        # the real commands: literal → _rate_limit → Repository.<command>(rate_limit=…) → chunk_size at the backend
        e2e = []
        for conc in ([1, 5] if quick else [1, 2, 3, 5, 8]):
            for lit in (['1', str(16 * conc - 1), str(16 * conc), f'{32 * conc + 1}B', '1k', '1.5Ki', '8b'] if not quick
                        else [r.choice(['1', '8b', str(16 * conc - 1)]), r.choice([str(16 * conc), f'{32 * conc + 1}B', '0.25k']), r.choice(['1k', '1.5Ki', '64Kib'])]):
                e2e.append((lit, conc))
        for i, (lit, conc) in enumerate(e2e):
            res = real.direct(lit)[0]
            if res[0] != 'ok':
                continue
            L = res[1]
            rp = {'kind': 'sizelit-e2e', 'literal': lit, 'limit': L, 'concurrent': conc}
            try:
                got = real_pieces(L, conc, scratch / f'e{i}')
            except Exception as e:  # noqa: BLE001
                out.violation('sizelit:e2e:raised:' + type(e).__name__, f'a command with --limit-rate {lit} (= {L}), concurrent={conc} raised {type(e).__name__}: {e}', rp)
                continue
            out.evaluations += 1
            out.count('piece_e2e')
            if not got.get('restored_ok'):
                out.violation('sizelit:e2e:data-altered', f'snapshot/restore with --limit-rate {lit}: restored content differs', rp)
            for site in PIECE_VARS:
                seen_p = got.get(site, [])
                for p in seen_p:
                    for what in piece_oracle(site, L, conc, p):
                        out.violation('sizelit:piece-bounds', what + ' (observed at the backend)', rp)
                if drv is not None:
                    a = drv.ask({'op': 'rate.parse.piece', 'site': site, 'limit': L, 'concurrent': conc})
                    if seen_p != [a.get('piece')]:
                        out.disagreement(f'{site} with --limit-rate {lit} (= {L}), concurrent={conc}: the backend was handed chunk sizes {seen_p}, model {a}', rp)
                    else:
                        out.traces_validated += 1
    finally:
        shutil.rmtree(scratch, ignore_errors=True)
        with contextlib.suppress(OSError):
            scratch.parent.rmdir()


# ------------------------------------------------------------------ replay
def replay_case(rp, drv):
    kind = rp.get('kind')
    real = Real()
    if kind == 'sizelit':
        s = from_cps(rp['cps'])
        res, groups, h = real.direct(s)
        ref = ref_parse(s)
        print('literal:', ascii(s))
        print('real _rate_limit:', res, ' groups:', groups, ' human_to_bytes:', h)
        print('reference grammar:', ref, ' exact value / floor / inside guard:', ref_value(ref) if ref else None)
        if rp.get('cmd'):
            print('argparse', rp['cmd'], rp.get('form'), '->', real.argparse(s, rp['cmd'], rp.get('form', 'eq')))
        if drv is not None:
            m = drv.ask({'op': 'rate.parse', 'cps': model_cps(s)})
            print('model:', model_result(m), model_groups(m), {k: m.get(k) for k in ('bytes', 'bytesDec', 'guard', 'command')})
        bad, obs = oracle_one(s, res)
        for sig, what in bad:
            print('ORACLE', sig, what)
        if obs:
            print('observation (beyond the guard):', obs)
        return 1 if bad else 0
    if kind == 'sizelit-piece':
        q = rp['req']
        fx = site_expressions().get(q['site'])
        print('source expression:', fx[1] if fx else None)
        try:
            v = fx[0](q['limit'], q['concurrent'])
        except Exception as e:  # noqa: BLE001
            v = type(e).__name__
        print('value:', v, ' model:', drv.ask(q) if drv is not None else None)
        bad = piece_oracle(q['site'], q['limit'], q['concurrent'], v) if isinstance(v, int) and q['concurrent'] >= 1 else []
        for b in bad:
            print('ORACLE sizelit:piece-bounds', b)
        return 1 if bad else 0
    if kind == 'sizelit-e2e':
        scratch = WORK / str(os.getpid()) / 'sizelit-replay'
        try:
            got = real_pieces(rp['limit'], rp['concurrent'], scratch)
        finally:
            shutil.rmtree(scratch.parent, ignore_errors=True)
        print('chunk sizes handed to the backend:', got)
        bad = [b for site in PIECE_VARS for p in got.get(site, []) for b in piece_oracle(site, rp['limit'], rp['concurrent'], p)]
        for b in bad:
            print('ORACLE sizelit:piece-bounds', b)
        return 1 if bad or not got.get('restored_ok') else 0
    if kind == 'sizelit-main':
        scratch = WORK / str(os.getpid()) / 'sizelit-replay'
        try:
            res = run_main(rp['argv'], rp.get('env') or {}, scratch, rp.get('config'))
        finally:
            shutil.rmtree(scratch.parent, ignore_errors=True)
        print(json.dumps({k: res.get(k) for k in ('outcome', 'exit_code', 'exc', 'stderr')}, indent=1))
        if res.get('outcome') == 'ok':
            print('handler rate_limit:', res['handler']['args'].get('rate_limit'))
        print('_rate_limit:', real.direct(rp['literal'])[0])
        return 0
    print('replay kind not supported:', kind)
    return 2
