"""C04 — sessions: ONE long-lived `Repository` object (a service, a GUI, a script that restores several times; `runner.PERSISTENT_LOOP`)
issues a sequence of commands while the stored objects are damaged, healed and damaged again BETWEEN its commands.

The property quantifies over every state the client can be in, not only over "a fresh process per command": whatever an object
remembers from its earlier commands (verified chunks, loaded snapshot bodies, listings, uploaded chunks, a cache directory …), a
restore that returns normally must have written exactly the captured content.

Direct oracle (`w_session`, real ciphers / hashes, encrypted and unencrypted): snapshots are taken (through the long-lived object or
through fresh clients), then a generated plan of steps `(damage, command)` is executed through the one object; damage = any
operator combination `props/c04.py::gen_cases` knows (flip / truncate / extend / delete / swap / replay / pairs) applied to the
honest object map, or `keep` (the previous damage stays), or none (healed); command ∈ {restore a snapshot by name, list files of a
snapshot, list snapshots, delete another snapshot}.  Every plan contains the pattern warm-up on the intact repository → damage of
an object the warm-up used → restore.  "Returned normally with different content" is the violation.
Tie: the Lean session model (`ReplicatModel/SymSession.lean`, request `symsess.run`) runs the same plan through a client whose
state is the set of digests it accepted earlier; `Properties/C04.lean::session_restore_ok_implies_identical` says that state never
matters as long as the digest comparison dominates the write (`Gen.chunkDigestCheckDominates`, regenerated from the source).
Tagged tie (`w_tagged_session`): with the transparent tagged adapters the hash inputs of every command are recorded — every
command that returns normally must have re-hashed every chunk it wrote (the same verifications as the model, command by command).
"""
import asyncio
import os

from ..common import rng_for
from . import runner as R
from . import symhist as H
from . import tagged as T

CMD_TIMEOUT = 600      # seconds; a command through a long-lived object that never returns is reported, not waited for


def _run(coro):
    async def bounded():
        return await asyncio.wait_for(coro, CMD_TIMEOUT)
    with R.quiet() as (so, _):
        R.run(bounded())
    return so.getvalue()


def snapshot_via(w, repo, fileset, note=None):
    """`SymWorld.snapshot` through a GIVEN Repository object (the world's own method always creates a fresh client)"""
    import shutil
    for rel in list(os.listdir(w.src)):
        p = w.src / rel
        shutil.rmtree(p) if p.is_dir() else p.unlink()
    R.write_tree(w.src, {k: (v, 10 ** 18 + 977 * len(v) + 13) for k, v in fileset.items()})
    w.tick()
    before = len(w.backend.events)
    res = R.snapshot(repo, [w.src], note=note)
    snap = {'name': res.name, 'location': res.location, 'user': 0, 'files': {str(w.src / k): v for k, v in fileset.items()}, 'result': res,
            'chunks': list(getattr(repo.props.chunker, 'chunks', [])), 'events': w.backend.events[before:], 'note': note, 'repo': repo, 'view': w.last_view}
    w.snaps.append(snap)
    return snap


def command(repo, sc, cmd, name):
    """one command through `repo` → (exception | None, restored files | None, stdout)"""
    tgt = sc.dir()
    try:
        if cmd == 'restore':
            txt = _run(repo.restore(snapshot_regex=name, path=tgt))
        elif cmd == 'list-files':
            txt = _run(repo.list_files(snapshot_regex=name, header=False))
        elif cmd == 'list-snapshots':
            txt = _run(repo.list_snapshots(snapshot_regex=name, header=False))
        elif cmd == 'delete':
            txt = _run(repo.delete_snapshots([name], confirm=False))
        else:
            raise ValueError(cmd)
    except BaseException as e:  # noqa: BLE001
        if isinstance(e, (KeyboardInterrupt, SystemExit)):
            raise
        return e, None, ''
    if cmd != 'restore':
        return None, None, txt
    return None, {'/' + os.fsdecode(k): v[0] for k, v in R.read_tree(tgt).items()}, txt


def needed_locs(w, snap):
    repo = snap['repo']
    res = snap['result']
    return sorted({repo._chunk_digest_to_location(bytes(res.chunks[c['index']])) for f in res.data['files'] for c in f['chunks']})


def gen_repo(r, sc, idx):
    """like `props/c04.py::build_repo`, but 2–3 snapshots that SHARE blocks (a chunk verified while restoring one snapshot is needed
    by another) and encrypted / unencrypted in equal parts; → (world, long-lived object, cfg)"""
    from ..props.c14 import CIPHERS, HASHES
    encrypted = idx % 2 == 1
    cipher = CIPHERS[(idx // 2) % len(CIPHERS)] if encrypted else None
    hashing = HASHES[(idx // 3) % len(HASHES)]
    mn, mx = r.choice([(8, 32), (16, 64), (5, 12), (13, 50), (4, 4), (32, 96)])
    settings = R.settings_for(encrypted, cipher, hashing, {'name': 'gclmulchunker', 'min_length': mn, 'max_length': mx})
    w = T.SymWorld(sc, settings, password=b'c04-session-password')
    cache = r.random() < 0.3
    live = w.repo(0, cache_directory=sc.dir('live_cache') if cache else None)
    live_cache = live._cache_directory
    blocks = [r.randbytes(r.choice([mx, 2 * mx + 4, 3 * mx])) for _ in range(3)]
    via = []
    for k in range(r.choice([2, 2, 3])):
        tree = {}
        for nm in r.sample(['a', 'b.bin', 'sub/c', 'sub/d', 'e'], r.choice([1, 2, 3])):
            q = r.random()
            tree[nm] = b'' if q < 0.08 else b''.join(r.choice(blocks) for _ in range(r.choice([1, 2]))) + r.randbytes(r.choice([0, 3, 7]))
        if not any(tree.values()):
            tree['a'] = blocks[0]
        through_live = r.random() < 0.5
        via.append(through_live)
        if through_live:
            snapshot_via(w, live, tree)
        else:
            w.snapshot(0, tree, note=None)
    cfg = {'encrypted': encrypted, 'cipher': (cipher or {}).get('name'), 'key_bits': (cipher or {}).get('key_bits'), 'hash': hashing, 'params': [mn, mx],
           'client_cache': cache, 'snapshots_through_long_lived_object': via}
    w.live_cache = live_cache
    return w, live, cfg


def effective_store(w, current, honest):
    """what a client WITH a snapshot cache reads: a cached copy that is the object once stored under that location stands for the
    stored object as long as the location is still listed (the cache is not a repository object — C18 —, the model has none)"""
    cdir = getattr(w, 'live_cache', None)
    if cdir is None:
        return current
    eff = dict(current)
    for loc in current:
        if loc.startswith('snapshots/') and loc in honest:
            fp = os.path.join(str(cdir), loc)
            try:
                with open(fp, 'rb') as fh:
                    if fh.read() == honest[loc]:
                        eff[loc] = honest[loc]
            except OSError:
                pass
    return eff


KINDS = ('flip', 'trunc', 'extend', 'delete', 'swap', 'replay', 'pair')


def pick_damage(r, cases, prefer):
    """one operator list of `gen_cases`, kind first (so that every kind is met however many operators of it exist), preferring
    operators on the objects in `prefer`"""
    by = {}
    for ops in cases:
        if not ops:
            continue
        k = 'pair' if len(ops) > 1 else ops[0][0]
        by.setdefault(k, []).append(ops)
    kind = r.choice(sorted(by))
    pool = by[kind]
    hot = [ops for ops in pool if any(x in prefer for o in ops for x in o[1:] if isinstance(x, str))]
    if hot and r.random() < 0.8:
        pool = hot
    return [list(o) for o in r.choice(pool)]


def gen_plan(r, w, snaps, thorough):
    """→ list of steps {cmd, target, damage: ops | 'keep' | []}"""
    from ..props import c04 as P
    n = len(snaps)
    need = [set(needed_locs(w, s)) for s in snaps]
    t1 = r.randrange(n)
    # a second target sharing chunk objects with the first one when there is one (else the same snapshot again)
    sharing = [j for j in range(n) if j != t1 and need[j] & need[t1]]
    t2 = r.choice(sharing) if sharing and r.random() < 0.6 else t1
    case_cache = {}

    def cases_for(t):
        if t not in case_cache:
            case_cache[t] = P.gen_cases(r, w, snaps, t, False)
        return case_cache[t]

    aliases = {}

    def damage(t, prefer):
        cases, _, al = cases_for(t)
        aliases.update(al)
        return pick_damage(r, cases, prefer)
    plan = []
    warm = r.choice(['restore', 'restore', 'restore', 'list-files', 'list-snapshots', 'none'])
    if warm != 'none':
        plan.append({'cmd': warm, 'target': t1, 'damage': []})
    shared = (need[t1] & need[t2]) or need[t2]
    plan.append({'cmd': 'restore', 'target': t2, 'damage': damage(t2, shared | {snaps[t2]['location']} if r.random() < 0.35 else shared)})
    for _ in range(r.choice([1, 2, 3]) if not thorough else r.choice([3, 5, 8])):
        q = r.random()
        t = r.choice([t1, t2, r.randrange(n)])
        if q < 0.2 and plan[-1]['damage']:
            plan.append({'cmd': 'restore', 'target': plan[-1]['target'], 'damage': 'keep'})
        elif q < 0.4:
            plan.append({'cmd': r.choice(['restore', 'restore', 'list-files']), 'target': t, 'damage': []})
        elif q < 0.5:
            plan.append({'cmd': r.choice(['list-files', 'list-snapshots']), 'target': t, 'damage': damage(t, {snaps[t]['location']})})
        else:
            plan.append({'cmd': 'restore', 'target': t, 'damage': damage(t, need[t] | {snaps[t]['location']})})
    if n > 2 and r.random() < 0.25:
        # an honest delete of a snapshot that is not restored afterwards, then the pattern once more
        victim = r.choice([j for j in range(n) if j not in (t1, t2)] or [None])
        if victim is not None:
            plan.append({'cmd': 'delete', 'target': victim, 'damage': []})
            plan.append({'cmd': 'restore', 'target': t1, 'damage': []})
            plan.append({'cmd': 'restore', 'target': t1, 'damage': damage(t1, need[t1])})
    return plan, aliases


def _outcome(exc, files):
    from ..props import c04 as P
    if exc is not None:
        if isinstance(exc, (asyncio.TimeoutError, TimeoutError)):
            return {'class': 'error', 'error': 'other:timeout', 'exc': 'command did not return within %d s' % CMD_TIMEOUT}
        return {'class': 'error', 'error': P.err_class(exc), 'exc': repr(exc)[:120]}
    return {'class': 'ok', 'files': {p: v.hex() for p, v in (files or {}).items()}}


@H.guarded
def w_session(arg):
    seed, idx, tier = arg
    from .. import common
    from ..props import c04 as P
    import warnings
    common.use_rebuilt_chunker()
    warnings.filterwarnings('ignore', category=RuntimeWarning)
    r = rng_for(seed, 'C04-session', idx)
    out = {'idx': idx, 'steps': [], 'violations': []}
    old_loop = R.PERSISTENT_LOOP
    loop = asyncio.new_event_loop()
    R.PERSISTENT_LOOP = loop          # one loop for the whole session: the Repository object is bound to it
    try:
        with R.Scratch('c04s_%d' % idx) as sc:
            w, live, cfg = gen_repo(r, sc, idx)
            snaps = w.snaps
            ab = P.Abstraction(w, snaps)
            honest = dict(w.backend.objects)
            plan, aliases = gen_plan(r, w, snaps, tier == 'thorough')
            w.backend.objects = dict(honest)
            current = dict(honest)
            cur_ops = []
            history = []
            deleted = set()
            for k, st in enumerate(plan):
                t = st['target']
                if t in deleted and st['cmd'] != 'delete':
                    continue
                if st['damage'] != 'keep':
                    current = dict(honest)
                    cur_ops = [tuple(o) for o in st['damage']]
                    P.apply_ops(current, cur_ops, aliases)
                w.backend.objects = dict(current)
                seen = effective_store(w, current, honest)
                exc, files, txt = command(live, sc, st['cmd'], snaps[t]['name'])
                rec = {'step': k, 'cmd': st['cmd'], 'target': t, 'ops': [list(o) for o in cur_ops], 'kept': st['damage'] == 'keep'}
                if st['cmd'] == 'delete':
                    if exc is not None:
                        raise exc
                    honest = dict(w.backend.objects)
                    current = dict(honest)
                    deleted.add(t)
                    history.append(dict(rec, outcome='ok'))
                    continue
                outcome = _outcome(exc, files)
                rec['outcome'] = outcome
                rec['earlier'] = [(h['cmd'], h['target'], 'intact' if not h['ops'] else 'damaged') for h in history]
                touched = {o[1] for o in cur_ops} | {o[2] for o in cur_ops if o[0] in ('swap', 'replay')}
                need_t = set(needed_locs(w, snaps[t])) | {snaps[t]['location']}
                used_before = set()
                for h in history:
                    if h['cmd'] == 'restore' and h['outcome'] == 'ok':
                        used_before |= set(needed_locs(w, snaps[h['target']])) | {snaps[h['target']]['location']}
                    elif h['cmd'] in ('list-files', 'list-snapshots') and h['outcome'] == 'ok':
                        used_before.add(snaps[h['target']]['location'])
                for j, via in enumerate(cfg['snapshots_through_long_lived_object']):
                    if via:
                        used_before |= set(needed_locs(w, snaps[j])) | {snaps[j]['location']}
                rec['nontrivial'] = bool(touched & need_t)
                rec['stateful'] = bool(touched & need_t & used_before)      # the object has handled the damaged object before
                rec['kinds'] = sorted({o[0] for o in cur_ops})
                rec['request_step'] = {'cmd': 'restore' if st['cmd'] == 'restore' else 'list', 'target': t,
                                       'store': ab.request(seen, aliases, t)['store']}
                if st['cmd'] == 'restore' and exc is None:
                    want = dict(snaps[t]['files'])
                    sobj = seen.get(snaps[t]['location'])
                    how = (f'step {k} of a session of ONE Repository object (earlier commands: {rec["earlier"]}; client cache: {cfg["client_cache"]}; '
                           f'snapshots taken through it: {cfg["snapshots_through_long_lived_object"]})')
                    base = {'step': k, 'ops': rec['ops'], 'plan': [{'cmd': p['cmd'], 'target': p['target'], 'damage': p['damage']} for p in plan[:k + 1]]}
                    if files and files != want:
                        diff = sorted(p for p in set(files) | set(want) if files.get(p) != want.get(p))
                        out['violations'].append(('c04:silent-corruption:long-lived:' + ('enc' if w.enc else 'plain'),
                                                  f'restore of snapshot #{t} returned normally but {len(diff)} file(s) differ (e.g. {diff[0]!r}) after {rec["ops"]} — {how}', base))
                    elif not files and want and sobj == honest.get(snaps[t]['location']):
                        out['violations'].append(('c04:silent-nothing:long-lived',
                                                  f'restore of snapshot #{t} returned normally without writing anything although the snapshot object is intact, after {rec["ops"]} — {how}', base))
                history.append({'cmd': st['cmd'], 'target': t, 'ops': rec['ops'], 'outcome': outcome['class']})
                out['steps'].append(rec)
            base_req = ab.request(honest, aliases, 0)
            out['request'] = {'op': 'symsess.run', 'encrypted': w.enc, 'snaps': base_req['snaps'], 'steps': [s['request_step'] for s in out['steps']]}
            for s in out['steps']:
                del s['request_step']
            out['cfg'] = cfg
            out['contents'] = [c.hex() for c in ab.contents]
            out['paths'] = {str(k): v for k, v in ab.path_of.items()}
            with R.quiet():
                try:
                    R.run(live.close())
                except Exception:  # noqa: BLE001
                    pass
    finally:
        R.PERSISTENT_LOOP = old_loop
        try:
            loop.close()
        except Exception:  # noqa: BLE001
            pass
    return out


def compare_list(step, m):
    """listing commands: only the loading of the selected snapshot objects is modelled"""
    real = step['outcome']
    if 'load' not in m:
        return ['driver error: ' + str(m.get('error'))], None
    if isinstance(m['load'], str):
        if real['class'] != 'error':
            return [f'model predicts error {m["load"]} while loading, the listing returned normally'], 'error'
        if real['error'] != m['load']:
            return [f'model predicts error kind {m["load"]}, implementation raised {real["error"]} ({real["exc"]})'], 'error'
        return [], 'list-error:' + real['error']
    if real['class'] != 'ok':
        return [f'model predicts a listing, implementation raised {real["error"]} ({real["exc"]})'], 'ok'
    return [], 'list-ok'


# ------------------------------------------------------------------ tagged: are the verifications repeated by every command?
@H.guarded
def w_tagged_session(arg):
    seed, idx, tier = arg
    from .. import common
    from ..props import c04 as P
    import warnings
    common.use_rebuilt_chunker()
    warnings.filterwarnings('ignore', category=RuntimeWarning)
    r = rng_for(seed, 'C04-tag-session', idx)
    out = {'idx': idx, 'steps': []}
    encrypted = idx % 2 == 0
    old_loop = R.PERSISTENT_LOOP
    loop = asyncio.new_event_loop()
    R.PERSISTENT_LOOP = loop
    try:
        with T.tagged() as reg, R.Scratch('c04ts_%d' % idx) as sc:
            hash_log = []
            orig_token = reg.token

            def token(kind, *args, functional=True):
                if kind == 'hash':
                    hash_log.append(bytes(args[0]))
                return orig_token(kind, *args, functional=functional)
            reg.token = token
            settings, (mn, mx) = H.gen_settings(r, encrypted)
            w = T.SymWorld(sc, settings, password=b'tagged-pw')
            live = w.repo(0)
            tree = {'f1': r.randbytes(3 * mx + 5), 'f2': r.randbytes(mx)}
            s = snapshot_via(w, live, tree) if r.random() < 0.5 else w.snapshot(0, tree)
            digs = [bytes(d) for d in s['result'].chunks]
            locs = [live._chunk_digest_to_location(d) for d in digs]
            honest = dict(w.backend.objects)
            plain = {}
            for d, loc in zip(digs, locs):
                e = reg.tokens.get(honest[loc])
                plain[loc] = e[3] if (e is not None and e[0] == 'enc') else honest[loc]
            n = len(digs)
            plan = [None]
            for _ in range(r.choice([2, 3, 4])):
                q = r.random()
                if q < 0.3 or n < 2:
                    plan.append(None)
                else:
                    i = r.randrange(n)
                    j = r.choice([x for x in range(n) if x != i])
                    plan.append((i, j))
            for k, sub in enumerate(plan):
                objects = dict(honest)
                if sub is not None:
                    objects[locs[sub[0]]] = honest[locs[sub[1]]]
                w.backend.objects = objects
                n_hash, n_dec = len(hash_log), len(reg.decrypt_calls)
                exc, files, _ = command(live, sc, 'restore', s['name'])
                hashed = set(hash_log[n_hash:])
                real = 'ok' if exc is None else P.err_class(exc)
                rehashed = all(plain[loc] in hashed for loc in locs)
                decrypted = len(reg.decrypt_calls) - n_dec
                out['steps'].append({'step': k, 'sub': sub, 'real': real, 'rehashed_all': rehashed, 'decrypt_calls': decrypted, 'chunks': n,
                                     'encrypted': encrypted, 'content_ok': exc is not None or files == dict(s['files'])})
            w.backend.objects = honest
            with R.quiet():
                try:
                    R.run(live.close())
                except Exception:  # noqa: BLE001
                    pass
    finally:
        R.PERSISTENT_LOOP = old_loop
        try:
            loop.close()
        except Exception:  # noqa: BLE001
            pass
    return out
