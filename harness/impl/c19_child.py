"""C19 — one run of the REAL `replicat.__main__.main()` in a FRESH process, with the command handler replaced by a recorder.

    /venv/bin/python harness/impl/c19_child.py <case.json>

(case.json: {"repo": …, "paths": [dirs put on sys.path before the checkout: rebuilt chunker module, custom backend],
"argv": […], "cwd": …}; the environment variables of the case are set by the parent in the process environment.)

A fresh interpreter per case is essential: the argparse actions of `cli.initial_parser` / `cli.common_options_parser`
are module-level objects that `set_defaults` mutates, so a second `main()` in the same process would see the first
one's configuration as "built-in" defaults.

Prints one line `C19RESULT <json>`: the arguments the handler was called with (every attribute of `args`, typed), the
backend class and connection string, the keyword arguments `_instantiate_backend` passes to the backend constructor,
the custom settings, the root logger level; or how the run ended instead (exit status / exception).
"""
import functools
import json
import os
import sys


def tv(x, missing=None):
    """typed JSON encoding of a Python value (shared with the harness: harness/props/c19.py imports it)"""
    from pathlib import PurePath
    if missing is not None and x is missing:
        return {'t': 'missing'}
    if x is None:
        return {'t': 'none'}
    if isinstance(x, bool):
        return {'t': 'bool', 'v': x}
    if isinstance(x, int):
        return {'t': 'int', 'v': x} if abs(x) < 2 ** 53 else {'t': 'int', 'v': str(x)}
    if isinstance(x, float):
        return {'t': 'float', 'v': repr(x)}
    if isinstance(x, str):
        # argparse treats every `str` instance (enum members included) as text to be converted
        return {'t': 'str', 'v': str.__str__(x) if type(x) is str else str(getattr(x, 'value', x))}
    if isinstance(x, (bytes, bytearray)):
        return {'t': 'bytes', 'v': bytes(x).hex()}
    if isinstance(x, PurePath):
        return {'t': 'path', 'v': str(x)}
    if isinstance(x, tuple):
        return {'t': 'tuple', 'v': [tv(e, missing) for e in x]}
    if isinstance(x, list):
        return {'t': 'list', 'v': [tv(e, missing) for e in x]}
    if isinstance(x, dict):
        return {'t': 'dict', 'v': {str(k): tv(v, missing) for k, v in sorted(x.items(), key=lambda kv: str(kv[0]))}}
    if isinstance(x, (set, frozenset)):
        return {'t': 'set', 'v': sorted((tv(e, missing) for e in x), key=json.dumps)}
    if isinstance(x, complex):
        return {'t': 'complex', 'v': repr(x)}
    return {'t': 'other', 'v': f'{type(x).__name__}:{x!r}'[:200]}


def main():
    case = json.load(open(sys.argv[1]))
    sys.path[:0] = [*case['paths'], case['repo']]
    os.chdir(case['cwd'])
    sys.argv = ['replicat', *case['argv']]
    out = {}
    import logging
    try:
        import replicat.__main__ as m
        missing = m._missing_backend_argument

        async def recorder(backend_type, connection_string, args, settings):
            captured = {}
            orig = backend_type.__init__

            @functools.wraps(orig)
            def init(self, *a, **kw):
                captured['args'] = [tv(x, missing) for x in a]
                captured['kwargs'] = {k: tv(v, missing) for k, v in sorted(kw.items())}

            backend_type.__init__ = init
            try:
                m._instantiate_backend(backend_type, connection_string, vars(args))
            except BaseException as e:  # noqa: BLE001
                captured['ctor_exc'] = f'{type(e).__name__}: {e}'[:300]
            finally:
                backend_type.__init__ = orig
            out['handler'] = {
                'backend_module': backend_type.__module__,
                'backend_class': backend_type.__name__,
                'connection_string': tv(connection_string, missing),
                'ctor': captured,
                'args': {k: tv(v, missing) for k, v in sorted(vars(args).items())},
                'settings': tv(settings, missing),
                'root_level': logging.getLogger().level,
            }

        m._cmd_handler = recorder
        m.main()
        out['outcome'] = 'ok' if 'handler' in out else 'no-handler'
    except SystemExit as e:
        out['outcome'] = 'exit'
        out['exit_code'] = e.code if isinstance(e.code, int) or e.code is None else str(e.code)
    except BaseException as e:  # noqa: BLE001
        out['outcome'] = 'exc'
        out['exc'] = type(e).__name__
        out['exc_mro'] = [c.__name__ for c in type(e).__mro__]
        out['msg'] = str(e)[:300]
    sys.stdout.write('\nC19RESULT ' + json.dumps(out) + '\n')
    sys.stdout.flush()


if __name__ == '__main__':
    main()
