"""C03 'duel': two (or more) threads of one process running REAL uploads of the local backend under a CONTROLLED interleaving of
their file-system operations, killed / failed at any of them.

Nothing of replicat is patched.  Inside a forked child

 * an audit hook (`sys.addaudithook`) sees every `open` for writing / creation, `os.rename` (= `replace`), `os.remove` (= `unlink`),
   `os.mkdir`, `os.truncate`, `os.link`, `os.symlink`, `os.rmdir` below the repository directory BEFORE it happens,
 * a profile function (`sys.setprofile` of the registered threads) sees `write` / `flush` / `truncate` / `close` / `__exit__` of
   every file object opened below the repository directory BEFORE it happens (a `close` only when something was written through
   that object: only then it has a file-system effect),

and a registered thread PARKS at each such point until the controller grants it one step: the granted thread performs exactly the
announced operation and runs on to its next point (or to the end of its upload).  A script is a list of segments
`(worker, steps)`; after the script the process is killed with `os._exit` (user-space buffers are lost, exactly as with SIGKILL),
or every thread is run to its end, or one worker's operations start to fail for one operation or for good (`OSError` raised from
the audit hook: the operation does not happen; for `write` / `close` the descriptor of the file object is redirected to a read-only
one, so that the real write(2) — of this call or of the flush at close — fails with EBADF).

The log (one JSON object per line, written with `os.write` on an O_APPEND descriptor) records every park (`p`), every grant
(`g`, written by the granted thread before it performs the operation — the controller only kills while every registered thread
is parked or finished, so every granted operation has completed) and every end of an upload (`d`).  For `write` / `close` points
the raw position and the logical position of the file object are logged: their differences are the bytes that really reached the
file (CPython buffers small writes until `close`) — this is how the harness instantiates the model's "payload written in
arbitrary pieces".
"""
import errno
import io
import json
import os
import sys
import threading

WRITE_FLAGS = os.O_WRONLY | os.O_RDWR | os.O_CREAT | os.O_TRUNC | os.O_APPEND
AUDIT = {'open', 'os.rename', 'os.remove', 'os.mkdir', 'os.rmdir', 'os.truncate', 'os.link', 'os.symlink'}
FILE_CALLS = {'write': 'write', 'writelines': 'write', 'flush': 'flush', 'truncate': 'trunc', 'close': 'close', '__exit__': 'close'}
STEP_TIMEOUT = 60.0


class Ctl:
    def __init__(self, root, log_path):
        self.root = os.path.abspath(str(root))
        self.pres = sorted({self.root + os.sep, os.path.realpath(self.root) + os.sep}, key=len, reverse=True)
        self.fd = os.open(str(log_path), os.O_WRONLY | os.O_CREAT | os.O_APPEND)
        self.cv = threading.Condition()
        self.workers = {}          # thread ident -> worker index
        self.st = {}               # worker index -> state dict
        self.free = False
        self.dirty = set()
        self.tl = threading.local()
        self.installed = False

    # ------------------------------------------------------------ plumbing
    def log(self, rec):
        os.write(self.fd, (json.dumps(rec) + '\n').encode())

    def rel(self, p):
        try:
            p = os.fspath(p)
        except TypeError:
            return None
        if isinstance(p, bytes):
            p = os.fsdecode(p)
        if not os.path.isabs(p):
            p = os.path.abspath(p)
        for pre in self.pres:
            if p + os.sep == pre:
                return ''
            if p.startswith(pre):
                return p[len(pre):].replace(os.sep, '/')
        return None

    def install(self):
        if not self.installed:
            self.installed = True
            sys.addaudithook(self._audit)

    def register(self, w):
        """called BY the worker thread, before its upload"""
        with self.cv:
            self.workers[threading.get_ident()] = w
            self.st[w] = {'parked': None, 'granted': False, 'done': None, 'n': 0, 'fault': None}
            self.cv.notify_all()
        sys.setprofile(self._prof)

    def finished(self, w, outcome):
        sys.setprofile(None)
        self.log({'d': w, 'out': outcome})
        with self.cv:
            self.workers.pop(threading.get_ident(), None)
            self.st[w]['done'] = outcome
            self.cv.notify_all()

    # ------------------------------------------------------------ the two observers
    def _audit(self, event, args):
        if event not in AUDIT:
            return
        w = self.workers.get(threading.get_ident())
        if w is None or getattr(self.tl, 'busy', False):
            return
        self.tl.busy = True
        try:
            if sys.getprofile() is None:         # an exception raised by the profile function switched it off
                sys.setprofile(self._prof)
            pt = self._classify(event, args)
        finally:
            self.tl.busy = False
        if pt is not None and self.point(w, pt):
            raise OSError(errno.EIO, 'injected fault at ' + pt['k'])

    def _classify(self, event, args):
        if event == 'open':
            path, _mode, flags = args[0], args[1], args[2]
            if isinstance(path, int) or not isinstance(flags, int) or not (flags & WRITE_FLAGS):
                return None
            r = self.rel(path)
            if r is None or os.path.isdir(os.path.join(self.root, r)):
                return None
            kind = 'create' if (flags & os.O_CREAT and flags & os.O_EXCL) else ('open-w' if (flags & (os.O_TRUNC | os.O_CREAT)) else 'open-rw')
            return {'k': kind, 'p': r, 'trunc': bool(flags & os.O_TRUNC), 'excl': bool(flags & os.O_EXCL)}
        if event == 'os.mkdir':
            r = self.rel(args[0])
            if r is None:
                return None
            full = os.path.join(self.root, r)
            if os.path.isdir(full) or not os.path.isdir(os.path.dirname(full)):
                return None                      # no effect either way (exists already / parent missing)
            return {'k': 'mkdir', 'p': r}
        if event in ('os.rename', 'os.link', 'os.symlink'):
            a, b = self.rel(args[0]), self.rel(args[1])
            if a is None and b is None:
                return None
            return {'k': 'rename' if event == 'os.rename' else 'other', 'p': a, 'to': b, 'ev': event}
        r = self.rel(args[0])
        if r is None:
            return None
        return {'k': {'os.remove': 'remove', 'os.rmdir': 'rmdir', 'os.truncate': 'trunc'}[event], 'p': r}

    def _prof(self, _frame, event, arg):
        if event != 'c_call':
            return
        kind = FILE_CALLS.get(getattr(arg, '__name__', None))
        if kind is None:
            return
        w = self.workers.get(threading.get_ident())
        if w is None:
            return
        f = getattr(arg, '__self__', None)
        if not isinstance(f, io.IOBase):
            return
        try:
            if f.closed or not f.writable():
                return
            r = self.rel(f.name)
        except Exception:  # noqa: BLE001
            return
        if r is None:
            return
        key = id(f)
        if kind in ('write', 'trunc'):
            self.dirty.add(key)
        elif key not in self.dirty:
            return
        elif kind == 'close':
            self.dirty.discard(key)
        try:
            raw = getattr(f, 'raw', f)
            rawpos, pos = raw.tell(), f.tell()
        except Exception:  # noqa: BLE001
            rawpos = pos = None
        if self.point(w, {'k': kind, 'p': r, 'fo': key, 'raw': rawpos, 'pos': pos}):
            # the announced operation must FAIL: the descriptor is redirected to a read-only one, so the real write(2) of this
            # call (or of the flush at close) raises OSError(EBADF); nothing is raised from the profile function itself
            try:
                os.dup2(self._rdonly(), f.fileno())
            except Exception:  # noqa: BLE001
                pass

    def _rdonly(self):
        if getattr(self, '_ro', None) is None:
            self._ro = os.open(os.devnull, os.O_RDONLY)
        return self._ro

    # ------------------------------------------------------------ worker side
    def point(self, w, pt):
        """→ True when the announced operation has to fail"""
        st = self.st[w]
        with self.cv:
            if not self.free:
                st['parked'] = pt
                self.log({'p': w, 'pt': pt})
                self.cv.notify_all()
                while not st['granted'] and not self.free:
                    self.cv.wait()
                st['granted'] = False
                st['parked'] = None
            st['n'] += 1
            fault = st['fault']
            fail = False
            if fault is not None and (fault['kinds'] is None or pt['k'] in fault['kinds']):
                fail = True
                if fault['once']:
                    st['fault'] = None
            self.log({'g': w, 'pt': pt, 'fail': fail})
        return fail

    # ------------------------------------------------------------ controller side
    def wait_ready(self, ws, timeout=STEP_TIMEOUT):
        """until every worker of `ws` is registered and parked or finished"""
        with self.cv:
            return self.cv.wait_for(lambda: all(w in self.st and (self.st[w]['parked'] is not None or self.st[w]['done'] is not None)
                                                for w in ws), timeout)

    def step(self, w, timeout=STEP_TIMEOUT):
        """grant ONE operation to worker w and wait until it is parked again or finished → False if it had finished already"""
        st = self.st[w]
        with self.cv:
            if st['done'] is not None:
                return False
            st['granted'] = True
            self.cv.notify_all()
            if not self.cv.wait_for(lambda: (st['parked'] is not None and not st['granted']) or st['done'] is not None, timeout):
                self.log({'hang': w})
                os._exit(9)
        return True

    def run_to_end(self, w, limit=400):
        n = 0
        while n < limit and self.step(w):
            n += 1
        return n

    def set_fault(self, w, kinds=None, once=False):
        with self.cv:
            self.st[w]['fault'] = {'kinds': kinds, 'once': once}

    def release_all(self):
        with self.cv:
            self.free = True
            self.cv.notify_all()

    def script(self, segments):
        for w, n in segments:
            if n == 'all':
                self.run_to_end(w)
            else:
                for _ in range(n):
                    if not self.step(w):
                        break


# -------------------------------------------------------------------------------- endings
def run_ending(ctl, ending, workers=(0, 1)):
    """ending: ['kill'] | ['finish', first] | ['fault', w, kinds|None, once, first]  (first = the worker that is run to its end first)"""
    if ending[0] == 'kill':
        ctl.log({'end': 'kill'})
        os._exit(17)
    if ending[0] == 'fault':
        ctl.set_fault(ending[1], ending[2], ending[3])
        first = ending[4]
    else:
        first = ending[1]
    order = [first] + [w for w in workers if w != first]
    for w in order:
        ctl.run_to_end(w)
    ctl.log({'end': ending[0]})
    os._exit(0)


# -------------------------------------------------------------------------------- log reading
def read_duel_log(path):
    """→ dict(parks {w: [pt…]}, grants [(w, pt, fail)…] in order, done {w: outcome}, end, hang)"""
    out = {'grants': [], 'parks': {}, 'done': {}, 'end': None, 'hang': None, 'events': []}
    if not os.path.exists(path):
        return out
    with open(path, 'rb') as fh:
        for ln in fh.read().splitlines():
            try:
                rec = json.loads(ln)
            except ValueError:
                continue
            if 'p' in rec:
                out['parks'].setdefault(rec['p'], []).append(rec['pt'])
                out['events'].append(('p', rec['p'], rec['pt']))
            elif 'g' in rec:
                out['grants'].append((rec['g'], rec['pt'], rec.get('fail', False)))
                out['events'].append(('g', rec['g'], rec['pt']))
            elif 'd' in rec:
                out['done'][rec['d']] = rec['out']
            elif 'end' in rec:
                out['end'] = rec['end']
            elif 'hang' in rec:
                out['hang'] = rec['hang']
            elif 'put' in rec or 'del' in rec or 'note' in rec:
                out['events'].append(('m', rec))
    return out


def flushed_pieces(log, data_of):
    """the abstraction function of the file-system tie: the granted operations of the log, in order, as steps of `LocalUpload.lean`
    ([kind, …] lists; byte strings hex).  `data_of[w]` = the payload worker w uploads.  A `write` / `close` becomes the bytes that
    really reached the file: the difference of the raw positions seen at consecutive points of the same file object (for the last
    granted `write` the position at the worker's pending park), for `close` logical minus raw position.
    → (steps [(w, step)], exact: False when a position was not available)"""
    nxt = {}        # (w, file object) -> list of raw positions at successive points, consumed in order
    per = {}
    for ev in log['events']:
        if ev[0] == 'p' and ev[2].get('fo') is not None:
            per.setdefault((ev[1], ev[2]['fo']), []).append(ev[2])
    for k, pts in per.items():
        nxt[k] = pts
    seen = {}
    dead = set()    # file objects whose descriptor was redirected by an injected fault: nothing written through them arrives
    steps, exact = [], True
    for w, pt, fail in log['grants']:
        k = pt['k']
        if k in ('write', 'flush', 'close') and (fail or (w, pt['fo']) in dead):
            key = (w, pt['fo'])
            seen[key] = seen.get(key, 0) + 1
            dead.add(key)
            if k == 'close':
                dead.discard(key)
            continue
        if fail:
            continue
        if k == 'mkdir':
            steps.append((w, ['mkdir', pt['p']]))
        elif k in ('create', 'open-w'):
            if k == 'create' or pt.get('trunc'):
                steps.append((w, ['create', pt['p']]))
            else:
                exact = False          # created-if-missing without truncation: not a step of the model
        elif k == 'open-rw':
            pass
        elif k in ('write', 'flush', 'close'):
            key = (w, pt['fo'])
            i = seen.get(key, 0)
            seen[key] = i + 1
            pts = nxt.get(key, [])
            here = pts[i] if i < len(pts) else pt
            if here.get('raw') is None:
                exact = False
                continue
            if k == 'write':
                if i + 1 < len(pts) and pts[i + 1].get('raw') is not None:
                    n = pts[i + 1]['raw'] - here['raw']
                else:
                    exact = False      # killed before the worker reached its next point on this file: the effect is not known
                    continue
            else:
                n = (here['pos'] or 0) - here['raw']
            if n > 0:
                steps.append((w, ['write', pt['p'], data_of[w][here['raw']:here['raw'] + n].hex()]))
        elif k == 'rename':
            steps.append((w, ['rename', pt['p'], pt['to']]))
        elif k == 'remove':
            steps.append((w, ['unlink', pt['p']]))
        else:
            exact = False
    return steps, exact


# -------------------------------------------------------------------------------- child bodies
def child_two_uploads(root, log_path, spec):
    """(child only) spec: name, methods [m0, m1], data [d0, d1] (bytes), piece, one_object, segments, ending"""
    from .crashkit import local_cls
    Local = local_cls()
    ctl = Ctl(root, log_path)
    ctl.install()
    shared = Local(str(root))
    backends = [shared, shared if spec['one_object'] else Local(str(root))]

    def work(w):
        ctl.register(w)
        out = 'ok'
        try:
            if spec['methods'][w] == 'upload':
                backends[w].upload(spec['name'], spec['data'][w])
            else:
                backends[w].upload_stream(spec['name'], io.BytesIO(spec['data'][w]), len(spec['data'][w]), spec['piece'])
        except OSError:
            out = 'os_error'
        except BaseException as e:  # noqa: BLE001
            out = 'error:' + type(e).__name__
        finally:
            ctl.finished(w, out)
    ts = [threading.Thread(target=work, args=(w,), daemon=True) for w in (0, 1)]
    for t in ts:
        t.start()
    if not ctl.wait_ready((0, 1)):
        ctl.log({'hang': 'start'})
        os._exit(9)
    ctl.script(spec['segments'])
    run_ending(ctl, spec['ending'])


def make_duel_backend(root, log_path, targets, segments, ending, wait_partner=6.0):
    """(child only) the real Local backend for a whole command.  Mutating calls are logged when they RETURN (`{"put": name}` /
    `{"del": name}`), never serialised.  The first two threads that upload the same name out of `targets` become workers 0 and 1 of a
    duel: both are parked at their first file-system operation, then `segments` is played and `ending` applied ('kill', or
    ['release'] = everybody runs on freely, or ['fault', w, kinds, once] then release).  If no second uploader of a target shows up
    within `wait_partner` seconds everything is released (`{"note": "no-duel"}`)."""
    from .crashkit import local_cls
    Local = local_cls()
    ctl = Ctl(root, log_path)
    ctl.install()
    threading.setprofile(ctl._prof)
    state = {'name': None, 'n': 0}

    def controller():
        with ctl.cv:
            ok = ctl.cv.wait_for(lambda: state['n'] >= 2, wait_partner)
        if not ok or not ctl.wait_ready((0, 1)):
            ctl.log({'note': 'no-duel'})
            ctl.release_all()
            return
        ctl.log({'note': 'duel', 'name': state['name']})
        ctl.script(segments)
        if ending[0] == 'kill':
            ctl.log({'end': 'kill'})
            os._exit(17)
        if ending[0] == 'fault':
            ctl.set_fault(ending[1], ending[2], ending[3])
        ctl.log({'end': ending[0]})
        ctl.release_all()

    class DuelLocal(Local):
        def _enter(self, name):
            """→ worker index or None.  The first thread that uploads a target claims that name; the next thread that uploads the
            SAME name is its opponent; everybody else passes freely."""
            if name not in targets:
                return None
            with ctl.cv:
                if not ctl.free and state['n'] >= 2 and state['name'] == name:
                    # a third uploader of the contested name stays out of the duel: it starts when the duel is over
                    ctl.cv.wait_for(lambda: ctl.free, 30)
                if ctl.free or state['n'] >= 2 or state['name'] not in (None, name):
                    return None
                w = state['n']
                state['name'] = name
                state['n'] += 1
                ctl.cv.notify_all()
            return w

        def _call(self, kind, name, fn):
            w = self._enter(name) if kind == 'put' else None
            if w is not None:
                ctl.register(w)
            out = 'ok'
            try:
                fn()
            except BaseException as e:
                out = 'error:' + type(e).__name__
                raise
            finally:
                if w is not None:
                    ctl.finished(w, out)
            ctl.log({kind: name})

        def upload(self, name, data):
            self._call('put', name, lambda: Local.upload(self, name, data))

        def upload_stream(self, name, stream, length, chunk_size=128_000):
            self._call('put', name, lambda: Local.upload_stream(self, name, stream, length, chunk_size))

        def delete(self, name):
            self._call('del', name, lambda: Local.delete(self, name))

    be = DuelLocal(str(root))
    t = threading.Thread(target=controller, daemon=True)
    t.start()
    return be
