"""C16 — the streams `upload_stream` may be handed: every behaviour the file protocol allows.

`Backend.upload_stream(name, stream, length, chunk_size)` takes the caller's seekable stream and reads it twice — the digest loop
(`_get_stream_hexdigest`: declared and signed `x-amz-content-sha256`) and the body iterator (`utils.aiter_chunks`).  The file
protocol (`io.RawIOBase.read`) says `read(n)` returns UP TO n bytes and an empty result only at the end: raw / unbuffered streams,
pipes and sockets, network file systems, wrappers that cap the transfer size answer with fewer bytes than asked for long before the
end.  `io.BytesIO` and buffered files (all that replicat itself passes, all the unit tests use) always fill the request, so a loop
that mistakes a short read for the end is invisible to them.

This module provides

* seekable stream objects driven by a *read policy* (a JSON-able dict, kept in the replay):
    {'kind': 'full'}                                   every read is filled (the io.BytesIO behaviour)
    {'kind': 'cap', 'cap': k}                          no read hands out more than k bytes (transfer-size cap)
    {'kind': 'calls', 'caps': [...], 'scope': s}       the i-th read (s = 'stream': of the object's life; 'pass': since the last
                                                       seek) hands out at most caps[i] bytes; later reads are filled
    {'kind': 'extents', 'bounds': [...]}               no read crosses one of the positions (records / extents / messages)
  with 'ret' ∈ bytes | bytearray | memoryview (what `read` returns) and 'flavour' ∈
    object     a plain object with read / seek / tell (duck typing — what the adapters' signature asks for)
    rawio      an `io.RawIOBase` subclass that implements ONLY `readinto`; `read(n)` is the base class's (one `readinto` per call)
    buffered   `io.BufferedReader` over that raw stream (fills every request again: the harmless neighbour)
  Every object logs the reads the code under test issued (`read_log`: [pass, position, requested, returned]) and its seeks;
* generators: read policies, payload sizes around every size-like constant of the code path (taken from the source by
  tools/sections/16_s3reads.py — the same function the extractor runs), payloads given by a small spec (seed, length);
* the tie with the Lean model of the read loops (`sigv4r.upload`: `readLoop` under the stop rules generated from the source):
  given the answers the stream gave, the model must issue the same reads, hash the same bytes and yield the same parts.
"""
import hashlib
import importlib.util
import io
import random

from ..common import REPO, VERIF

RET_TYPES = ('bytes', 'bytearray', 'memoryview')
FLAVOURS = ('object', 'rawio', 'buffered')


# ------------------------------------------------------------------ facts of the source (shared with the extractor)
_facts = {}


def source_facts():
    """`facts()` of tools/sections/16_s3reads.py for the tree under test"""
    key = str(REPO)
    if key not in _facts:
        spec = importlib.util.spec_from_file_location('sections_16_s3reads', VERIF / 'tools' / 'sections' / '16_s3reads.py')
        mod = importlib.util.module_from_spec(spec)
        spec.loader.exec_module(mod)
        _facts[key] = mod.facts(REPO)
    return _facts[key]


# ------------------------------------------------------------------ payloads
def mk_data(spec):
    """{'seed': s, 'len': L} → L reproducible bytes"""
    return random.Random(spec['seed']).randbytes(spec['len'])


# ------------------------------------------------------------------ policies
class Policy:
    def __init__(self, d):
        self.d = d
        self.kind = d['kind']
        if self.kind == 'extents':
            self.bounds = sorted(set(int(b) for b in d['bounds'] if b > 0))

    def cap(self, call_in_stream, call_in_pass, pos, n):
        """how many bytes the read at `pos` asking for `n` may hand out at most (≥ 1)"""
        k = self.kind
        if k == 'full':
            return n
        if k == 'cap':
            return max(1, self.d['cap'])
        if k == 'calls':
            i = call_in_stream if self.d.get('scope', 'stream') == 'stream' else call_in_pass
            caps = self.d['caps']
            return max(1, caps[i]) if i < len(caps) else n
        if k == 'extents':
            for b in self.bounds:
                if b > pos:
                    return b - pos
            return n
        raise ValueError(k)


class _Core:
    """position, policy and logs shared by the flavours"""

    def __init__(self, data, policy):
        self.data = data
        self.policy = Policy(policy)
        self.pos = 0
        self.calls = 0
        self.calls_in_pass = 0
        self.passes = 0
        self.read_log = []
        self.seek_log = []

    def take(self, n):
        left = len(self.data) - self.pos
        if n is None or n < 0:
            k = left                      # read() / readall(): everything
            n_logged = -1
        else:
            k = min(n, left, self.policy.cap(self.calls, self.calls_in_pass, self.pos, n)) if n > 0 else 0
            n_logged = n
        out = self.data[self.pos:self.pos + k]
        self.read_log.append([self.passes, self.pos, n_logged, k])
        self.pos += k
        self.calls += 1
        self.calls_in_pass += 1
        return out

    def seek(self, offset, whence=0):
        if whence == 0:
            p = offset
        elif whence == 1:
            p = self.pos + offset
        else:
            p = len(self.data) + offset
        self.pos = max(0, p)
        self.seek_log.append([offset, whence])
        self.passes += 1
        self.calls_in_pass = 0
        return self.pos


class ObjectStream:
    """a plain seekable object (no io base class): read / seek / tell"""

    def __init__(self, data, policy):
        self.core = _Core(data, policy)
        self.ret = policy.get('ret', 'bytes')

    def read(self, size=-1):
        b = self.core.take(size)
        if self.ret == 'bytearray':
            return bytearray(b)
        if self.ret == 'memoryview':
            return memoryview(b)
        return b

    def seek(self, offset, whence=0):
        return self.core.seek(offset, whence)

    def tell(self):
        return self.core.pos

    def seekable(self):
        return True

    def readable(self):
        return True

    read_log = property(lambda self: self.core.read_log)
    seek_log = property(lambda self: self.core.seek_log)


class RawStream(io.RawIOBase):
    """`io.RawIOBase` with `readinto` only: `read(n)` is inherited (one `readinto` per call, hence short reads)"""

    def __init__(self, data, policy):
        super().__init__()
        self.core = _Core(data, policy)

    def readinto(self, b):
        got = self.core.take(len(b))
        b[:len(got)] = got
        return len(got)

    def seek(self, offset, whence=0):
        return self.core.seek(offset, whence)

    def tell(self):
        return self.core.pos

    def seekable(self):
        return True

    def readable(self):
        return True

    read_log = property(lambda self: self.core.read_log)
    seek_log = property(lambda self: self.core.seek_log)


class BufferedOverRaw:
    """`io.BufferedReader(RawStream)` behind a thin proxy that logs the reads of the code under test (the raw stream below still
    answers short; the buffer fills the request)"""

    def __init__(self, data, policy):
        self.raw = RawStream(data, policy)
        self.buf = io.BufferedReader(self.raw, buffer_size=8192)
        self.read_log = []
        self.seek_log = []
        self.passes = 0

    def read(self, size=-1):
        pos = self.buf.tell()
        b = self.buf.read(size)
        self.read_log.append([self.passes, pos, -1 if size is None or size < 0 else size, len(b)])
        return b

    def seek(self, offset, whence=0):
        self.seek_log.append([offset, whence])
        self.passes += 1
        return self.buf.seek(offset, whence)

    def tell(self):
        return self.buf.tell()

    def seekable(self):
        return True

    def readable(self):
        return True


def make_stream(data, policy):
    fl = policy.get('flavour', 'object')
    if fl == 'rawio':
        return RawStream(data, policy)
    if fl == 'buffered':
        return BufferedOverRaw(data, policy)
    return ObjectStream(data, policy)


def describe(policy):
    k = policy['kind']
    s = {'full': 'every read filled', 'cap': f"no read returns more than {policy.get('cap')} bytes",
         'calls': f"reads capped call by call ({policy.get('scope', 'stream')}): {policy.get('caps')}",
         'extents': f"no read crosses the positions {policy.get('bounds')}"}[k]
    return f"{policy.get('flavour', 'object')} stream, read() returns {policy.get('ret', 'bytes')}, {s}"


# ------------------------------------------------------------------ generators
def near_sizes(c):
    """payload sizes around the constant c and its small multiples: (size, label = 'MxC+d')"""
    out = []
    for m in (1, 2, 3):
        for d in (-1, 0, 1):
            out.append((m * c + d, f'{m}x{c}{d:+d}'))
    out.append((c + c // 2, f'1.5x{c}'))
    out.append((c // 2, f'0.5x{c}'))
    return out


def size_counters(label):
    """'2x640000+1' → ('640000', 'multiple+1'); other labels → (None, label)"""
    import re
    m = re.fullmatch(r'(?:sweep:)?([\d.]+)x(\d+)([+-]\d)?', label)
    if not m:
        return None, label
    d = m.group(3)
    return m.group(2), ('between-multiples' if d is None else 'multiple' if d in ('+0', '-0') else 'multiple' + d)


def gen_policy(r, L, ns, allow_slow=False):
    """a read policy for a payload of L bytes read with request sizes `ns` (digest read size, chunk size).
    Bounded work: no policy makes a pass over the payload take more than ~3000 reads."""
    n = r.choice(ns)
    min_cap = max(1, L // (6000 if allow_slow else 1500))
    kind = r.choices(['full', 'cap', 'calls', 'extents'], [8, 27, 35, 30])[0]
    pol = {'kind': kind}
    if kind == 'cap':
        cands = [1, 7, 512, 4096, 65_536, 100_000, n - 1, n // 2, n + 1, max(1, L - 1), max(1, L // 2), 1 + L // 3, r.randint(1, max(1, n))]
        pol['cap'] = max(min_cap, r.choice([c for c in cands if c >= 1]))
    elif kind == 'calls':
        def one():
            m = r.choice(ns)
            return max(1, r.choice([1, m - 1, m - 1, m // 2, m, 2 * m, r.randint(1, max(1, m)), max(1, L - 1), max(1, L // 2)]))
        pol['caps'] = [one() for _ in range(r.choice([1, 1, 2, 3, 5, 12]))]
        pol['scope'] = r.choice(['stream', 'pass', 'pass'])
    elif kind == 'extents':
        cands = [n - 1, n, n + 1, 2 * n, L - 1, L // 2, 1, n // 2] + [r.randint(1, max(1, L)) for _ in range(r.choice([0, 1, 3, 8]))]
        k = r.choice([1, 1, 2, 4, 8])
        pol['bounds'] = sorted(set(b for b in r.sample(cands, min(k, len(cands))) if 0 < b < max(L, 1))) or [max(1, L // 2)]
    fl = r.choices(FLAVOURS, [60, 27, 13])[0]
    pol['flavour'] = fl
    pol['ret'] = r.choices(RET_TYPES, [60, 20, 20])[0] if fl == 'object' else 'bytes'
    return pol


def gen_chunk_size(r, L, consts):
    cands = [c for c in consts if c >= 64] + [4096, 65_536, max(1, L), max(1, L - 1), L + 1, max(1, L // 2), max(1, L // 3 + 1)]
    if L <= 3000:
        cands += [1, 7, 64]
    return max(r.choice(cands), max(1, L // 1500))


def gen_stream_call(r, name, facts, size=None, big_ok=True):
    """(call dict, size label) — a streamed upload from a policy-driven stream"""
    consts = facts.get('size_constants') or [128_000, 640_000]
    dn = facts.get('digest_read_size') or 640_000
    if size is None:
        k = r.random()
        if k < 0.62:       # next to a constant of the code path (tiny ones seldom: they give tiny payloads)
            L, label = r.choice(near_sizes(r.choices(consts, [1 if c < 64 else 6 for c in consts])[0]))
        elif k < 0.66:
            L, label = r.choice([(0, 'empty'), (1, 'one-byte')])
        elif k < 0.8:
            L = r.choice([2, 15, 64, 100, 1000, 4096, 70_000])
            label = 'small'
        else:
            c = r.choices(consts, [1 if c < 64 else 6 for c in consts])[0]
            L = r.randint(0, 3 * c)
            label = f'random<=3x{c}'
    else:
        L, label = size
    if not big_ok and L > 300_000:
        c = r.choice([c for c in consts if c <= 130_000] or [1000])
        L, label = r.choice([(c - 1, f'1x{c}-1'), (c + 1, f'1x{c}+1'), (2 * c, f'2x{c}+0'), (c + c // 2, f'1.5x{c}')])
    L = min(L, 2_600_000)
    spec = {'seed': r.getrandbits(32), 'len': L}
    chunk = gen_chunk_size(r, L, consts)
    call = {'call': 'upload_stream', 'name': name, 'name_class': 'replicat', 'data_spec': spec, 'data': mk_data(spec), 'chunk_size': chunk,
            'stream': gen_policy(r, L, [dn, chunk]), 'size_label': label}
    return call, label


# ------------------------------------------------------------------ the tie with the Lean model of the read loops
def passes_of(log):
    """read log → {pass index: [[pos, n, got], …]}"""
    out = {}
    for p, pos, n, got in log:
        out.setdefault(p, []).append([pos, n, got])
    return out


def caps_of(entries):
    """the answers the stream gave, as the caps of the successive calls (a filled read = cap n)"""
    return [got for _, n, got in entries]


def short_before_eof(entries, L):
    """did some read of this pass return fewer bytes than asked for although more were left?"""
    return any(0 <= got < n and pos + got < L for pos, n, got in entries if n >= 0)


def model_request(call, res):
    """`sigv4r.upload` for the digest pass and the LAST body pass the code made over the stream (None: nothing to ask)"""
    log = res.get('stream_log')
    if not log:
        return None
    ps = passes_of(log)
    L = len(call['data'])
    d = ps.get(0, [])
    if any(n < 0 for _, n, _ in d):
        return None           # the code asked for "everything" in one read: not a loop the model describes
    last = max(ps)
    b = ps[last] if last >= 1 else []
    rq = {'op': 'sigv4r.upload', 'length': L, 'pos': call.get('pos', 0), 'chunk': call.get('chunk_size', 128_000),
          'dcaps': caps_of(d), 'bcaps': caps_of(b), 'declared_length': call.get('length', L)}
    if L > 400_000 and not call.get('model_body'):
        rq['digest_only'] = True
    return rq


def compare(out, call, res, reqs, rep, replay):
    """model vs implementation on one streamed upload from a policy-driven stream.  Counts what the case exercised."""
    log = res.get('stream_log') or []
    ps = passes_of(log)
    L = len(call['data'])
    pol = call['stream']
    d = ps.get(0, [])
    out.count('stream:policy:' + pol['kind'] + (':' + pol.get('scope', '') if pol['kind'] == 'calls' else ''))
    out.count('stream:flavour:' + pol.get('flavour', 'object'))
    out.count('stream:read-returns:' + pol.get('ret', 'bytes'))
    near, rel = size_counters(call.get('size_label', '?'))
    if near is not None:
        out.count('stream:size-next-to-constant:' + near)
    out.count('stream:size:' + rel)
    out.count('stream:digest-pass:' + ('short-read-before-end' if short_before_eof(d, L) else 'every-read-filled'))
    if short_before_eof(d, L):
        first = next(i for i, (pos, n, got) in enumerate(d) if 0 <= got < n and pos + got < L)
        out.count('stream:digest-pass:first-short-read-is-call:' + ('0' if first == 0 else '1' if first == 1 else '>=2'))
        if L - (d[first][0] + d[first][2]) <= 1:
            out.count('stream:digest-pass:short-read-leaves-one-byte')
    nd = len(d)
    out.count('stream:digest-pass:reads:' + ('1' if nd <= 1 else '2' if nd == 2 else '3-9' if nd < 10 else '10-99' if nd < 100 else '>=100'))
    body_passes = [ps[k] for k in sorted(ps) if k >= 1]
    if any(short_before_eof(b, L) for b in body_passes):
        out.count('stream:body-pass:short-read-before-end')
    out.count('stream:body-passes:' + str(min(len(body_passes), 4)))
    out.count('stream:reads', len(log))
    if rep is None:
        return
    if 'error' in rep:
        out.disagreement('driver error (sigv4r.upload)', {'replay': replay, 'reply': rep})
        return
    diffs = []
    # digest loop: the same reads, the same bytes hashed
    if [got for _, _, got in d] != rep['digest_reads']:
        diffs.append(('reads of the digest loop', rep['digest_reads'][:40], [got for _, _, got in d][:40]))
    if reqs:
        pos0 = call.get('pos', 0)
        want = hashlib.sha256(call['data'][pos0:pos0 + rep['hashed']]).hexdigest()
        declared = [(rq.header('x-amz-content-sha256') or [''])[0] for rq in reqs]
        if any(x != want for x in declared):
            diffs.append(('declared digest', f"sha256 of {rep['hashed']} bytes from position {pos0}", declared[:2]))
    # body iterator of the last pass: the same reads (a prefix of them when the connection broke), the same parts
    if 'body_reads' in rep and body_passes:
        b = [got for _, _, got in body_passes[-1]]
        last_complete = bool(reqs) and reqs[-1].complete and len(body_passes) == len(reqs)
        if last_complete:
            if b != rep['body_reads']:
                diffs.append(('reads of the body iterator', rep['body_reads'][:40], b[:40]))
            elif reqs[-1].parts != len(rep['body_parts']) or len(reqs[-1].body) != rep['body_len']:
                diffs.append(('body parts', [len(rep['body_parts']), rep['body_len']], [reqs[-1].parts, len(reqs[-1].body)]))
        elif b != rep['body_reads'][:len(b)]:
            diffs.append(('reads of the body iterator (broken attempt: prefix)', rep['body_reads'][:40], b[:40]))
    if diffs:
        out.disagreement('read-loop model differs from implementation on: ' + ', '.join(x[0] for x in diffs),
                         {'replay': replay, 'differences': [{'what': a, 'model': m, 'impl': i} for a, m, i in diffs],
                          'model_stop_rules': {'digest': rep.get('digest_stop_rule'), 'body': rep.get('body_stop_rule')},
                          'digest_read_size': rep.get('digest_read_size')})
    else:
        out.traces_validated += 1


def note(call, res):
    """one clause for the text of a violation: what the stream did"""
    pol = call.get('stream')
    if not pol:
        return ''
    d = passes_of(res.get('stream_log') or []).get(0, [])
    reads = [got for _, _, got in d]
    return (f" [stream: {describe(pol)}; the digest loop issued {len(reads)} read(s) returning {reads[:8]}{'…' if len(reads) > 8 else ''} bytes"
            f" = {sum(reads)} of the {len(call['data'])} payload bytes hashed]")
