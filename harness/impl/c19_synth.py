"""C19 — SYNTHETIC CUSTOM BACKENDS: backend signatures other than the built-in ones.

`cli.parser_for_backend` / `config.config_for_backend` / `BaseBackendConfig` / `_instantiate_backend` work off
`inspect.signature(<backend class>)`, so what they do depends on how the backend's author wrote the constructor.  The shipped
backends (and the fixed test backend `vfy`) all look alike: unannotated keyword-only parameters.  This module generates, per
seed, a handful of custom backends the way the README ("Custom backends") describes them — a module `<name>.py` inside a
`replicat/backends/` directory that is put on sys.path, found through the namespace package — whose keyword-only options
carry every kind of annotation (none, `str`, `int`, `bool`, `float`, `Optional[...]`, `Union[...]`, PEP 604, `Any`, `Path`,
`bytes`, `List[str]`, string annotations, or all of them turned into strings by `from __future__ import annotations`), are
required or have defaults of several kinds, and whose class declares its short name in the three possible ways.

The raw values are texts that LOOK LIKE PYTHON LITERALS (12345, none, true, 1e3, 0x1F, '', quoted strings, …) next to plain
ones, because that is where "the same coercion whichever source" can break.

Direct oracle (metamorphic, needs no opinion on what the right coercion is — it is the property's own statement):
  * uniform  — the value the backend CONSTRUCTOR receives for an option is the same function of the raw text whichever single
               source supplied it (command line / environment / profile section / default section);
  * precedence — with several sources set to different texts, the constructor receives exactly what the highest-priority
               source yields on its own (command line > environment > profile > default section).
The one known exception (D15: file / environment / default values are coerced a second time, recognisable because the second
result is `guess_type` of the first) is reported by the ordinary per-case oracle under its own signature and skipped here.

Nothing here imports replicat.
"""
import json

SRCS = ('cli', 'env', 'prof', 'dflt')
DK = {'none': 0, 'suppress': 1, 'str': 2, 'other': 3, 'missing': 4}

# (label, annotation source text or None, family)
ANNOTATIONS = [
    ('none', None, 'none'),
    ('str', 'str', 'str'),
    ('s-str', "'str'", 'str'),
    ('opt-str', 'Optional[str]', 'str'),
    ('s-opt-str', "'Optional[str]'", 'str'),
    ('pep604-str', 'str | None', 'str'),
    ('int', 'int', 'int'),
    ('s-int', "'int'", 'int'),
    ('opt-int', 'Optional[int]', 'int'),
    ('bool', 'bool', 'bool'),
    ('s-bool', "'bool'", 'bool'),
    ('opt-bool', 'Optional[bool]', 'bool'),
    ('float', 'float', 'float'),
    ('s-float', "'float'", 'float'),
    ('union', 'Union[int, str]', 'other'),
    ('any', 'Any', 'other'),
    ('path', 'Path', 'other'),
    ('bytes', 'bytes', 'other'),
    ('list', 'List[str]', 'other'),
    ('object', 'object', 'other'),
]
ANN_BY_LABEL = {a[0]: a for a in ANNOTATIONS}
FAMILY_WEIGHTS = ['str'] * 6 + ['int'] * 4 + ['bool'] * 3 + ['float'] * 2 + ['other'] * 3 + ['none'] * 2

# default value source texts per annotation family (label, source)
DEFAULTS = {
    'str': [('str-plain', "'plain'"), ('str-empty', "''"), ('none', 'None'), ('str-plain', "'eu-west'"), ('str-numeric', "'7'")],
    'int': [('int', '9_876'), ('int', '3'), ('none', 'None'), ('int', '0')],
    'bool': [('bool', 'False'), ('bool', 'True'), ('none', 'None')],
    'float': [('float', '2.5'), ('none', 'None'), ('int', '30')],
    'other': [('none', 'None'), ('str-plain', "'z1'"), ('int', '5'), ('bool', 'False')],
    'none': [('int', '9_876'), ('bool', 'False'), ('str-plain', "'plain'"), ('none', 'None'), ('float', '1.5'), ('str-numeric', "'7'")],
}

NAME_POOL = ['account_id', 'secret', 'token', 'port', 'legacy', 'region', 'endpoint_url', 'timeout', 'retries', 'label', 'ratio',
             'user', 'api_key', 'verify_tls', 'tenant', 'zone', 'bucket_id', 'max_conn', 'proxy', 'namespace']

# raw texts by class; everything except `plain` / `unicode` is something `ast.literal_eval` (or a careless `int()` / `bool()` /
# `str()`) treats specially
TEXTS = {
    'digits': ['12345', '42', '9877'],
    'leading-zero': ['007', '0123456'],
    'none': ['none', 'None', 'NONE'],
    'bool': ['true', 'True', 'TRUE', 'false', 'False'],
    'float': ['1e3', '3.14', '2.', '.5'],
    'radix': ['0x1F', '0b101', '0o17'],
    'underscore': ['1_000'],
    'empty': [''],
    'quoted': ["'quoted'", '"dq"', "'12'", "''", "'none'"],
    'negative': ['-5', '-1.5'],
    'container': ['[1, 2]', "{'a': 1}", '(1,)', '()'],
    'bytes-literal': ["b'xy'"],
    'complex': ['1+2j'],
    'space': [' 12', '12 ', 'two words'],
    'plain': ['plain-text', 'eu-west-1', 'pr0ud', 'a:b/c'],
    'unicode': ['päß', '١٢٣'],
}
NUMBERISH = ['digits', 'digits', 'leading-zero', 'float', 'radix', 'underscore', 'negative']
WORDISH = ['none', 'none', 'bool', 'bool', 'empty']
TEXT_CLASS = {t: k for k, ts in TEXTS.items() for t in ts}

BODY = '''
    async def exists(self, name):
        return False

    async def upload(self, name, data):
        return None

    async def upload_stream(self, name, stream, length, chunk_size=128_000):
        return None

    async def download(self, name):
        return b''

    async def download_stream(self, name, stream, chunk_size=128_000):
        return None

    async def list_files(self, prefix=''):
        return []

    async def delete(self, name):
        return None
'''


def gen_backend(r, index):
    """one synthetic backend: {'module', 'cls', 'short', 'decl', 'future', 'options': [{'name','ann','default'…}], 'source'}"""
    letters = 'abcdefghijkmnpqrstuvwxyz'
    module = 'z' + r.choice(letters) + r.choice(letters) + str(index)
    cls = r.choice(['ProudCloud', 'Vault', 'ColdStore', 'Bucketeer', 'NAS']) + str(index)
    decl = r.choice(['short+display', 'short', 'short-differs', 'class-name'])
    if decl == 'class-name':
        short, head = cls, f'class {cls}(Backend):'
    elif decl == 'short-differs':
        short = 'y' + r.choice(letters) + str(index)
        head = f"class {cls}(Backend, short_name={short!r}):"
    elif decl == 'short':
        short, head = module, f"class {cls}(Backend, short_name={module!r}):"
    else:
        short, head = module, f"class {cls}(Backend, short_name={module!r}, display_name={cls + ' storage'!r}):"
    future = r.random() < 0.35
    n = r.choice([4, 5, 5, 6])
    names = r.sample(NAME_POOL, n)
    # every backend: one str-like annotation, one option without annotation, the rest anything
    labels = [r.choice([a[0] for a in ANNOTATIONS if a[2] == 'str']), 'none']
    for _ in range(n - 2):
        family = r.choice(FAMILY_WEIGHTS)
        labels.append(r.choice([a[0] for a in ANNOTATIONS if a[2] == family]))
    if future:      # every annotation of the module is a string already; quoting it once more is not something people write
        labels = [x[2:] if x.startswith('s-') else x for x in labels]
    r.shuffle(labels)
    options = []
    for name, label in zip(names, labels):
        _, ann, family = ANN_BY_LABEL[label]
        if r.random() < 0.4:
            dk, dsrc = 'required', None
        else:
            dk, dsrc = r.choice(DEFAULTS[family])
        options.append({'name': name, 'ann': label, 'ann_src': ann, 'family': family, 'default': dk, 'default_src': dsrc})
    # required parameters may follow ones with defaults (keyword-only), as in real code
    lines = []
    if future:
        lines.append('from __future__ import annotations')
        lines.append('')
    lines += ['from pathlib import Path', 'from typing import Any, List, Optional, Union', '', 'from .base import Backend', '', '', head,
              '    def __init__(', '        self,', '        connection_string,', '        *,']
    for o in options:
        p = o['name']
        if o['ann_src'] is not None:
            p += ': ' + o['ann_src']
        if o['default_src'] is not None:
            p += (' = ' if o['ann_src'] is not None else '=') + o['default_src']
        lines.append(f'        {p},')
    lines += ['    ):', '        self.connection_string = connection_string',
              '        self.options = dict(' + ', '.join(f"{o['name']}={o['name']}" for o in options) + ')']
    source = ('"""generated by harness/impl/c19_synth.py — a custom backend for property C19"""\n' + '\n'.join(lines) + '\n' + BODY
              + f'\n\nClient = {cls}\n')
    return {'module': module, 'cls': cls, 'short': short, 'decl': decl, 'future': future, 'options': options, 'source': source}


def gen_backends(r, n):
    out, seen = [], set()
    i = 0
    while len(out) < n:
        b = gen_backend(r, i)
        i += 1
        if b['module'] in seen or b['short'] in seen:
            continue
        seen |= {b['module'], b['short']}
        out.append(b)
    return out


def write_backend(root, spec):
    """<root>/replicat/backends/<module>.py — NO __init__.py anywhere: both packages are namespace packages"""
    d = root / 'replicat' / 'backends'
    d.mkdir(parents=True, exist_ok=True)
    (d / (spec['module'] + '.py')).write_text(spec['source'], encoding='utf-8')
    for sup in spec.get('support', []):      # generated modules this backend's class derives from (harness/impl/c19_hier.py)
        (d / (sup['module'] + '.py')).write_text(sup['source'], encoding='utf-8')


def describe(o):
    """`name: annotation = default` as in the generated source"""
    return o['name'] + (': ' + o['ann_src'] if o['ann_src'] is not None else '') + (' = ' + o['default_src'] if o['default_src'] is not None else '')


def documented_names(spec, option):
    """README: flag `--<option with hyphens>`, environment variable `<SHORT NAME>_<OPTION>` in upper case, file key = the
    flag without the dashes"""
    hy = option.replace('_', '-')
    return {'flag': '--' + hy, 'env': f"{spec['short']}_{option}".upper(), 'key': hy}


def pick_texts(r, k=4):
    """k distinct texts: one number-like, one none/bool/empty-like, the rest from any class"""
    ts = [r.choice(TEXTS[r.choice(NUMBERISH)]), r.choice(TEXTS[r.choice(WORDISH)])]
    classes = sorted(TEXTS)
    guard = 0
    while len(ts) < k and guard < 100:
        guard += 1
        t = r.choice(TEXTS[r.choice(classes)])
        if t not in ts:
            ts.append(t)
    r.shuffle(ts)
    return ts


def plan(r, spec, tier):
    """per option of the backend: the texts, the single-source runs and the multi-source runs.
    Returns a list of {'dest', 'kind': 'synth-uniform'|'synth-precedence', 'texts': {source: text}}"""
    quick = tier == 'quick'
    out = []
    for o in spec['options']:
        ts = pick_texts(r, 4)
        for t in ts:
            for s in SRCS:
                out.append({'dest': o['name'], 'kind': 'synth-uniform', 'texts': {s: t}})
        subsets = [SRCS, SRCS[1:], SRCS[2:], ('cli', r.choice(SRCS[1:]))]
        if not quick:
            subsets = [tuple(s for i, s in enumerate(SRCS) if m >> i & 1) for m in range(16)]
            subsets = [s for s in subsets if len(s) >= 2]
        for sub in subsets:
            perm = list(ts)
            r.shuffle(perm)
            out.append({'dest': o['name'], 'kind': 'synth-precedence', 'texts': {s: perm[i] for i, s in enumerate(sub)}})
    return out


# ------------------------------------------------------------------------------------------------ the metamorphic oracle
def observed(case, res):
    """what the backend constructor received for the option in focus: ('ok', typed value | 'not passed') or ('failed', how)"""
    dest = case['focus'][1]
    if res.get('outcome') == 'ok':
        ctor = res['handler']['ctor']
        if 'kwargs' not in ctor:
            return ('failed', 'constructor not called: ' + str(ctor.get('ctor_exc'))[:80])
        return ('ok', ctor['kwargs'].get(dest, 'not passed'))
    if res.get('outcome') == 'exit':
        return ('failed', f"exit {res.get('exit_code')}")
    return ('failed', res.get('exc') or res.get('outcome'))


def show(o):
    if o[0] != 'ok':
        return f'run ended with {o[1]}'
    v = o[1]
    return v if isinstance(v, str) else f"{v.get('t')} {json.dumps(v.get('v'), ensure_ascii=False)}"


def d15_pattern(text, a, b, once, guess_tv):
    """`a` is what the text gives when coerced once, `b` is guess_type of that again (and they differ): the known double
    coercion of file / environment / default values — D15, reported by the per-case oracle under its own signature"""
    if a[0] != 'ok' or b[0] != 'ok' or not isinstance(a[1], dict) or a[1].get('t') != 'str':
        return False
    if a[1] != once(text):
        return False
    return b[1] == guess_tv(a[1]['v'])


def judge_groups(out, pairs, once, guess_tv, slim_case):
    """pairs: [(case, result)] of the synthetic families.  `once(text)` = typed value of the documented single coercion (the
    reference), `guess_tv(str)` = typed value the REAL guess_type gives — both only used to recognise the D15 pattern."""
    single = {}      # (backend, dest, text) → {source: (case, obs)}
    for c, res in pairs:
        if c['kind'] != 'synth-uniform':
            continue
        (src, text), = c['synth_texts'].items()
        single.setdefault((c['backend'], c['focus'][1], text), {})[src] = (c, observed(c, res), res)
    for (backend, dest, text), by_src in sorted(single.items()):
        out.count('synth:uniform-groups')
        out.evaluations += 1
        srcs = [s for s in SRCS if s in by_src]
        ref_src = srcs[0]
        ok = True
        for s in srcs[1:]:
            a, b = by_src[ref_src][1], by_src[s][1]
            if a == b:
                continue
            if ref_src == 'cli' and d15_pattern(text, a, b, once, guess_tv):
                out.count('synth:uniform-D15-pattern')
                continue
            ok = False
            ca, cb = by_src[ref_src][0], by_src[s][0]
            ann = ca.get('synth_option', {}).get('ann')
            out.violation(f'options:backend:coercion-depends-on-source:{ref_src}-vs-{s}',
                          f"custom backend {backend!r} (module found through the namespace package), option {dest!r} declared with "
                          f"annotation {ann!r}: the raw text {text!r} gives the backend constructor {show(a)} when it comes from "
                          f"{ref_src} ({' '.join(map(str, ca['argv'][-4:]))}) but {show(b)} when it comes from {s}",
                          {'case': slim_case(ca), 'sibling': slim_case(cb), 'text': text, 'option': ca.get('synth_option'),
                           'received': {ref_src: a, s: b}, 'observed': by_src[ref_src][2], 'observed_sibling': by_src[s][2]})
            break
        if ok:
            out.count('synth:uniform-groups-agree')
    for c, res in pairs:
        if c['kind'] != 'synth-precedence':
            continue
        out.evaluations += 1
        top = next(s for s in SRCS if s in c['synth_texts'])
        text = c['synth_texts'][top]
        alone = single.get((c['backend'], c['focus'][1], text), {}).get(top)
        if alone is None:
            continue
        got = observed(c, res)
        out.count('synth:precedence-cases')
        if got != alone[1]:
            out.violation(f'options:backend:custom-precedence:{top}-expected',
                          f"custom backend {c['backend']!r}, option {c['focus'][1]!r}: sources {c['synth_texts']} are set; the highest "
                          f"one is {top} and gives {show(alone[1])} on its own, but the backend constructor received {show(got)}",
                          {'case': slim_case(c), 'sibling': slim_case(alone[0]), 'option': c.get('synth_option'),
                           'received': {'together': got, top + ' alone': alone[1]}, 'observed': res})
        else:
            out.count('synth:precedence-agree')
