"""C17 — runs the REAL `Repository.init` / `unlock` / `snapshot` / `restore` / `add_key` on a dict backend.

Everything here executes replicat's own code (imported from common.REPO); the only stand-in is the backend, a
~30-line dict that records every mutation so that "backend untouched" is observable.
"""
import asyncio
import contextlib
import copy
import io
import os
import shutil
import sys
from pathlib import Path


class MemoryBackend:
    """dict-backed object store (sync methods; Repository runs them in its executor).  Not derived from
    replicat.backends.base.Backend on purpose: Repository only calls the methods."""

    def __init__(self):
        self.objects = {}
        self.mutations = []     # ('put'|'del', name)

    def exists(self, name):
        return name in self.objects

    def upload(self, name, data):
        self.mutations.append(('put', name))
        self.objects[name] = bytes(data)

    def upload_stream(self, name, stream, length, chunk_size=128_000):
        buf = bytearray()
        while True:
            piece = stream.read(chunk_size)
            if not piece:
                break
            buf += piece
        self.mutations.append(('put', name))
        self.objects[name] = bytes(buf)

    def download(self, name):
        return self.objects[name]

    def download_stream(self, name, stream, chunk_size=128_000):
        data = self.objects[name]
        stream.truncate(len(data))
        stream.write(data)

    def list_files(self, prefix=''):
        return sorted(n for n in self.objects if n.startswith(prefix))

    def delete(self, name):
        self.mutations.append(('del', name))
        self.objects.pop(name, None)

    def clean(self):
        pass

    def close(self):
        pass


@contextlib.contextmanager
def quiet():
    """init/add_key print the config and the key to stdout and status lines to stderr."""
    so, se = sys.stdout, sys.stderr
    sys.stdout, sys.stderr = io.StringIO(), io.StringIO()
    try:
        yield
    finally:
        sys.stdout, sys.stderr = so, se


def error_class(e):
    """Small error enum (DESIGN Appendix A)."""
    from replicat import exceptions
    if isinstance(e, exceptions.DecryptionError):
        return 'decryption_error'
    if isinstance(e, exceptions.ReplicatError):
        return 'replicat_error'
    if isinstance(e, LookupError) and not isinstance(e, KeyError):
        return 'lookup_error'
    if isinstance(e, KeyError):
        return 'key_error'
    if isinstance(e, (TypeError, ValueError, OverflowError)):
        return 'type_or_value_error'
    if isinstance(e, AttributeError):
        return 'attribute_error'
    if isinstance(e, OSError):
        return 'os_error'
    return 'other(%s)' % type(e).__name__


def new_repo(backend, concurrent=2):
    from replicat.repository import Repository
    return Repository(backend, concurrent=concurrent, quiet=True, cache_directory=None)


def _shutdown(repo):
    ex = repo.__dict__.get('_default_backend_executor')
    if ex is not None:
        ex.shutdown(wait=False)


def run_init(settings, password):
    """Real `Repository.init` on a fresh MemoryBackend.  Returns dict(accepted, error, error_repr, backend, key, config)."""
    backend = MemoryBackend()
    repo = new_repo(backend)
    res = {'backend': backend, 'key': None, 'config': None}
    try:
        with quiet():
            r = asyncio.run(repo.init(password=password, settings=copy.deepcopy(settings)))
        res.update(accepted=True, error=None, error_repr=None, key=r.key, config=r.config)
    except Exception as e:  # noqa: BLE001 — every way of refusing counts as a rejection
        res.update(accepted=False, error=error_class(e), error_repr=repr(e)[:200])
    return res


def make_tree(root, files):
    root = Path(root)
    for rel, data in files.items():
        p = root / rel
        p.parent.mkdir(parents=True, exist_ok=True)
        p.write_bytes(data)
    return root


def roundtrip(backend, key, password, files, scratch):
    """A FRESH Repository object unlocks from the stored config + serialized key only, snapshots `files`, a second fresh
    object restores.  Returns dict(ok, stage, error, error_repr, detail)."""
    from replicat.repository import Repository  # noqa: F401
    scratch = Path(scratch)
    src = scratch / 'src'
    dst = scratch / 'dst'
    for d in (src, dst):
        if d.exists():
            shutil.rmtree(d)
        d.mkdir(parents=True)
    make_tree(src, files)
    stage = 'unlock'
    try:
        ser_key = None
        if key is not None:
            ser_key = new_repo(backend).serialize(key)   # what a user would have in the key file
        st = ['unlock']

        async def snap():
            repo = new_repo(backend)
            try:
                await repo.unlock(password=password, key=ser_key)
                st[0] = 'snapshot'
                await repo.snapshot(paths=[src])
            finally:
                _shutdown(repo)

        async def rest():
            repo2 = new_repo(backend)
            try:
                await repo2.unlock(password=password, key=ser_key)
                st[0] = 'restore'
                await repo2.restore(path=dst)
            finally:
                _shutdown(repo2)

        try:
            with quiet():
                asyncio.run(snap())
            st[0] = 'unlock2'
            with quiet():
                asyncio.run(rest())
        finally:
            stage = st[0]
        stage = 'compare'
        base = dst.joinpath(*src.resolve().parts[1:])
        missing, differ = [], []
        for rel, data in files.items():
            p = base / rel
            if not p.exists():
                missing.append(rel)
            elif p.read_bytes() != data:
                differ.append(rel)
        extra = []
        if base.exists():
            have = {str(p.relative_to(base)) for p in base.rglob('*') if p.is_file()}
            extra = sorted(have - set(files))
        if missing or differ or extra:
            return {'ok': False, 'stage': 'compare', 'error': 'tree_differs', 'error_repr': f'missing={missing} differ={differ} extra={extra}',
                    'detail': {'missing': missing, 'differ': differ, 'extra': extra}}
        return {'ok': True, 'stage': 'done', 'error': None, 'error_repr': None, 'detail': None}
    except Exception as e:  # noqa: BLE001
        return {'ok': False, 'stage': stage, 'error': error_class(e), 'error_repr': repr(e)[:200], 'detail': None}


def try_unlock(backend, key, password):
    """Fresh Repository; returns (ok, error_class, private dict or None)."""
    try:
        repo = new_repo(backend)
        ser = repo.serialize(key) if not isinstance(key, (bytes, str)) else key
        with quiet():
            asyncio.run(repo.unlock(password=password, key=ser))
        return True, None, repo.props.private
    except Exception as e:  # noqa: BLE001
        return False, error_class(e), None


def run_add_key(backend, *, unlock_with, new_password, settings, shared):
    """Real add_key.  unlock_with = (key, password) or None (not unlocked: add_key loads the config itself).
    Returns dict(ok, key, error, error_repr, mutations)."""
    n_mut = len(backend.mutations)
    try:
        repo = new_repo(backend)
        with quiet():
            if unlock_with is not None:
                k, pw = unlock_with
                asyncio.run(repo.unlock(password=pw, key=repo.serialize(k)))
            r = asyncio.run(repo.add_key(password=new_password, settings=copy.deepcopy(settings), shared=shared))
        return {'ok': True, 'key': r.new_key, 'error': None, 'error_repr': None, 'mutations': backend.mutations[n_mut:]}
    except Exception as e:  # noqa: BLE001
        return {'ok': False, 'key': None, 'error': error_class(e), 'error_repr': repr(e)[:200], 'mutations': backend.mutations[n_mut:]}
