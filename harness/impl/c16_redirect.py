"""C16 — replies beyond 2xx / 4xx / 5xx that can make the HTTP client emit follow-up requests BY ITSELF.

A service (S3 itself for a fresh / other-region bucket: `307 TemporaryRedirect`, `301 PermanentRedirect`; a gateway or load
balancer in front of an S3-compatible store: 301/302/303/307/308, plain http → https upgrades) may answer a correctly signed
request with a redirect.  An HTTP library that follows it builds the next request from the headers of the old one: the
`Authorization` computed for the old host / path / method travels along (same origin) or is dropped (other origin), nothing is
signed again.  C16 speaks about every request on the wire, so the fake endpoint of `s3_capture` is scripted with such replies and
EVERY request that reaches ANY endpoint behind the fake connection (whatever host it is addressed to, whoever built it) is
recorded and judged by the independent verifier for the endpoint it was sent to.

A reply-plan entry (in the `faults` list of a call, next to the 'status' / 'transport' entries of `s3_capture`):

  {'kind': 'redirect', 'status': 301|302|303|307|308, 'target': <class in TARGETS>, 'pulled': None|k}
  {'kind': 'odd', 'status': <1xx | 300 | 304 | 305 | 306 | a redirect status WITHOUT Location>, 'location': bool, 'pulled': None|k}

The `Location` of a redirect is derived from the request that is being answered (`resolve`), deterministically, from components
(scheme, host, port, raw path, raw query) — so the harness knows what the target is without parsing anything — and is recorded
with the captured request (`fault['resolved']`).  Paths are changed only by appending unreserved characters to the first
segment, so no HTTP library has a reason to re-encode or normalise them.
"""
REDIRECT_STATUSES = (301, 302, 303, 307, 308)          # `httpx.Response.has_redirect_location` needs one of these + Location
ODD_STATUSES = (100, 101, 102, 103, 300, 304, 305, 306)  # outside 2xx, not 4xx / 5xx, never a followable redirect
TARGETS = ('same-origin-other-path', 'relative-other-path', 'same-origin-query-added', 'same-url', 'other-host',
           'other-region-endpoint', 'other-port', 'scheme-upgrade', 'scheme-downgrade')
OTHER_HOSTS = ('s3-alt.example.net', 'bucket.vhost.example.org', 'gw2.internal:9443')
OTHER_REGIONS = ('eu-north-1', 'us-west-2', 'ap-northeast-3')
DEFAULT_PORT = {'http': 80, 'https': 443}


def split_netloc(netloc):
    """'host', 'host:port', '[v6]:port' → (host part as written, port or None)"""
    h, sep, p = netloc.rpartition(':')
    if sep and p.isdigit() and not h.endswith(':') and (not h.startswith('[') or h.endswith(']')):
        return h, int(p)
    return netloc, None


def netloc_of(scheme, hostpart, port):
    """what an endpoint sees in `Host`: lower-case host, the port unless it is the scheme's default"""
    hostpart = hostpart.lower()
    return hostpart if (port is None or port == DEFAULT_PORT.get(scheme)) else f'{hostpart}:{port}'


def same_origin(a, b):
    """(scheme, hostpart, port) triples; RFC 6454"""
    return (a[0] == b[0] and a[1].lower() == b[1].lower()
            and (a[2] or DEFAULT_PORT.get(a[0])) == (b[2] or DEFAULT_PORT.get(b[0])))


def https_upgrade(a, b):
    """request origin a → target b is a plain http → https upgrade on the default ports of one host"""
    return (a[1].lower() == b[1].lower() and a[0] == 'http' and (a[2] or 80) == 80 and b[0] == 'https' and (b[2] or 443) == 443)


def _moved(raw_path):
    """another path on the same service: the first segment gets a suffix of unreserved characters"""
    first, sep, rest = raw_path[1:].partition('/')
    return '/' + first + '-moved' + sep + rest


def resolve(entry, scheme, netloc, raw_target, region, nth=0):
    """The redirect `entry` answered to a request for `scheme://netloc raw_target` at an endpoint of `region`.
    Returns {'location': header value, 'scheme', 'netloc' (of the target, as its endpoint sees it), 'path', 'query' (raw pieces),
    'same_origin', 'https_upgrade', 'region' (of the target endpoint), 'class'}."""
    hostpart, port = split_netloc(netloc)
    raw_path, q, raw_query = raw_target.partition('?')
    cls = entry['target']
    t_scheme, t_host, t_port, t_path, t_query, t_region, form = scheme, hostpart, port, raw_path, raw_query, region, 'absolute'
    if cls == 'scheme-upgrade' and scheme != 'http':
        cls = 'scheme-downgrade'
    elif cls == 'scheme-downgrade' and scheme != 'https':
        cls = 'scheme-upgrade'
    if cls == 'same-origin-other-path':
        t_path = _moved(raw_path)
    elif cls == 'relative-other-path':
        t_path, form = _moved(raw_path), 'absolute-path'
    elif cls == 'same-origin-query-added':
        t_query = (raw_query + '&' if raw_query else '') + 'x-redirected=1'
    elif cls == 'same-url':
        pass
    elif cls == 'other-host':
        t_host, t_port = split_netloc(OTHER_HOSTS[(nth + len(raw_path)) % len(OTHER_HOSTS)])
        if same_origin((scheme, hostpart, port), (t_scheme, t_host, t_port)):
            t_host = 'x-' + t_host
    elif cls == 'other-region-endpoint':
        t_region = next(x for x in OTHER_REGIONS[nth % len(OTHER_REGIONS):] + OTHER_REGIONS if x != region)
        t_host = hostpart.replace(region, t_region) if (region and region in hostpart) else f's3.{t_region}.example.com'
        t_port = port if (region and region in hostpart) else None
    elif cls == 'other-port':
        t_port = 9001 if (port or DEFAULT_PORT.get(scheme)) != 9001 else 9002
    elif cls == 'scheme-upgrade':          # http → https; a plain upgrade only when both sides use their default ports
        t_scheme = 'https'
        t_port = None if (port or 80) == 80 else port
    elif cls == 'scheme-downgrade':
        t_scheme = 'http'
        t_port = None if (port or 443) == 443 else port
    else:
        raise ValueError(cls)
    t_target = t_path + ('?' + t_query if t_query else '')
    t_netloc_written = t_host if t_port is None else f'{t_host}:{t_port}'
    location = t_target if form == 'absolute-path' else f'{t_scheme}://{t_netloc_written}{t_target}'
    a, b = (scheme, hostpart, port), (t_scheme, t_host, t_port)
    pieces = []
    for piece in t_query.split('&'):
        if piece:
            n, _, v = piece.partition('=')
            pieces.append([n, v])
    return {'class': cls, 'location': location, 'scheme': t_scheme, 'netloc': netloc_of(t_scheme, t_host, t_port), 'path': t_path, 'target': t_target,
            'query': pieces, 'same_origin': same_origin(a, b), 'https_upgrade': https_upgrade(a, b), 'region': t_region}


def gen_reply(r, point):
    """one entry of a reply plan beyond error statuses and transport failures; `point()` draws where in the body it strikes"""
    if r.random() < 0.7:
        return {'kind': 'redirect', 'status': r.choices(REDIRECT_STATUSES, [20, 15, 10, 40, 15])[0], 'target': r.choice(TARGETS),
                'pulled': None if r.random() < 0.6 else point()}
    st = r.choice(ODD_STATUSES + REDIRECT_STATUSES)
    return {'kind': 'odd', 'status': st, 'location': st not in REDIRECT_STATUSES and r.random() < 0.5,
            'pulled': None if r.random() < 0.7 else point()}


def model_reply(entry):
    """the entry in the vocabulary of the Lean model (`Reply`): error status / transport failure / redirect / other non-2xx"""
    hx = lambda s: s.encode('latin-1').hex()          # noqa: E731
    if entry is None:
        return {'k': 'answer'}
    if entry['kind'] == 'status':
        return {'k': 'fail', 'cls': 0}
    if entry['kind'] == 'transport':
        return {'k': 'fail', 'cls': 1}
    if entry['kind'] == 'redirect' and entry.get('resolved'):
        z = entry['resolved']
        return {'k': 'redirect', 'status': entry['status'], 'same_origin': z['same_origin'], 'https_upgrade': z['https_upgrade'],
                'host': hx(z['netloc']), 'path': hx(z['path']), 'query': [[hx(n), hx(v)] for n, v in z['query']]}
    return {'k': 'odd'}          # also: a redirect entry no request ever reached (its Location was never derived)


def label(entry):
    if entry['kind'] == 'status':
        return 'HTTP %d' % entry['status']
    if entry['kind'] == 'transport':
        return 'httpx.' + entry['exc']
    if entry['kind'] == 'redirect':
        z = entry.get('resolved') or {}
        return 'HTTP %d redirect (%s) to %s' % (entry['status'], z.get('class', entry['target']), z.get('location', '?'))
    return 'HTTP %d%s' % (entry['status'], ' with a Location header' if entry.get('location') else '')
