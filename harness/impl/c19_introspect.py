"""Runtime introspection of replicat's argparse parsers and config classes (C19).

Run as a script in a THROW-AWAY process (it calls `set_defaults`, which mutates the shared module-level actions):

    /venv/bin/python harness/impl/c19_introspect.py <repo> <dir with the custom backend> [more sys.path dirs …]

Prints one JSON object: the actions of `cli.initial_parser`, `cli.common_options_parser`, of the per-backend parsers
(`cli.parser_for_backend`) for local/s3/s3c/b2 and the custom backends `vfy` / `vfa` (+ those named in the environment
variable C19_EXTRA_BACKENDS), and of every sub-command of
`cli.make_main_parser`; mutual-exclusion groups; `Config` fields; per sub-command whether `set_defaults(**defaults)`
reached the sub-parser and whether all parent actions are present.

Used by tools/sections/19_options.py (→ `Replicat.Gen`) and by harness/props/c19.py (case generation), so both look
at the parsers that the current working tree of replicat really builds.
"""
import json
import os
import sys

sys.path.insert(0, os.path.dirname(os.path.abspath(__file__)))
from c19_child import tv  # noqa: E402


def tyname(f):
    if f is None:
        return None
    mod = getattr(f, '__module__', None) or ''
    qn = getattr(f, '__qualname__', None) or getattr(f, '__name__', None) or repr(f)
    return f'{mod}.{qn}'


def main():
    repo, *extra = sys.argv[1:]
    sys.path[:0] = [*extra, repo]
    import argparse
    import dataclasses
    import inspect
    from replicat import utils
    from replicat.utils import cli, config

    def default_kind(d):
        if d is None:
            return 'none'
        if d is argparse.SUPPRESS:
            return 'suppress'
        if isinstance(d, str):
            return 'str'
        return 'other'

    def dump_action(a, groups):
        g = None
        for grp in groups:
            if any(x is a for x in grp._group_actions):
                g = sorted((x.option_strings or [x.dest])[0] for x in grp._group_actions)
        return {
            'dest': a.dest, 'flags': list(a.option_strings), 'cls': type(a).__name__,
            'type': tyname(a.type), 'default_kind': default_kind(a.default),
            'default_repr': repr(a.default), 'default_type': type(a.default).__name__,
            'default_tv': None if a.default is argparse.SUPPRESS else tv(a.default),
            'nargs': a.nargs, 'const_repr': repr(a.const), 'group': g, 'required': bool(a.required),
        }

    out = {}
    ip, cp = cli.initial_parser, cli.common_options_parser
    out['initial'] = [dump_action(a, ip._mutually_exclusive_groups) for a in ip._actions]
    out['common'] = [dump_action(a, cp._mutually_exclusive_groups) for a in cp._actions]
    out['default_config_path'] = str(config.DEFAULT_CONFIG_PATH)
    out['cwd'] = os.getcwd()
    out['config_fields'] = [
        {'name': f.name, 'default_kind': default_kind(f.default), 'default_repr': repr(f.default),
         'default_type': type(f.default).__name__, 'default_tv': tv(f.default)}
        for f in dataclasses.fields(config.Config)]

    backends = {}
    backend_types = {}
    # `vfa` = the annotated probe (harness/impl/c19_backend); C19_EXTRA_BACKENDS = names of further custom backends on
    # sys.path (the synthetic ones the harness generates; never set by the extractor)
    extra_backends = [x for x in os.environ.get('C19_EXTRA_BACKENDS', '').split(',') if x]
    for b in ('local', 's3', 's3c', 'b2', 'vfy', 'vfa', *extra_backends):
        try:
            bt, _ = utils.load_backend(b, 'x')
        except BaseException as e:  # noqa: BLE001
            backends[b] = {'error': repr(e)}
            continue
        backend_types[b] = bt
        bp = cli.parser_for_backend(bt)
        missing = object()
        bcfg_type = config.config_for_backend(bt, missing=missing)
        bcfg = bcfg_type()
        kwonly = [n for n, p in inspect.signature(bt).parameters.items() if p.kind is p.KEYWORD_ONLY]
        annotations = {n: (None if p.annotation is p.empty else
                           (repr(p.annotation) if isinstance(p.annotation, str) else getattr(p.annotation, '__name__', None) or repr(p.annotation)))
                       for n, p in inspect.signature(bt).parameters.items()}
        fields = []
        for f in dataclasses.fields(bcfg):
            d = getattr(bcfg, f.name)
            acts = [a for a in bp._actions if a.dest == f.name]
            fields.append({
                'name': f.name, 'env': config.backend_env_option(bt, f.name),
                'file_key': f.name.replace('_', '-'),
                'has_default': d is not missing,
                'default_kind': 'missing' if d is missing else default_kind(d),
                'default_repr': None if d is missing else repr(d),
                'default_type': None if d is missing else type(d).__name__,
                'default_tv': tv(d, missing),
                'annotation': annotations.get(f.name),
                'actions': [dump_action(a, bp._mutually_exclusive_groups) for a in acts],
            })
        backends[b] = {'short_name': bt.short_name, 'module': bt.__module__, 'kwonly': kwonly, 'fields': fields,
                       'class_name': bt.__name__, 'mro': [c.__module__.rsplit('.', 1)[-1] + ':' + c.__name__ for c in bt.__mro__[:-1]],
                       'other_actions': [dump_action(a, bp._mutually_exclusive_groups) for a in bp._actions
                                         if a.dest not in kwonly]}
    out['backends'] = backends

    # ---- sub-commands (with the custom backend's parser as third parent, as main() would for `-r vfy:…`)
    bt = backend_types.get('vfy') or backend_types.get('local')
    bp = cli.parser_for_backend(bt)
    mp = cli.make_main_parser(ip, cp, bp, defaults={})
    sub = [a for a in mp._actions if isinstance(a, argparse._SubParsersAction)]
    out['top'] = [dump_action(a, mp._mutually_exclusive_groups) for a in mp._actions if not isinstance(a, argparse._SubParsersAction)]
    out['subparsers_dest'] = sub[0].dest if sub else None
    out['subparsers_required'] = bool(sub[0].required) if sub else None
    commands = []
    parent_actions = list(ip._actions) + list(cp._actions) + list(bp._actions)
    seen_parsers = {}
    for name, sp in (sub[0].choices.items() if sub else []):
        if id(sp) in seen_parsers:
            seen_parsers[id(sp)]['aliases'].append(name)
            continue
        spec = [a for a in sp._actions if not any(a is p for p in parent_actions) and not isinstance(a, argparse._HelpAction)]
        groups = [sorted((x.option_strings or [x.dest])[0] for x in g._group_actions) for g in sp._mutually_exclusive_groups]
        pg = [sorted((x.option_strings or [x.dest])[0] for x in g._group_actions)
              for p in (ip, cp, bp) for g in p._mutually_exclusive_groups]
        c = {'name': name, 'aliases': [],
             'parents': all(any(a is p for a in sp._actions) for p in parent_actions),
             'parent_groups_kept': all(g in groups for g in pg),
             'groups': groups,
             'specific': [dump_action(a, sp._mutually_exclusive_groups) for a in spec]}
        seen_parsers[id(sp)] = c
        commands.append(c)
    # ---- does set_defaults(**defaults) reach every sub-parser?  (mutates the shared actions: done last)
    probe = {f['name']: object() for f in out['config_fields']}
    probe.update({f['name']: object() for f in backends.get('vfy', {}).get('fields', [])})
    mp2 = cli.make_main_parser(ip, cp, bp, defaults=probe)
    sub2 = [a for a in mp2._actions if isinstance(a, argparse._SubParsersAction)]
    for c in commands:
        sp = sub2[0].choices.get(c['name']) if sub2 else None
        ok = sp is not None
        if ok:
            for k, v in probe.items():
                if sp._defaults.get(k) is not v:
                    ok = False
                for a in sp._actions:
                    if a.dest == k and a.default is not v:
                        ok = False
        c['set_defaults'] = ok
    out['commands'] = commands
    json.dump(out, sys.stdout)


if __name__ == '__main__':
    main()
