"""C01 helper: CONTENT CLASSES × WHAT ALREADY EXISTS AT THE RESTORE TARGET.

`restore_file_exact` holds for every content of the parts and every old content of the target.  Code can only treat a part
specially by looking at its bytes (all zeros, one repeated byte, a period) and by comparing its LENGTH with some integer — and
whether that matters shows only where the target already holds different bytes in that range.  So the generator takes

* the lengths from the source: every integer constant of `replicat/repository.py` (as `c11_blocks.py_constants` reads them:
  literals, module / class constants, folded constant expressions) plus the sizes a platform hands out (sector, page,
  `io.DEFAULT_BUFFER_SIZE`, 64 KiB) — runs / parts just below, at, just above, twice and several times each constant.  A new
  threshold constant in repository.py is picked up on the next run without touching the harness;
* the contents from the classes a writer could single out: zeros, 0xFF, one random byte, periodic data, sparse-looking files
  (zeros with small islands of data), random data, and files built of such runs between data;
* the chunk layout so that parts of exactly those lengths reach `_write_file_part`: the whole tree in ONE chunk (every file is one
  part of its exact size), or min/max around the constant (a constant run is cut at min — C10 — so the parts inside a run have
  that length);
* the target from: absent, all-ones / all-zeros / byte-wise inverted / random files that are equally long, longer, or shorter but
  overlapping, and an identical file;
* every concurrency, both backend flavours and the byte of the case's CORE file (a file that is exactly one run, at least as
  long as the constant, over a target that differs there — the class itself, present in every case) by index, not by chance.

Everything is a small RECIPE (numbers), so a failing case is stored in the replay file as such and rebuilt bit for bit.
Standard library only; `c11_blocks` is loaded for the constant reader.
"""
import io
import mmap
import random
from pathlib import Path

from . import c11_blocks

SOURCE = 'replicat/repository.py'
MIN_CONSTANT = 8                    # below that a "run" is not distinguishable from data
QUICK_BUDGET = 1 << 21              # largest constant explored in the quick tier (files are a few times the constant)
THOROUGH_BUDGET = 1 << 25
CONCURRENCY = [1, 2, 3, 5, 8]
RUN_STYLES = ['zeros', 'zeros', 'ones', 'byte', 'periodic', 'sparse']
LAYOUTS = ['one-chunk', 'one-chunk', 'min=c', 'min<c=max', 'min=c+1', 'min=c-1']
PRE_FILL = ['ones', 'ones', 'inverted', 'zeros', 'random']
PRE_LEN = ['equal', 'equal', 'longer', 'shorter', 'shorter-by-1']


def platform_sizes():
    return {512: 'platform:sector', mmap.PAGESIZE: 'platform:page', io.DEFAULT_BUFFER_SIZE: 'platform:io.DEFAULT_BUFFER_SIZE', 65536: 'platform:64KiB'}


def thresholds(repo, tier):
    """-> (used [{'value', 'where'}] ascending, skipped [{'value', 'why'}])"""
    budget = QUICK_BUDGET if tier == 'quick' else THOROUGH_BUDGET
    merged = {}
    p = Path(repo) / SOURCE
    if p.exists():
        for v, w in c11_blocks.py_constants(p).items():
            merged.setdefault(v, []).extend(w)
    for v, w in platform_sizes().items():
        merged.setdefault(v, []).append(w)
    used, skipped = [], []
    for v in sorted(merged):
        if v < MIN_CONSTANT:
            continue
        if v > budget:
            skipped.append({'value': v, 'why': f'above the {tier} budget {budget}'})
            continue
        used.append({'value': v, 'where': sorted(set(merged[v]))[:4]})
    return used, skipped


# ------------------------------------------------------------------------------------------------ recipes -> bytes
def make_segment(seg):
    style, n, seed = seg
    if n <= 0:
        return b''
    rr = random.Random(seed)
    if style == 'zeros':
        return bytes(n)
    if style == 'ones':
        return b'\xff' * n
    if style == 'byte':
        return bytes([rr.randrange(1, 255)]) * n
    if style == 'periodic':
        blk = rr.randbytes(rr.choice([2, 3, 4, 7, 16, 64]))
        return (blk * (n // len(blk) + 1))[:n]
    if style == 'sparse':            # zeros with a few one- to eight-byte islands of data
        out = bytearray(n)
        for _ in range(rr.choice([1, 2, 3])):
            k = rr.randrange(0, n)
            isl = rr.randbytes(rr.choice([1, 2, 8]))
            out[k:k + len(isl)] = isl[:n - k]
        return bytes(out)
    if style == 'random':
        return rr.randbytes(n)
    raise ValueError(style)


def make_file(segs):
    return b''.join(make_segment(s) for s in segs)


_INV = bytes(b ^ 0xFF for b in range(256))


def make_pre(pre, data):
    """pre = None | ('same',) | (fill, length, seed)"""
    if pre is None:
        return None
    if pre[0] == 'same':
        return bytes(data)
    fill, n, seed = pre
    if fill == 'ones':
        return b'\xff' * n
    if fill == 'zeros':
        return bytes(n)
    if fill == 'random':
        return random.Random(seed).randbytes(n)
    if fill == 'inverted':
        inv = data.translate(_INV)
        return (inv + b'\xa5' * max(0, n - len(inv)))[:n]
    raise ValueError(fill)


# ------------------------------------------------------------------------------------------------ the case
def run_lengths(r, c, align=4):
    a = max(1, align)
    return {'below': max(1, c - r.choice([1, 1, a, a + 1])), 'at': c, 'above': c + r.choice([1, 1, a, 2 * a]), 'twice': 2 * c + r.choice([0, 1, a]),
            'several': r.randint(3, 5) * c + r.randint(0, c)}


BIG = 1 << 18            # constants above it: at most two files per case and no run of several times the constant (memory / time)


def gen_file(r, c, align=4):
    """-> (segments, shape label, run class label, run style)"""
    lens = run_lengths(r, c, align)
    cls = r.choice(['below', 'at', 'at', 'above', 'above', 'twice'] + ([] if c > BIG else ['several']))
    L = lens[cls]
    style = r.choice(RUN_STYLES)
    sd = r.randrange(1 << 30)

    def data():
        return ('random', r.choice([1, 3, 17, max(1, c // 3 + 1), max(1, c - 1), c, c + 5]), r.randrange(1 << 30))
    shape = r.choice(['run', 'run', 'data+run', 'run+data', 'data+run+data', 'two-runs'])
    run = (style, L, sd)
    if shape == 'run':
        segs = [run]
    elif shape == 'data+run':
        segs = [data(), run]
    elif shape == 'run+data':
        segs = [run, data()]
    elif shape == 'data+run+data':
        segs = [data(), run, data()]
    else:
        other = r.choice([s for s in ('zeros', 'ones', 'byte') if s != style] or ['ones'])
        segs = [run, (other, lens[r.choice(['below', 'at', 'above'])], r.randrange(1 << 30))]
    return [list(s) for s in segs], shape, cls, style


def gen_pre(r, n, c):
    """what is at the target path before the restore, for a file of n bytes"""
    k = r.random()
    if k < 0.12:
        return None, 'absent'
    if k < 0.18:
        return ['same'], 'same'
    fill = r.choice(PRE_FILL)
    lc = r.choice(PRE_LEN)
    if lc == 'equal':
        m = n
    elif lc == 'longer':
        m = n + r.choice([1, 7, c, 2 * c + 3])
    elif lc == 'shorter-by-1':
        m = max(1, n - 1)
    else:
        m = max(1, n - r.choice([1, max(1, c // 2), max(1, n // 2), max(1, n // 4)]))
    return [fill, m, r.randrange(1 << 30)], f'{fill}/{lc}'


CORE_STYLES = ['zeros', 'ones', 'byte', 'zeros']      # period 4: co-prime with the 5 concurrency values and the 3 backend slots


def gen_core(r, c, style):
    """The class itself, once per case: a file that IS one run of one byte, at least as long as the constant, restored over a
    target that holds different bytes in (most of) that range."""
    cls = r.choice(['at', 'above', 'twice'])
    L = run_lengths(r, c)[cls]
    seed = r.randrange(1 << 30)
    fill = r.choice({'zeros': ['ones', 'ones', 'inverted', 'random'], 'ones': ['zeros', 'zeros', 'inverted', 'random']}.get(style, ['ones', 'zeros', 'inverted', 'random']))
    lc = r.choice(['equal', 'equal', 'longer', 'shorter-by-1', 'shorter'])
    m = {'equal': L, 'longer': L + r.choice([1, 7, c, 2 * c + 3]), 'shorter-by-1': max(1, L - 1), 'shorter': max(1, L - max(1, c // 2))}[lc]
    return {'name': f'f0_core_{style}.bin', 'segs': [[style, L, seed]], 'shape': 'run', 'run': cls, 'style': style,
            'pre': [fill, m, r.randrange(1 << 30)], 'pre_label': f'{fill}/{lc}', 'core': True}


def gen_case(r, slot, consts):
    """slot enumerates constant × concurrency × backend flavour × style of the core file deterministically; the rest is drawn from r"""
    ci, rest = slot % len(consts), slot // len(consts)
    c = consts[ci]['value']
    conc = CONCURRENCY[rest % len(CONCURRENCY)]
    is_async = (rest // len(CONCURRENCY)) % 3 == 2
    nfiles = r.choice([0, 0, 1] if c > BIG else [0, 0, 1, 2, 3])
    files = [gen_core(r, c, CORE_STYLES[rest % len(CORE_STYLES)])]
    for k in range(1, nfiles + 1):
        segs, shape, cls, style = gen_file(r, c)
        files.append({'name': f'f{k}_{style}.bin', 'segs': segs, 'shape': shape, 'run': cls, 'style': style})
    layout = r.choice(LAYOUTS)
    total = sum(sum(s[1] for s in f['segs']) for f in files) + 4 * len(files)
    if layout == 'one-chunk':
        mn = total + r.choice([1, 8, 61])
        mx = 2 * mn
    elif layout == 'min=c':
        mn, mx = c, 4 * c
    elif layout == 'min<c=max':
        mn, mx = max(1, c // 4), c
    elif layout == 'min=c+1':
        mn, mx = c + 1, 2 * c + 2
    else:
        mn, mx = max(1, c - 1), 4 * c
    for f in files:
        if 'pre' not in f:
            n = sum(s[1] for s in f['segs'])
            f['pre'], f['pre_label'] = gen_pre(r, n, c)
    return {'constant': c, 'where': consts[ci]['where'], 'concurrent': conc, 'async_backend': is_async, 'encrypted': r.random() < 0.3,
            'layout': layout, 'chunking': {'name': 'gclmulchunker', 'min_length': mn, 'max_length': mx}, 'files': files}


def first_difference(got, want):
    n = min(len(got), len(want))
    if got[:n] == want[:n]:
        return n
    lo, hi = 0, n
    while hi - lo > 1:                      # first differing offset by bisection on prefixes
        mid = (lo + hi) // 2
        if got[:mid] == want[:mid]:
            lo = mid
        else:
            hi = mid
    return lo


def describe_difference(got, want, old):
    """where the restored bytes differ and where the wrong bytes come from"""
    k = first_difference(got, want)
    n = min(len(got), len(want))
    j = k
    while j < n and got[j] != want[j]:
        j += 1
    from_old = old is not None and len(old) >= j and got[k:j] == old[k:j] and j > k
    return {'first_offset': k, 'differing_run': j - k, 'restored_length': len(got), 'expected_length': len(want),
            'wrong_bytes_are_the_old_content': bool(from_old), 'expected_at': want[k:k + 8].hex(), 'restored_at': got[k:k + 8].hex()}
