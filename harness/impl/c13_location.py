"""C13: every spelling of the repository LOCATION the README allows, per adapter.

* B2 (`-r b2:bucket-id` or `-r b2:bucket-name`): a generated account — our bucket with a generated name (the service's rules: 6…50
  characters from letters, digits and `-`) and a generated 24-hex-digit id, 0…3 further buckets reported before / after ours
  (decoys: a name that extends ours, a name that looks like an id, an id next to ours), a master key or a key restricted to our
  bucket — and the connection string spelled by NAME or by ID.  The fake service (`fake_b2.py`) does what the real one does: the
  `/file/<bucket>/…` URLs take the bucket's name only, the `bucketId` of the API calls its id only.
* S3 / S3-compatible (`-r s3:bucket-name`, `-r s3c:bucket-name` + `--host`, `--scheme`, `--region`): generated bucket names (dots,
  hyphens, leading digit, 3 and 63 characters), regions, and for S3-compatible every documented shape of the endpoint: host name,
  host:port, IPv4 / IPv6 literal with a port, deep sub-domain, `http` and `https` (the fake serves one scheme only).
* local (`-r some/local/path`, `-r local:…`): `localfs.SPELLINGS` (absolute / relative / `.` / `..` inside / trailing and doubled
  slashes / from a sibling or from inside the repository directory).

The same history must return the same values under every spelling; the oracle is the plain map, plus a direct comparison of two
spellings of one location (`*:location-spelling-dependence`).  Model side: `ReplicatModel/B2Location.lean`, `b2_location_spelling`.
"""
HEX = '0123456789abcdef'
ALNUM = 'abcdefghijklmnopqrstuvwxyz0123456789'

DEFAULT_B2 = {'by': 'name', 'bucket_name': 'bkt', 'bucket_id': '4a48fe8875c6214145260818', 'before': [['f00dfeed', 'other-bucket']], 'after': [],
              'restricted': False, 'name_class': 'default'}
DEFAULT_S3 = {'variant': 's3c', 'bucket': 'bkt', 'host': 'objects.fake-s3.test', 'scheme': 'https', 'region': 'eu-west-1', 'bucket_class': 'default',
              'host_class': 'default'}

B2_NAME_CLASSES = ['plain', 'min-length', 'max-length', 'hyphens', 'mixed-case', 'digits', 'looks-like-an-id']
S3_BUCKET_CLASSES = ['plain', 'dotted', 'hyphens', 'leading-digit', 'min-length', 'max-length']
S3_HOST_CLASSES = ['name', 'name:port', 'ipv4:port', 'ipv6:port', 'localhost:port', 'deep-subdomain', 'port-of-the-other-scheme']
REGIONS = ['eu-west-1', 'us-east-1', 'ap-southeast-2', 'us-gov-west-1', 'eu-central-003']


def _word(r, n, alphabet=ALNUM):
    return ''.join(r.choice(alphabet) for _ in range(n))


def gen_b2_bucket_name(r, cls=None):
    cls = cls or r.choice(B2_NAME_CLASSES)
    if cls == 'min-length':
        n = _word(r, 6)
    elif cls == 'max-length':
        n = _word(r, 50, ALNUM + '-')
    elif cls == 'hyphens':
        n = '-'.join(_word(r, r.randint(1, 5)) for _ in range(r.randint(3, 5)))
    elif cls == 'mixed-case':
        n = ''.join(c.upper() if r.random() < 0.5 else c for c in _word(r, r.randint(6, 14), 'abcdefghijklmnopqrstuvwxyz')) + 'Q'
    elif cls == 'digits':
        n = _word(r, r.randint(6, 12), '0123456789')
    elif cls == 'looks-like-an-id':
        n = _word(r, 24, HEX)
    else:
        n = _word(r, r.randint(3, 8), 'abcdefghijklmnopqrstuvwxyz') + '-' + _word(r, r.randint(2, 6))
    n = (n + 'xxxxxx')[:max(6, len(n))][:50]
    if n.lower().startswith('b2-') or n.startswith('-'):
        n = 'x' + n[1:]
    return cls, n


def gen_b2_location(r, by=None, restricted=None, name_class=None, position=None):
    """`position` = where `b2_list_buckets` reports our bucket: 'only' / 'first' / 'middle' / 'last' (None = generated)"""
    cls, name = gen_b2_bucket_name(r, name_class)
    bid = _word(r, 24, HEX)
    taken = {name, bid}

    def other():
        k = r.random()
        if k < 0.3:
            oname = (name + '-2')[:50] if len(name) <= 48 else name[:-2]          # a name that extends / is a prefix of ours
        elif k < 0.5:
            oname = _word(r, 24, HEX)                                            # a name that looks like an id
        else:
            oname = gen_b2_bucket_name(r)[1]
        oid = (bid[:-1] + r.choice([c for c in HEX if c != bid[-1]])) if r.random() < 0.4 else _word(r, 24, HEX)   # an id next to ours
        if oname in taken or oid in taken:
            return None
        taken.update((oname, oid))
        return [oid, oname]
    def some(lo):
        out = [b for b in (other() for _ in range(r.choice([0, 0, 1, 2]) if position is None else r.randint(lo, 2))) if b]
        while len(out) < lo:
            out += [b for b in [other()] if b]
        return out
    before = some(1 if position in ('middle', 'last') else 0) if position not in ('only', 'first') else []
    after = some(1 if position in ('middle', 'first') else 0) if position not in ('only', 'last') else []
    return {'by': by or r.choice(['name', 'id']), 'bucket_name': name, 'bucket_id': bid, 'before': before, 'after': after,
            'restricted': (r.random() < 0.3) if restricted is None else restricted, 'name_class': cls}


def b2_ident(loc):
    """the connection string of `-r b2:<…>`"""
    return loc['bucket_id'] if loc['by'] == 'id' else loc['bucket_name']


def b2_model_loc(loc):
    """the `loc` field of a `store.history` request (Driver/Store.lean `parseB2Loc`)"""
    return {'buckets': loc['before'] + [[loc['bucket_id'], loc['bucket_name']]] + loc['after'], 'own': len(loc['before']),
            'restricted': bool(loc['restricted']), 'ident': b2_ident(loc)}


def b2_other_spelling(r, loc):
    """the other documented spelling of the same bucket (and, half of the time, the other kind of key)"""
    return dict(loc, by='id' if loc['by'] == 'name' else 'name', restricted=loc['restricted'] if r.random() < 0.5 else not loc['restricted'])


def b2_label(loc):
    pos = 'only' if not loc['before'] and not loc['after'] else 'first' if not loc['before'] else 'last' if not loc['after'] else 'middle'
    return 'by-%s' % loc['by'], 'key:' + ('restricted' if loc['restricted'] else 'master'), 'listed:' + pos, 'bucket-name:' + loc['name_class']


def gen_s3_bucket(r, cls=None):
    cls = cls or r.choice(S3_BUCKET_CLASSES)
    low = 'abcdefghijklmnopqrstuvwxyz'
    if cls == 'dotted':
        n = '.'.join(_word(r, r.randint(1, 6), low) for _ in range(r.randint(2, 4)))
    elif cls == 'hyphens':
        n = '-'.join(_word(r, r.randint(1, 6)) for _ in range(r.randint(2, 4)))
    elif cls == 'leading-digit':
        n = r.choice('0123456789') + _word(r, r.randint(2, 9)) + r.choice(['', '-backups', '.2024'])
    elif cls == 'min-length':
        n = _word(r, 3)
    elif cls == 'max-length':
        n = _word(r, 1, low) + _word(r, 61, ALNUM + '-') + _word(r, 1, low)
    else:
        n = _word(r, r.randint(3, 12), low)
    return cls, n


def gen_s3_host(r, scheme, cls=None):
    cls = cls or r.choice(S3_HOST_CLASSES)
    name = _word(r, r.randint(2, 8), 'abcdefghijklmnopqrstuvwxyz') + r.choice(['.test', '.internal', '.example.com'])
    port = r.choice([9000, 8080, 8443, 3900, 10443])
    if cls == 'name:port':
        h = '%s:%d' % (name, port)
    elif cls == 'ipv4:port':
        h = '%d.%d.%d.%d:%d' % (r.choice([10, 127, 192]), r.randint(0, 255), r.randint(0, 255), r.randint(1, 254), port)
    elif cls == 'ipv6:port':
        h = '[%s]:%d' % (r.choice(['::1', 'fd00::7', '2001:db8::1:2']), port)
    elif cls == 'localhost:port':
        h = 'localhost:%d' % port
    elif cls == 'deep-subdomain':
        h = 's3.' + _word(r, 2, 'abcdefghijklmnopqrstuvwxyz') + '-' + _word(r, 4) + '.objects.' + name
    elif cls == 'port-of-the-other-scheme':
        h = '%s:%d' % (name, 80 if scheme == 'https' else 443)      # NOT the default port of the scheme in use: stays in the Host header
    else:
        h = name
    return cls, h


def gen_s3_location(r, variant=None, host_class=None, bucket_class=None, scheme=None):
    variant = variant or r.choice(['s3c', 's3c', 's3'])
    bcls, bucket = gen_s3_bucket(r, bucket_class)
    region = r.choice(REGIONS)
    if variant == 's3':
        return {'variant': 's3', 'bucket': bucket, 'host': 's3.%s.amazonaws.com' % region, 'scheme': 'https', 'region': region, 'bucket_class': bcls,
                'host_class': 'aws'}
    scheme = scheme or r.choice(['https', 'https', 'http'])
    hcls, host = gen_s3_host(r, scheme, host_class)
    return {'variant': 's3c', 'bucket': bucket, 'host': host, 'scheme': scheme, 'region': region, 'bucket_class': bcls, 'host_class': hcls,
            'explicit_scheme': scheme != 'https' or r.random() < 0.5}      # https is the default: given or left out


def s3_other_spelling(r, loc):
    """another endpoint / bucket of the same kind of service (the history must not care)"""
    return gen_s3_location(r, variant=loc['variant'], scheme=None if loc['variant'] == 's3' else ('http' if loc['scheme'] == 'https' else 'https'))


def s3_label(loc):
    return 'variant:' + loc['variant'], 'bucket-name:' + loc['bucket_class'], 'host:' + loc['host_class'], 'scheme:' + loc['scheme']


# ------------------------------------------------------------------------------------------------ a history that uses every kind of call
def full_history(r, big_listing=False):
    """upload / upload_stream / exists (live, missing) / list (all, directory) / download / download_stream / delete / exists / list — on names
    with a shared directory; every adapter must answer like the map"""
    a, b, c = (_word(r, r.randint(2, 4), 'abcdefgh') + s for s in ('1', '2', '3'))
    d1, d2, d3 = (r.randbytes(r.randint(0, 40)).hex() for _ in range(3))
    ops = [{'op': 'upload', 'name': f'{a}/{b}', 'data': d1}, {'op': 'upload_stream', 'name': f'{a}/{c}', 'data': d2, 'chunk': 7},
           {'op': 'exists', 'name': f'{a}/{b}'}, {'op': 'exists', 'name': f'{a}/{b}x'}, {'op': 'list', 'prefix': ''}, {'op': 'list', 'prefix': f'{a}/'},
           {'op': 'download', 'name': f'{a}/{c}'}, {'op': 'download_stream', 'name': f'{a}/{b}', 'chunk': 7, 'sink': '00ff'},
           {'op': 'upload', 'name': c, 'data': d3}, {'op': 'delete', 'name': f'{a}/{c}'}, {'op': 'exists', 'name': f'{a}/{c}'},
           {'op': 'delete', 'name': f'{a}/{c}'}, {'op': 'list', 'prefix': a[:1]}, {'op': 'download', 'name': c}]
    for o in ops:
        o['at'], o['jit'] = 0, 0
    return ops
