"""C05 — snapshots of highly repetitive data against a backend that is NOT a faithful, private map.

The class of cases: while ONE snapshot runs, the backend's answers are not the client's to decide —
  * `exists` of an eventually-consistent store answers False for an object that IS stored (at single calls, for every object written
    less than W calls ago, or for everything from some call on);
  * objects vanish between two calls of the running snapshot: a raw removal (lifecycle rule, lost write), or a SECOND REAL CLIENT
    (another `Repository` object, same or another key of the repository) running `clean` — which removes what the unfinished snapshot
    has uploaded so far — or `delete` of an earlier snapshot that shares chunks with the running one (replicat takes no lock);
  * the stream is repetitive (sparse file, disk image, a record repeated): one chunk occurs far more often than the producer's
    read-ahead (`concurrent * 10` queued chunks), so the client has long "seen the chunk stored" when a later repeat is processed.

`AdvBackend` implements the backend and keeps an exact log of what it was asked and what it answered; `AdvWorld` drives the REAL
Repository (tagged adapters or real ciphers, 1–3 workers) and lets the second client act from inside the backend call;
`AdvTaggedRun` mirrors an attacked snapshot as the op `snapshot_ev` of the Lean model (`ReplicatModel/SymBackend.lean`): the chunk
list with the answer the backend REALLY gave per chunk and the removals that REALLY happened in between.  `check_payloads` is the
direct oracle on every payload the backend received: it must authenticate under the key the format prescribes for its location.
"""
import base64
import collections
import json
import threading

from . import runner as R
from . import symhist as H
from . import tagged as T

MODES = ['honest', 'lie-at', 'lie-at', 'blind-from', 'recent-writes-invisible', 'vanish-at', 'vanish-all-at', 'foreign-clean', 'foreign-clean',
         'foreign-delete', 'mixed']
ADV_CHUNKING = [(8, 32), (16, 64), (4, 4), (8, 8), (16, 16), (5, 12), (13, 50), (32, 32)]


class AdvBackend(T.RecBackend):
    """`RecBackend` whose answers follow a plan while `armed`.  Everything it is asked while armed goes to `xlog`, in order:
    ('exists', name, answer, truth, call#, action) | ('put', name) | ('xdel', name, uploads so far)."""

    def __init__(self):
        super().__init__()
        self.xlog = []
        self.armed = None            # the plan (dict) of the snapshot under attack
        self.xlock = threading.RLock()
        self.in_foreign = False      # a second client is acting (its own calls are answered truthfully)
        self.foreign = {}            # 'clean' / 'delete' -> callable run from inside an `exists` call
        self.fired = collections.Counter()

    def arm(self, plan):
        self.armed = dict(plan, n=0, put_at={})
        self.xlog = []
        self.fired = collections.Counter()

    def disarm(self):
        self.armed = None

    def _nputs(self):
        return sum(1 for e in self.events if e[0] == 'put')

    def _raw_remove(self, name):
        with self.lock:
            gone = self.objects.pop(name, None) is not None
        if gone:
            self.xlog.append(('xdel', name, self._nputs()))
            self.events.append(('del', name))
        return gone

    def exists(self, name):
        plan = self.armed
        if plan is None or self.in_foreign or not name.startswith('data/'):
            return super().exists(name)
        with self.xlock:
            k = plan['n']
            plan['n'] += 1
            with self.lock:
                stored = name in self.objects
            act = plan['at'].get(k)
            if act is None and plan.get('blind_from') is not None and k >= plan['blind_from']:
                act = 'lie'
            if act is None and plan.get('window') and stored and name in plan['put_at'] and k - plan['put_at'][name] <= plan['window']:
                act = 'lie'
            answer = None
            if act == 'lie':
                answer = False
            elif act == 'vanish':
                self._raw_remove(name)
            elif act == 'vanish-all':
                for n in [n for n in list(self.objects) if n.startswith('data/')]:
                    self._raw_remove(n)
            elif act in ('clean', 'delete') and self.foreign.get(act) is not None:
                self.in_foreign = True
                try:
                    self.foreign[act]()
                except Exception as e:  # noqa: BLE001   (a second client that fails is a second client that did less)
                    self.fired['foreign-failed:' + type(e).__name__] += 1
                finally:
                    self.in_foreign = False
            truth = super().exists(name)
            if answer is None:
                answer = truth
            if act is not None and (answer != stored):
                self.fired[act] += 1          # the action changed what this call answers
            self.xlog.append(('exists', name, answer, truth, k, act, stored))
            return answer

    def upload(self, name, data):
        super().upload(name, data)
        if self.armed is not None and not self.in_foreign:
            self.armed['put_at'][name] = self.armed['n']
            self.xlog.append(('put', name))

    def upload_stream(self, name, stream, length, chunk_size=128_000):
        super().upload_stream(name, stream, length, chunk_size)
        if self.armed is not None and not self.in_foreign:
            self.armed['put_at'][name] = self.armed['n']
            self.xlog.append(('put', name))

    def delete(self, name):
        if self.armed is not None:
            self.xlog.append(('xdel', name, self._nputs()))     # the running snapshot never deletes: somebody else does
        super().delete(name)


# ------------------------------------------------------------------ generators
def gen_plan(r, est_calls, can_delete=False, mode=None):
    """what the backend does during ONE snapshot of about `est_calls` chunks"""
    mode = mode or r.choice(MODES)
    if mode == 'foreign-delete' and not can_delete:
        mode = 'foreign-clean'
    est = max(est_calls, 2)

    def positions(k):
        # anywhere in the stream; half of them in its second half (after any read-ahead has long been consumed)
        return sorted({r.randrange(est) if r.random() < 0.5 else r.randrange(est // 2, est) for _ in range(k)})

    plan = {'mode': mode, 'at': {}, 'blind_from': None, 'window': 0}
    if mode == 'lie-at':
        plan['at'] = {p: 'lie' for p in positions(r.choice([1, 2, 4]))}
    elif mode == 'blind-from':
        plan['blind_from'] = r.choice([0, r.randrange(est), est // 2])
    elif mode == 'recent-writes-invisible':
        plan['window'] = r.choice([3, 20, 10 ** 6])
    elif mode == 'vanish-at':
        plan['at'] = {p: 'vanish' for p in positions(r.choice([1, 2, 3]))}
    elif mode == 'vanish-all-at':
        plan['at'] = {p: 'vanish-all' for p in positions(r.choice([1, 2]))}
    elif mode == 'foreign-clean':
        plan['at'] = {p: 'clean' for p in positions(r.choice([1, 2]))}
    elif mode == 'foreign-delete':
        plan['at'] = {p: 'delete' for p in positions(1)}
    elif mode == 'mixed':
        acts = ['lie', 'vanish', 'clean', 'vanish-all'] + (['delete'] if can_delete else [])
        plan['at'] = {p: r.choice(acts) for p in positions(r.choice([2, 3, 5]))}
    return plan


def gen_repetitive_tree(r, mn, mx, concurrent, shared_block=None, max_chunks=None):
    """a tree dominated by ONE repeated chunk: → ({name: bytes}, description).  `reps` is chosen relative to the producer's
    read-ahead (`concurrent*10` queued + one per worker + one in hand).  `max_chunks` bounds the number of chunks of the big file
    (the symbolic tie turns per-file reference lists into nested terms; CPython's pickle / json stop at a nesting of a few hundred)"""
    ahead = concurrent * 10 + concurrent + 1
    kind = r.choice(['sparse', 'record', 'record', 'image', 'periodic'])
    over = r.choice([2, 5, 12, ahead, 3 * ahead])
    reps = ahead + over
    if kind == 'sparse':
        block = bytes(mx)
        body = block * reps
    elif kind == 'record':
        # one chunk-sized record over and over: exact under min = max chunking, resynchronising otherwise (then more copies)
        block = shared_block if shared_block is not None else r.randbytes(mx)
        body = block * (reps if mn == mx else 3 * reps)
    elif kind == 'image':
        block = bytes(mx)
        body = r.randbytes(r.choice([mx, 3 * mx + 5])) + block * reps + r.randbytes(2 * mx) + block * r.choice([3, ahead])
    else:
        block = shared_block if shared_block is not None else r.randbytes(r.choice([mx // 2 or 1, mx + 3, 2 * mx]))
        body = block * (4 * reps)
    if max_chunks is not None and len(body) > max_chunks * mn:
        body = body[:max_chunks * mn]
    tree = {'%s-%08x.img' % (kind, r.getrandbits(32)): body}
    for nm in ['alpha-%08x' % r.getrandbits(32), 'dir-%08x/gamma-%08x' % (r.getrandbits(32), r.getrandbits(32))][:r.choice([1, 2])]:
        tree[nm] = r.randbytes(r.choice([5, 17, mx + 3])) + (block if r.random() < 0.5 else b'')
    desc = {'kind': kind, 'block': block.hex()[:64], 'block_len': len(block), 'body_len': len(body), 'reps_over_readahead': over,
            'est_chunks': max(len(body) // mx, 1)}
    return tree, desc


def multiplicity(chunks):
    """(largest number of occurrences of one chunk, number of chunks)"""
    c = collections.Counter(chunks)
    return (max(c.values()) if c else 0), len(chunks)


# ------------------------------------------------------------------ the world
class AdvWorld(T.SymWorld):
    """`SymWorld` on an `AdvBackend`, with `concurrent` workers per client, whose snapshots may be attacked.  The second client is a
    REAL client of the same repository (fresh `Repository`, own event loop) run from inside the backend's `exists` call."""

    def __init__(self, scratch, settings, password=b'pw-0-secret', parser=None, *, concurrent=1, **kw):
        self.concurrent = concurrent
        super().__init__(scratch, settings, password, parser, backend=AdvBackend(), **kw)

    def repo(self, ui, cache_directory=T.SymWorld._OWN):
        """as `SymWorld.repo`, with `self.concurrent` workers"""
        import dataclasses
        k = self.keys[ui]
        repo = R.new_repo(self.backend, concurrent=self.concurrent, cache_directory=self.cache_directory if cache_directory is T.SymWorld._OWN else cache_directory)
        with R.quiet():
            if self.enc:
                R.run(repo.unlock(password=k['password'], key=self.serialized_key(ui)))
            else:
                R.run(repo.unlock())
        self.last_view = bool(repo.props.encrypted)
        self.views.append(self.last_view)
        repo.props = dataclasses.replace(repo.props, chunker=T.RecChunker(repo.props.chunker))
        return repo

    def snapshot_adv(self, ui, fileset, plan, note=None, mtimes=None, foreign_user=None, victim=None):
        """a snapshot by user `ui` during which the backend follows `plan`; `foreign_user` runs the clean / delete actions
        (`victim` = name of the earlier snapshot a foreign delete removes).  → snap dict + xlog / fired / view of the snapshotting
        client (`unlock` asks nothing about `data/`, so arming before it changes nothing for it)"""
        be = self.backend
        fu = ui if foreign_user is None else foreign_user
        nviews = len(self.views)
        be.foreign = {'clean': lambda: self.clean(fu)}
        if victim is not None:
            be.foreign['delete'] = lambda: self.delete(fu, [victim])
        be.arm(plan)
        try:
            s = self.snapshot(ui, fileset, note=note, mtimes=mtimes)
        finally:
            be.disarm()
        s['view'] = self.views[nviews]
        s['xlog'] = list(be.xlog)
        s['fired'] = dict(be.fired)
        s['plan'] = plan
        self.last_view = s['view']
        return s


def attack_stats(s, concurrent):
    """how the realised schedule relates to the class: → dict of counters for the evidence"""
    mult, n = multiplicity(s['chunks'])
    ahead = concurrent * 10 + concurrent + 1
    seen = collections.Counter()
    late = uploads_of_seen = 0
    for e in s['xlog']:
        if e[0] != 'exists':
            continue
        name, answer, stored = e[1], e[2], e[6]
        if seen[name] > ahead and not answer:
            # a chunk the client saw stored more than a read-ahead ago is reported absent ⇒ the queued object goes to the backend
            late += 1
        if seen[name] >= 1 and not answer:
            uploads_of_seen += 1
        seen[name] += 1
    return {'max_multiplicity': mult, 'chunks': n, 'readahead': ahead, 'repeats_beyond_readahead': max(mult - ahead, 0),
            'absent_answers_for_chunk_seen_before': uploads_of_seen, 'absent_answers_beyond_readahead': late,
            'fired': sum(v for k, v in s['fired'].items() if not k.startswith('foreign-failed')),
            'fired_by': {k: v for k, v in s['fired'].items() if not k.startswith('foreign-failed')},
            'foreign_failed': sum(v for k, v in s['fired'].items() if k.startswith('foreign-failed'))}


# ------------------------------------------------------------------ the symbolic tie
class AdvTaggedRun(H.TaggedRun):
    """`TaggedRun` that also understands `{'kind': 'snapshot_adv', user, files, note, plan, foreign_user, victim}`"""

    def _apply(self, op):
        if op['kind'] != 'snapshot_adv':
            return super()._apply(op)
        ps, w, stats = self.ps, self.w, self.stats
        if max(op['user'], op.get('foreign_user') or 0) >= len(w.keys):
            stats['skipped_ops'] = stats.get('skipped_ops', 0) + 1
            return
        for data in op['files'].values():
            ps.secret(data)
        if op['note'] is not None:
            ps.secret_str(op['note'])
        victim = self.snaps[op['victim'] % len(self.snaps)]['name'] if (op.get('victim') is not None and self.snaps) else None
        s = w.snapshot_adv(op['user'], op['files'], op['plan'], note=op['note'], foreign_user=op.get('foreign_user'), victim=victim)
        for c in s['chunks']:
            ps.secret(c)
        self.snaps.append(s)
        st = attack_stats(s, 1)
        for k, v in st.items():
            if k == 'fired_by':
                for a, n in v.items():
                    stats.setdefault('adv_fired_by', {})[a] = stats.get('adv_fired_by', {}).get(a, 0) + n
            elif k in ('max_multiplicity', 'readahead'):
                stats['adv_' + k] = max(stats.get('adv_' + k, 0), v)
            else:
                stats['adv_' + k] = stats.get('adv_' + k, 0) + v
        stats['adv_snapshots'] = stats.get('adv_snapshots', 0) + 1
        stats['adv_max_chunks'] = max(stats.get('adv_max_chunks', 0), st['chunks'])
        stats.setdefault('adv_modes', []).append(op['plan']['mode'])
        try:
            data = ps.data_struct(s['result'].data)
        except T.Unparsed as e:
            self.problems.append(('unparsed', 'snapshot data: %r' % (e,)))
            return
        # the events, exactly as they happened (one worker: the j-th `exists` is about the j-th chunk of the stream)
        evs = []
        j = 0
        repo = s['repo']
        names_so_far = [e[1] for e in w.backend.events if e[0] == 'put']
        pending = []
        for e in s['xlog']:
            if e[0] == 'xdel':
                idx = [i for i, n in enumerate(names_so_far[:e[2]]) if n == e[1]]
                if idx:
                    pending.append(idx[-1])
            elif e[0] == 'exists':
                if pending:
                    evs.append({'vanish_at': sorted(set(pending))})
                    pending = []
                if j >= len(s['chunks']):
                    self.problems.append(('schedule', 'more exists calls (%d) than chunks (%d)' % (j + 1, len(s['chunks']))))
                    break
                c = s['chunks'][j]
                loc = repo._chunk_digest_to_location(repo.props.hash_digest(c))
                if loc != e[1]:
                    self.problems.append(('schedule', 'exists call #%d is about %s, chunk #%d of the stream lives at %s' % (j, e[1][:30], j, loc[:30])))
                    break
                evs.append({'chunk': ps.secret(c), 'ans': bool(e[2])})
                j += 1
        if pending:
            evs.append({'vanish_at': sorted(set(pending))})
        if j != len(s['chunks']) and not any(k == 'schedule' for k, _ in self.problems):
            self.problems.append(('schedule', '%d exists calls for %d chunks' % (j, len(s['chunks']))))
        mop = {'kind': 'snapshot_ev', 'user': op['user'], 'evs': evs, 'data': data}
        if self.views and s.get('view') is not None:
            mop['view'] = s['view']
        self.model_ops.append(mop)
        stats['snapshots'] += 1
        stats['notes'] += int(op['note'] is not None)
        stats['max_files'] = max(stats['max_files'], len(op['files']))


def expand_op(o):
    """`symhist._expand_op` + the events of `snapshot_ev`"""
    o = H._expand_op(o)
    if 'evs' in o:
        o['evs'] = [dict(e, chunk=T.expand(e['chunk'])) if 'chunk' in e else e for e in o['evs']]
    return o


def gen_adv_history(r, encrypted=True):
    """init, a few keys, optionally an honest snapshot that already stores the repeated block, then 1–2 attacked snapshots of
    repetitive trees interleaved with ordinary delete / clean commands"""
    g = H._gen_state(r, encrypted)
    mn, mx = r.choice(ADV_CHUNKING)
    g['settings']['chunking'] = {'name': 'gclmulchunker', 'min_length': mn, 'max_length': mx}
    g['params'] = (mn, mx)
    ops = []
    for _ in range(r.choice([0, 1, 1, 2]) if encrypted else 0):
        ops.append({'kind': 'add_key', 'base': r.randrange(g['nusers']), 'shared': r.random() < 0.8})
        g['nusers'] += 1
    shared_block = r.randbytes(mx) if r.random() < 0.6 else None
    if r.random() < 0.5:
        base = {'base-%06x' % r.getrandbits(24): (shared_block or bytes(mx)) * r.choice([1, 2]) + r.randbytes(r.choice([0, 7])),
                'other-%06x' % r.getrandbits(24): r.randbytes(r.choice([9, mx + 1]))}
        ops.append({'kind': 'snapshot', 'user': r.randrange(g['nusers']), 'files': base, 'note': 'note-%012x' % r.getrandbits(48)})
        g['nsnaps'] += 1
    for _ in range(r.choice([1, 1, 2])):
        tree, desc = gen_repetitive_tree(r, mn, mx, 1, shared_block, max_chunks=220)
        plan = gen_plan(r, desc['est_chunks'], can_delete=g['nsnaps'] >= 1)
        ops.append({'kind': 'snapshot_adv', 'user': r.randrange(g['nusers']), 'files': tree, 'note': ('note-%012x' % r.getrandbits(48)) if r.random() < 0.7 else None,
                    'plan': plan, 'foreign_user': r.randrange(g['nusers']), 'victim': r.randrange(g['nsnaps']) if g['nsnaps'] else None, 'desc': desc})
        g['nsnaps'] += 1
        if r.random() < 0.4:
            ops.append({'kind': r.choice(['delete', 'clean']), 'user': r.randrange(g['nusers']), 'which': r.randrange(g['nsnaps'])})
    return {'encrypted': encrypted, 'settings': g['settings'], 'ops': ops, 'params': (mn, mx)}


def run_tagged_adv(hist, label='a'):
    """→ the observation dict of `symhist.run_tagged_history` (+ `adv_*` statistics)"""
    with T.tagged() as reg, R.Scratch(label) as sc:
        ps = T.Parser(reg)
        pw0 = b'pw-0-secret-' + label.encode()
        w = AdvWorld(sc, hist['settings'], password=pw0, parser=ps)
        ps.secret(pw0)
        run = AdvTaggedRun(reg, ps, w, pw0, hist['encrypted'], views=True)
        for op in hist['ops']:
            run.apply(op)
        obs = run.finish()
        obs['request']['ops'] = [expand_op(o) for o in run.model_ops]
        obs['views'] = list(w.views)
        return obs


# ------------------------------------------------------------------ the direct oracle on payloads (real ciphers)
def check_payloads(w, snaps, violations, extra=None):
    """EVERY payload the backend of an encrypted repository was handed must authenticate under the key the format prescribes for its
    location: a chunk object under `derive_shared_subkey(digest)` of the chunk that lives there (and decrypt to it), a snapshot
    object under the shared sub-key / the user key.  → number of payloads checked"""
    expect = {}
    for s in snaps:
        repo = s['repo']
        for c in set(s['chunks']):
            d = repo.props.hash_digest(c)
            expect.setdefault(repo._chunk_digest_to_location(d), (c, d, repo))
    snap_repos = [s['repo'] for s in snaps]
    n = 0
    seen_sig = set()

    def report(sig, what, more):
        if sig in seen_sig:
            return
        seen_sig.add(sig)
        violations.append((sig, what, dict(extra or {}, **more)))

    for i, e in enumerate(w.backend.events):
        if e[0] != 'put':
            continue
        name, payload = e[1], bytes(e[2])
        n += 1
        if name.startswith('data/'):
            if name not in expect:
                report('c05:payload:chunk-at-unknown-location', f'upload #{i}: {name} is not the location of any chunk of any snapshot taken', {'upload': i, 'name': name})
                continue
            c, d, repo = expect[name]
            try:
                plain = repo.props.decrypt(payload, repo.props.derive_shared_subkey(d))
            except Exception:  # noqa: BLE001   (DecryptionError, or the cipher refusing a payload too short to hold a nonce / tag)
                plain = None
            if plain is None or bytes(plain) != c:
                is_plain = payload == c
                report('c05:payload-not-ciphertext:chunk' + (':is-the-plaintext' if is_plain else ''),
                       f'upload #{i}: the {len(payload)}-byte payload handed to the backend for {name[:24]}… does not authenticate under the chunk key'
                       + (' — it IS the plaintext chunk ' + repr(payload[:24]) if is_plain else f' (first bytes {payload[:16].hex()})'),
                       {'upload': i, 'name': name, 'payload_hex': payload[:64].hex(), 'chunk_hex': c[:64].hex(), 'is_plaintext': is_plain})
        elif name.startswith('snapshots/'):
            ok = False
            try:
                o = json.loads(payload)
                if isinstance(o, dict) and set(o) == {'chunks', 'data'} and all(isinstance(v, dict) and set(v) == {'!b'} for v in o.values()):
                    base64.standard_b64decode(o['chunks']['!b'])
                    for repo in snap_repos:
                        try:
                            body = repo._decrypt_snapshot_body(payload)
                        except Exception:  # noqa: BLE001
                            continue
                        if body.get('data') is not None:
                            ok = True
                            break
            except ValueError:
                ok = False
            if not ok:
                report('c05:payload-not-ciphertext:snapshot', f'upload #{i}: snapshot object {name[:30]}… is not {{chunks: AEAD, data: AEAD}} under the keys of its author',
                       {'upload': i, 'name': name, 'payload_hex': payload[:64].hex()})
    return n
