"""Extensions of `history.py` for C02 / C07 / C08 (history.py itself is shared and unchanged):

* `run(...)`: `history.run_histories` behind a proxy so that each property applies its OWN non-triviality rule and its own
  additional direct oracles to the same logs, and every reported replay carries (seed, label, n_ops);
* direct oracles evaluated on the abstracted object maps before/after every real command (`c02_oracles`, `c07_oracles`,
  `c08_oracles`) — each is the statement of a theorem of Properties/C02|C07|C08.lean read off the REAL backend;
* `replay_history`: re-run one history and re-apply correspondence + oracles;
* overlapping commands call by call (`conc_case`, `check_conc`): k ≥ 2 REAL `Repository.snapshot` coroutines of several users
  on one event loop and one backend, every backend call parked at a gate and released in a generated order, a reader issuing
  list / list-files / restore commands in between; the per-call event trace is replayed by the Lean model (`repo.conc`,
  ReplicatModel/RepoConc.lean) which must accept it; direct oracles for C02 (a snapshot listed at any point restores exactly
  at every later point) and C07 (racy duplicate uploads: identical plaintext, one per absent observation, bounded by the pool).
"""
from . import history as H
from . import runner as R


class OutProxy:
    """forwards to the real Outcome; defers `case` (the property decides non-triviality) and completes replay records"""

    def __init__(self, out, extra):
        object.__setattr__(self, '_out', out)
        object.__setattr__(self, '_extra', extra)
        object.__setattr__(self, 'cases', [])

    def case(self, case, nontrivial, sample_limit=6):
        self.cases.append(case)

    def violation(self, sig, what, replay):
        self._out.violation(sig, what, dict(replay, **self._extra))

    def disagreement(self, what, replay):
        self._out.disagreement(what, dict(replay, **self._extra))

    def __getattr__(self, n):
        return getattr(self._out, n)

    def __setattr__(self, n, v):
        setattr(self._out, n, v)


# ------------------------------------------------------------------ helpers on abstract stores
def _snaps(store):
    """(fam, sid) -> body for every intact snapshot object"""
    return {(e[0][1], e[0][2]): e[1][3] for e in store if e[0][0] == 'snap' and e[1][0] == 'snap'}


def _chunks(store):
    return {(e[0][1], e[0][2]) for e in store if e[0][0] == 'chunk'}


def _refs(store, fam=None):
    out = set()
    for (f, _), b in _snaps(store).items():
        if fam is None or f == fam:
            out.update((f, c) for c in b['chunks'])
    return out


def c02_oracles(log):
    """→ [(sig, what, step)]: objects replicat wrote are never replaced by foreign bytes; a snapshot object that is still
    there is the one that was written; no referenced chunk disappears in a step that succeeded or failed"""
    res = []
    for i, st in enumerate(log['steps']):
        if st['kind'] == 'orphan':
            continue
        for e in st['store_after']:
            if e[0][0] in ('chunk', 'snap') and e[1][0] == 'blob':
                res.append(('history:object-overwritten', f'after {st["kind"]} the object {e[0]} no longer holds bytes written for it', i))
        b, a = _snaps(st['store_before']), _snaps(st['store_after'])
        for k in b:
            if k in a and a[k] != b[k]:
                res.append(('history:snapshot-object-changed', f'{st["kind"]} changed the body of snapshot {k}', i))
        missing = _refs(st['store_after']) - _chunks(st['store_after'])
        if missing - (_refs(st['store_before']) - _chunks(st['store_before'])):
            res.append(('history:referenced-chunk-missing', f'after {st["kind"]} by {st["user"]} chunks {sorted(missing)[:3]} referenced by a remaining snapshot are gone', i))
        if st.get('error') and H.canon_store(st['store_before']) != H.canon_store(st['store_after']):
            res.append(('history:refused-command-mutated', f'{st["kind"]} was refused ({st["error"]}) but changed the repository', i))
    return res


def c07_oracles(log):
    res = []
    pending = set()     # families with an injected orphan not yet cleaned
    enc = log['cfg']['enc']
    for i, st in enumerate(log['steps']):
        fam = st['user'][1]
        if st['kind'] == 'orphan':
            pending.add(fam)
            continue
        before, after = st['store_before'], st['store_after']
        names = [tuple(e[0]) for e in after if e[0][0] == 'chunk']
        if len(names) != len(set(names)):
            res.append(('dedup:same-chunk-stored-twice', f'after {st["kind"]} one (family, content) is stored under two locations', i))
        if st['kind'] == 'snapshot':
            present = _chunks(before)
            up = [tuple(x[1:]) for x in st['uploaded']]
            again = [x for x in up if x in present]
            if again:
                res.append(('dedup:present-chunk-uploaded-again', f'snapshot by {st["user"]} uploaded chunks that were already stored: {again[:3]}', i))
            if any(x[0] != fam for x in up):
                res.append(('dedup:upload-under-foreign-family', f'snapshot by family {fam} wrote chunk names of another family', i))
            mine = {(f[0], f[1]) for f in st['op']['files']}
            same = [k for k, b in _snaps(before).items() if k[0] == fam and {(f[0], f[1]) for f in b['files']} == mine
                    and all((fam, c) in present for c in b['chunks'])]
            if same and st['upload_count'] > 0:
                res.append(('dedup:repeat-snapshot-uploaded-chunks',
                            f'snapshot of unchanged data by {st["user"]} ({st["user_kind"]}; same data as snapshot {same[0]}) transferred {st["upload_count"]} chunk payloads', i))
            # independent users never alias: objects of other families are untouched by a snapshot
            ob = {H.canon_store([e])[0] for e in before if e[0][0] in ('chunk', 'snap') and e[0][1] != fam}
            oa = {H.canon_store([e])[0] for e in after if e[0][0] in ('chunk', 'snap') and e[0][1] != fam}
            if ob != oa:
                res.append(('dedup:snapshot-touched-other-family', f'snapshot by family {fam} changed objects of another family', i))
        if st['kind'] == 'clean' and st['error'] is None:
            pending.discard(fam)
            if not enc:
                pending.clear()
        for f in {x[0] for x in _chunks(after)} | {k[0] for k in _snaps(after)}:
            if f in pending:
                continue
            objs = {c for (ff, c) in _chunks(after) if ff == f}
            refs = {c for (ff, c) in _refs(after, f)}
            if objs != refs:
                res.append(('dedup:objects-differ-from-referenced',
                            f'after {st["kind"]} family {f}: stored-but-unreferenced {sorted(objs - refs)[:3]}, referenced-but-missing {sorted(refs - objs)[:3]}', i))
    return res


def c08_oracles(log):
    res = []
    enc = log['cfg']['enc']
    for i, st in enumerate(log['steps']):
        if st['kind'] not in ('delete', 'clean'):
            continue
        fam = st['user'][1]
        before, after = st['store_before'], st['store_after']
        sb, sa = _snaps(before), _snaps(after)
        cb, ca = _chunks(before), _chunks(after)
        if st['kind'] == 'delete' and st['error'] is None:
            gone = [k for k in sb if k not in sa]
            want = {s for s in st['targets']}
            if {k[1] for k in gone} != want:
                res.append(('gc:delete-wrong-snapshots', f'delete of {sorted(want)} removed snapshot objects {sorted(gone)}', i))
            still = _refs(after, fam)
            left = sorted(x for k in gone for x in ((k[0], c) for c in sb[k]['chunks']) if x not in still and x in ca)
            if left:
                res.append(('gc:delete-incomplete', f'after delete by {st["user"]} chunks {left[:3]} referenced only by the deleted snapshots are still stored', i))
            removed = cb - ca
            bad = sorted(x for x in removed if x not in {(k[0], c) for k in gone for c in sb[k]['chunks']})
            if bad:
                res.append(('gc:delete-removed-unrelated-chunk', f'delete removed chunks {bad[:3]} that no deleted snapshot referenced', i))
        if st['kind'] == 'clean' and st['error'] is None:
            if sb != sa or {tuple(e[0]) for e in before if e[0][0] == 'snap'} != {tuple(e[0]) for e in after if e[0][0] == 'snap'}:
                res.append(('gc:clean-touched-snapshot', 'clean removed or changed a snapshot object', i))
            own = {c for (f, c) in ca if f == fam}
            want = {c for (f, c) in cb if f == fam} & {c for (f, c) in _refs(after, fam)}
            if own != want:
                res.append(('gc:clean-not-exact', f'after clean by family {fam}: orphans left {sorted(own - want)[:3]}, referenced chunks removed {sorted(want - own)[:3]}', i))
        # frame: config, stray objects, other families (encrypted)
        keep_b = {H.canon_store([e])[0] for e in before if e[0][0] in ('config', 'other') or (enc and e[0][0] in ('chunk', 'snap') and e[0][1] != fam)}
        keep_a = {H.canon_store([e])[0] for e in after if e[0][0] in ('config', 'other') or (enc and e[0][0] in ('chunk', 'snap') and e[0][1] != fam)}
        if keep_b != keep_a:
            res.append(('gc:foreign-object-touched', f'{st["kind"]} by family {fam} changed objects that are not its own: {sorted(keep_b ^ keep_a)[:2]}', i))
    return res


def c07_nontrivial(log):
    """a snapshot whose data repeats a block inside itself or shares ≥ 1 chunk with data already stored by its family"""
    for st in log['steps']:
        if st['kind'] == 'snapshot':
            stream = st['op']['stream']
            fam = st['user'][1]
            if len(set(stream)) < len(stream) or any((fam, c) in _chunks(st['store_before']) for c in stream):
                return True
    return False


def c08_nontrivial(log):
    """a successful delete or clean in a state with ≥ 1 orphan chunk or ≥ 1 object of another family / outside the areas"""
    for st in log['steps']:
        if st['kind'] in ('delete', 'clean') and st.get('error') is None:
            b = st['store_before']
            fam = st['user'][1]
            orphans = _chunks(b) - _refs(b)
            foreign = any(e[0][0] in ('chunk', 'snap') and e[0][1] != fam for e in b)
            if orphans or foreign:
                return True
    return False


def run(out, drv, label, n_hist, n_ops, oracles, rule, extra):
    """→ logs.  `rule(log)` = the property's non-triviality rule; `extra` = list of oracle functions log → [(sig, what, step)]"""
    info = {'seed': out.seed, 'label': label, 'n_ops': n_ops}
    proxy = OutProxy(out, info)
    logs = H.run_histories(proxy, drv, label, n_hist, n_ops, oracles)
    for log, summary in zip(logs, proxy.cases):
        out.case(summary, rule(log))
        for fn in extra:
            for sig, what, step in fn(log):
                out.violation(sig, what, dict(info, kind='history', idx=log['idx'], step=step))
        for st in log['steps']:
            if st['kind'] in ('delete', 'clean') and not st.get('error'):
                b = st['store_before']
                if _chunks(b) - _refs(b):
                    out.count('gc-with-orphans')
                if any(e[0][0] in ('chunk', 'snap') and e[0][1] != st['user'][1] for e in b):
                    out.count('gc-with-other-family')
            if st['kind'] == 'snapshot':
                out.count('snapshot-by:' + st['user_kind'])
                if st.get('repeat'):
                    out.count('snapshot:repeat-of-previous-data')
                if st['upload_count'] == 0 and st['op']['stream']:
                    out.count('snapshot:uploaded-nothing')
    return logs


class _Collect:
    def __init__(self):
        self.v, self.d, self.traces_validated, self.seed = [], [], 0, 0

    def violation(self, sig, what, rp):
        self.v.append((sig, what))

    def disagreement(self, what, rp):
        self.d.append(what)

    def case(self, *a, **k):
        pass

    def count(self, *a, **k):
        pass


def replay_history(rp, drv, oracles, extra):
    """re-run one history (seed, label, idx, n_ops from the replay record) and re-apply everything; → exit code"""
    from .. import common
    seed = rp.get('seed', common.seed_from_env())
    log = H.run_history((seed, rp['idx'], rp['label'], rp['n_ops']))
    c = _Collect()
    H.check_history(log, drv, c, oracles)
    for fn in extra:
        for sig, what, step in fn(log):
            c.v.append((sig, what + f' (step {step})'))
    print('history', {'enc': log['cfg']['enc'], 'users': log['user_kinds'], 'chunking': log['cfg']['chunking']})
    for i, st in enumerate(log['steps']):
        print(f'  step {i}: {st["kind"]} by {st["user"]} ({st["user_kind"]})' + (f' -> {st["error"]}' if st.get('error') else ''))
    for sig, what in c.v:
        print('violation', sig, what)
    for what in c.d:
        print('disagreement', what)
    return 1 if (c.v or c.d) else 0


def hard_exit(rc):
    """replay runs the real code in the main process; a restore that failed (missing chunk) leaves replicat's loader threads blocked
    on a slot of the closed event loop, which would block interpreter shutdown forever — leave without joining them"""
    import os
    import sys
    import threading
    sys.stdout.flush()
    sys.stderr.flush()
    if any(t is not threading.main_thread() and t.is_alive() and not t.daemon for t in threading.enumerate()):
        os._exit(rc)
    return rc


# ====================================================================== overlapping commands, call by call (C02 / C07)
CONC_STYLES = ('random', 'random', 'exists-first', 'exists-first', 'uploads-first', 'one-command-first', 'reader-first', 'reader-late')


class Gate:
    """every backend call of every agent parks here until the scheduler coroutine releases it; the call is performed and logged
    in the same event-loop step as its release, so `events` is the order in which the calls took effect"""

    def __init__(self, rng, style):
        self.rng, self.style = rng, style
        self.parked = []          # [future, tag, op, name]
        self.events = []          # (tag, op, name, result)
        self.steps = 0
        self.free = True
        self.max_parked = 0
        self.multi_choice = 0

    async def park(self, tag, op, name):
        if self.free:
            return
        import asyncio
        fut = asyncio.get_running_loop().create_future()
        self.parked.append((fut, tag, op, name))
        await fut

    def log(self, tag, op, name, result):
        self.events.append((tag, op, name, result))

    def pick(self):
        P, r = self.parked, self.rng
        pref = None
        if self.style == 'exists-first':
            pref = [i for i, p in enumerate(P) if p[2] == 'exists']
        elif self.style == 'uploads-first':
            pref = [i for i, p in enumerate(P) if p[2] == 'put']
        elif self.style == 'one-command-first':
            snaps = sorted({p[1][1] for p in P if p[1][0] == 'snap'})
            pref = [i for i, p in enumerate(P) if snaps and p[1] == ('snap', snaps[0])]
        elif self.style == 'reader-first':
            pref = [i for i, p in enumerate(P) if p[1][0] == 'read']
        elif self.style == 'reader-late':
            pref = [i for i, p in enumerate(P) if p[1][0] != 'read']
        if pref and r.random() < 0.85:
            return r.choice(pref)
        return r.randrange(len(P))

    async def run(self, tasks):
        import asyncio
        while not all(t.done() for t in tasks):
            for _ in range(6):
                await asyncio.sleep(0)
            if len(self.parked) < 2 and not all(t.done() for t in tasks):
                await asyncio.sleep(0.002)
            if not self.parked:
                await asyncio.sleep(0.001)
                continue
            self.max_parked = max(self.max_parked, len(self.parked))
            if len({(p[1], p[2]) for p in self.parked}) > 1:
                self.multi_choice += 1
            fut = self.parked.pop(self.pick())[0]
            self.steps += 1
            if not fut.done():
                fut.set_result(None)


class AgentBackend:
    """one agent's (one command's) coroutine view of the shared in-memory store: every call parks at the gate, then is performed on
    the shared `MemBackend` and logged with the agent's tag"""

    def __init__(self, shared, gate, tag):
        self.shared, self.gate, self.tag = shared, gate, tag

    async def exists(self, name):
        await self.gate.park(self.tag, 'exists', name)
        r = R.MemBackend.exists(self.shared, name)
        self.gate.log(self.tag, 'exists', name, r)
        return r

    async def upload(self, name, data):
        await self.gate.park(self.tag, 'put', name)
        R.MemBackend.upload(self.shared, name, data)
        self.gate.log(self.tag, 'put', name, bytes(data))

    async def upload_stream(self, name, stream, length, chunk_size=128_000):
        await self.gate.park(self.tag, 'put', name)
        R.MemBackend.upload_stream(self.shared, name, stream, length, chunk_size)
        self.gate.log(self.tag, 'put', name, self.shared.objects[name])

    async def download(self, name):
        await self.gate.park(self.tag, 'get', name)
        self.gate.log(self.tag, 'get', name, name in self.shared.objects)
        return R.MemBackend.download(self.shared, name)

    async def download_stream(self, name, stream, chunk_size=128_000):
        await self.gate.park(self.tag, 'get', name)
        self.gate.log(self.tag, 'get', name, name in self.shared.objects)
        return R.MemBackend.download_stream(self.shared, name, stream, chunk_size)

    async def list_files(self, prefix=''):
        await self.gate.park(self.tag, 'list', prefix)
        names = R.MemBackend.list_files(self.shared, prefix)
        self.gate.log(self.tag, 'list', prefix, list(names))
        for n in names:
            yield n

    async def delete(self, name):
        raise RuntimeError('a non-destructive command called delete')

    async def clean(self):
        pass

    async def close(self):
        pass


def abstract_objects(w, objects, others):
    """`World.abstract_store` for a given object dict (a saved earlier state of the backend)"""
    out = []
    for loc, data in sorted(objects.items()):
        n = w.abstract_name(loc)
        if n is None:
            k = others.setdefault(loc, len(others) + 1)
            out.append([['other', k], ['blob', k]])
        elif n[0] == 'config':
            out.append([n, ['config']])
        elif n[0] == 'chunk':
            out.append([n, ['chunk', n[1], n[2]] if data in w.valid_payload.get(loc, ()) else ['blob', 0]])
        else:
            out.append([n, ['snap', n[1], n[2], w.snap_by_sid[n[2]]['body']] if data in w.valid_payload.get(loc, ()) else ['blob', 0]])
    return out


def register_snapshot(w, ui, repo, res, fileset, srcdir, ts):
    """what `World.snapshot` records about a finished snapshot (content ids, names, model op, ground truth) — for a snapshot that
    was run by the caller (concurrently with others)"""
    import os
    u = w.users[ui]
    rec = repo.props.chunker
    stream = [w.cid(c) for c in rec.chunks]
    rec.chunks = []
    digests = list(res.chunks)
    hd = repo.props.hash_digest
    dig2cid = {}
    for c_bytes, c_id in list(w.contents.items()):
        d = hd(c_bytes)
        dig2cid[d] = c_id
        w.chunk_names.setdefault(repo._chunk_digest_to_location(d), (u.fam, c_id))
    sid = w.next_sid
    w.next_sid += 1
    w.snap_names[res.location] = (u.fam, sid)
    w.valid_payload.setdefault(res.location, set()).add(w.backend.objects[res.location])
    files, truth = [], {}
    for f in res.data['files']:
        data = fileset[os.path.relpath(f['path'], srcdir)]
        truth[f['path']] = data
        needs = []
        for c in sorted(f['chunks'], key=lambda x: x['counter']):
            cid = dig2cid[digests[c['index']]]
            if cid not in needs and c['range'][1] > c['range'][0]:
                needs.append(cid)
        files.append([w.pid(f['path']), w.ver(data), needs])
    body = {'owner': u.keyid, 'ts': ts, 'chunks': [dig2cid[d] for d in digests], 'files': files}
    w.snap_by_sid[sid] = {'name': res.name, 'location': res.location, 'fam': u.fam, 'owner': u.keyid, 'ts': ts, 'truth': truth, 'body': body,
                          'ts_string': res.data['utc_timestamp'], 'note': None}
    return {'sid': sid, 'stream': stream, 'files': files, 'ts': ts}


def gen_conc_filesets(r, k, mx):
    """k file sets built from shared blocks: identical files, shared prefixes, a block repeated inside one file, zero runs —
    so that the commands' chunk streams share chunks with each other and repeat chunks inside themselves"""
    blocks = [r.randbytes(3 * mx + 7), r.randbytes(2 * mx + 1), r.randbytes(mx + 3), r.randbytes(4 * mx)]
    sets = []
    for _ in range(k):
        fs = {}
        for nm in r.sample(['a', 'b', 'c/d', 'e', 'f'], r.choice([1, 2, 3, 4])):
            kind = r.random()
            if kind < 0.25:
                fs[nm] = bytes(mx * r.choice([2, 3, 5]))
            elif kind < 0.45:
                fs[nm] = r.choice(blocks[:3]) * r.choice([2, 3, 4])
            else:
                fs[nm] = b''.join(r.choice(blocks) for _ in range(r.choice([1, 2, 3]))) + r.randbytes(r.choice([0, 0, 5]))
        sets.append(fs)
    if k >= 2 and r.random() < 0.5:
        sets[1] = dict(sets[0])          # the very same data snapshotted twice at once
    return sets


def conc_case(arg):
    """→ result dict (picklable): summary, the model request `repo.conc`, what the implementation did, oracle findings"""
    import asyncio
    import os
    import shutil
    from pathlib import Path
    from .. import common
    from ..common import rng_for
    from . import runner as R_
    from .world import World, FakeDatetime, err_kind
    seed, idx, label = arg
    common.use_rebuilt_chunker()
    r = rng_for(seed, label, idx)
    res = {'idx': idx, 'label': label, 'violations': [], 'notes': []}
    enc = r.random() < 0.8
    chunking = r.choice([(8, 32), (16, 64), (8, 32), (13, 50)])
    k = r.choice([2, 2, 3, 3, 4])
    style = r.choice(CONC_STYLES)
    if label.startswith('C07'):
        style = r.choice(('exists-first', 'exists-first', 'exists-first', 'random', 'one-command-first'))
    with R_.Scratch(f'conc_{label}_{idx}') as sc:
        w = World(sc, enc=enc, chunking=chunking, concurrent=2, async_backend=True)
        for kind in r.choice([['clone'], ['shared'], ['independent'], ['shared', 'independent'], ['shared', 'clone', 'independent']]):
            w.add_user(kind if enc else 'clone', base=0)
        sets = gen_conc_filesets(r, k, chunking[1])
        # ---- a sequential prefix: the repository does not start empty (some chunks of the overlapping commands are already stored)
        prefix = []
        for _ in range(r.choice([0, 1, 1, 2])):
            ui = r.randrange(len(w.users))
            prefix.append(w.snapshot(ui, r.choice(sets))['sid'])
        objects0 = dict(w.backend.objects)
        # ---- the overlapping commands
        gate = Gate(rng_for(seed, label, idx, 'gate'), style)
        cmds = []
        for i in range(k):
            ui = r.randrange(len(w.users))
            workers = r.choice([1, 2, 2, 3, 5])
            src = sc.dir(f'src{i}')
            R_.write_tree(src, {nm: (v, 10 ** 18 + len(v)) for nm, v in sets[i].items()})
            repo = w.repo(ui, concurrent=workers)
            repo.backend = AgentBackend(w.backend, gate, ('snap', i))
            cmds.append({'ui': ui, 'workers': workers, 'src': src, 'repo': repo, 'fileset': sets[i]})
        readers = {}
        for ui in range(len(w.users)):
            rp = w.repo(ui, concurrent=r.choice([1, 2, 3]))
            rp.backend = AgentBackend(w.backend, gate, ('read', -1))
            readers[ui] = rp
        n_reads = r.choice([2, 3, 4, 6])
        read_at = sorted(r.randrange(0, 12 * k) for _ in range(n_reads))
        rr = rng_for(seed, label, idx, 'reader')
        reads = []            # dict(no, kind, ui, sre name|None, fre, error, out)
        stamps = {}

        class Ticking(FakeDatetime):
            @classmethod
            def utcnow(cls):
                t = w.tick()
                stamps[str(FakeDatetime._now)] = t
                return FakeDatetime._now
        w.rr.datetime = Ticking
        out_buf = __import__('io').StringIO()
        results = [None] * k

        def snap_loc_owner():
            """snapshot name -> command index, read off the gate's log (a snapshot object is listed as soon as it is stored)"""
            m = {}
            for tag, op, name, _ in gate.events:
                if op == 'put' and name.startswith('snapshots/') and tag[0] == 'snap':
                    m[cmds[0]['repo'].parse_snapshot_location(name).name] = tag[1]
            return m

        async def one_read(no, kind, ui, name, fre):
            rp = readers[ui]
            rp.backend.tag = ('read', no)
            rec = {'no': no, 'kind': kind, 'ui': ui, 'name': name, 'fre': fre, 'error': None, 'out': None}
            sre = None if name is None else '^' + name + '$'
            try:
                if kind == 'list':
                    p0 = out_buf.tell()
                    await rp.list_snapshots(snapshot_regex=sre, header=False)
                    rec['out'] = [[c.strip() for c in ln.split('\t')] for ln in out_buf.getvalue()[p0:].splitlines() if ln.strip()]
                elif kind == 'listfiles':
                    from replicat.utils import FileListColumn as F
                    p0 = out_buf.tell()
                    await rp.list_files(snapshot_regex=sre, file_regex=fre, header=False, columns=[F.SNAPSHOT_NAME, F.PATH])
                    rec['out'] = [[c.strip() for c in ln.split('\t')] for ln in out_buf.getvalue()[p0:].splitlines() if ln.strip()]
                else:
                    tgt = sc.dir()
                    await rp.restore(snapshot_regex=sre, file_regex=fre, path=Path(tgt))
                    got = R_.read_tree(tgt)
                    rec['out'] = {'/' + os.fsdecode(p): v[0] for p, v in got.items()}
                    shutil.rmtree(tgt, ignore_errors=True)
            except Exception as e:  # noqa: BLE001
                rec['error'] = err_kind(e)
            reads.append(rec)
            return rec

        listed = {}           # snapshot name -> read number at which a list command showed it (or -1: stored before the execution)
        for s in prefix:
            listed[w.snap_by_sid[s]['name']] = -1

        def owner_ui(name):
            for d in w.snap_by_sid.values():
                if d['name'] == name:
                    return next(i for i, uu in enumerate(w.users) if uu.keyid == d['owner'] and uu.fam == d['fam'])
            ci = snap_loc_owner().get(name)
            return None if ci is None else cmds[ci]['ui']

        async def reader(snap_tasks):
            no = 0
            for at in read_at:
                while gate.steps < at and not all(t.done() for t in snap_tasks):
                    await asyncio.sleep(0.001)
                kind = rr.choice(['list', 'list', 'listfiles', 'restore', 'restore-one', 'restore-one'])
                ui = rr.randrange(len(w.users))
                if kind == 'restore-one':
                    if not listed:
                        kind = 'list'
                    else:
                        name = rr.choice(sorted(listed))
                        o = owner_ui(name)
                        await one_read(no, 'restore', o if (o is not None and rr.random() < 0.8) else ui, name, None)
                        no += 1
                        continue
                fre = rr.choice([None, None, '/a$', 'c/'])
                rec = await one_read(no, kind, ui, None, fre if kind != 'list' else None)
                no += 1
                if kind == 'list' and rec['out'] is not None:
                    for row in rec['out']:
                        listed.setdefault(row[0], rec['no'])
            while not all(t.done() for t in snap_tasks):
                await asyncio.sleep(0.001)
            # ---- the end of the execution is a later point too: list, then restore everything that was ever listed
            rec = await one_read(no, 'list', 0, None, None)
            no += 1
            for ui in range(1, len(w.users)):
                r2 = await one_read(no, 'list', ui, None, None)
                no += 1
                for row in (r2['out'] or []):
                    listed.setdefault(row[0], r2['no'])
            for row in (rec['out'] or []):
                listed.setdefault(row[0], rec['no'])
            for name in sorted(listed):
                o = owner_ui(name)
                if o is not None:
                    await one_read(no, 'restore', o, name, None)
                    no += 1

        async def snap(i):
            try:
                results[i] = await cmds[i]['repo'].snapshot(paths=[Path(cmds[i]['src'])])
            except Exception as e:  # noqa: BLE001
                results[i] = e

        async def main():
            gate.free = False
            snap_tasks = [asyncio.ensure_future(snap(i)) for i in range(k)]
            rd = asyncio.ensure_future(reader(snap_tasks))
            sched = asyncio.ensure_future(gate.run(snap_tasks + [rd]))
            try:
                await asyncio.wait_for(asyncio.gather(*snap_tasks, rd), 300)
            finally:
                gate.free = True
                for p in gate.parked:
                    if not p[0].done():
                        p[0].set_result(None)
                sched.cancel()
        import sys
        so, se = sys.stdout, sys.stderr
        sys.stdout, sys.stderr = out_buf, __import__('io').StringIO()
        crashed = None
        try:
            asyncio.run(main())
        except Exception as e:  # noqa: BLE001
            crashed = f'{type(e).__name__}: {e}'
        finally:
            sys.stdout, sys.stderr = so, se
            w.rr.datetime = FakeDatetime
        if crashed is not None:
            res['violations'].append(('conc:overlapping-commands-hung-or-crashed', f'{k} overlapping snapshots + reader: {crashed}', {}))
        for i, x in enumerate(results):
            if isinstance(x, Exception) or x is None:
                res['violations'].append(('conc:overlapping-snapshot-failed', f'snapshot #{i} of {k} overlapping ones raised {type(x).__name__}: {x}', {}))
        ok = crashed is None and all(x is not None and not isinstance(x, Exception) for x in results)
        res['summary'] = {'enc': enc, 'users': [uu.kind for uu in w.users], 'chunking': list(chunking), 'commands': k, 'style': style,
                          'workers': [c['workers'] for c in cmds], 'prefix_snapshots': len(prefix), 'reads': len(reads), 'calls': len(gate.events)}
        res['ok'] = ok
        if not ok:
            res['nontrivial'] = {'c02': False, 'c07': False}
            return res
        # ---- registration (content ids, names) in commit order
        order = [t[1] for t, op, name, _ in gate.events if op == 'put' and name.startswith('snapshots/') and t[0] == 'snap']
        mcmds = [None] * k
        for i in order:
            c = cmds[i]
            reg = register_snapshot(w, c['ui'], c['repo'], results[i], c['fileset'], c['src'], stamps[results[i].data['utc_timestamp']])
            c['sid'] = reg['sid']
            mcmds[i] = {'user': w.model_user(c['ui']), 'stream': reg['stream'], 'files': reg['files'], 'ts': reg['ts'], 'sid': reg['sid'], 'workers': c['workers']}
        # every chunk upload: the payload decrypts (with the uploader's keys) to the plaintext the location stands for
        plain_of = {cid: b for b, cid in w.contents.items()}
        trace, raw = [], []
        uploads_at = {}
        name2sid = {d['name']: s for s, d in w.snap_by_sid.items()}
        read_reqs = {}
        for tag, op, name, result in gate.events:
            if tag[0] == 'snap':
                i = tag[1]
                repo = cmds[i]['repo']
                if op == 'exists':
                    n = w.abstract_name(name)
                    trace.append(['exists', i, n[2] if n and n[0] == 'chunk' and n[1] == w.users[cmds[i]['ui']].fam else 0, bool(result)])
                    raw.append(('exists', i, name, bool(result)))
                elif op == 'put' and name in w.chunk_names:
                    fam, cid = w.chunk_names[name]
                    w.valid_payload.setdefault(name, set()).add(result)
                    try:
                        plain = result if not enc else repo.props.decrypt(result, repo.props.derive_shared_subkey(repo.props.hash_digest(plain_of[cid])))
                    except Exception:  # noqa: BLE001
                        plain = None
                    got = w.contents.get(bytes(plain)) if plain is not None else None
                    trace.append(['upload', i, ['chunk', fam, cid], ['chunk', fam, got] if got is not None else ['blob', 0]])
                    uploads_at.setdefault(name, []).append((i, plain))
                    raw.append(('put', i, name, None))
                elif op == 'put' and name == results[i].location:
                    trace.append(['commit', i])
                    raw.append(('commit', i, name, None))
                else:
                    trace.append(['commit', 10 ** 6])          # a call the model has no event for: forces a rejection
                    raw.append((op, i, name, None))
            elif op == 'list' and name.startswith('snapshots/'):
                rd = next((x for x in reads if x['no'] == tag[1]), None)
                if rd is None:
                    continue
                q = {'kind': rd['kind'], 'user': w.model_user(rd['ui'])}
                if rd['name'] is not None:
                    q['sre'] = [name2sid[rd['name']]] if rd['name'] in name2sid else []
                if rd['fre'] is not None:
                    q['fre'] = w.pids_matching(rd['fre'])
                read_reqs[rd['no']] = len([e for e in trace if e[0] == 'read'])
                trace.append(['read', q])
                raw.append(('read', rd['no'], None, None))
        others = {}
        store0 = abstract_objects(w, objects0, others)
        final = abstract_objects(w, w.backend.objects, others)
        perm = list(range(k))
        r.shuffle(perm)
        res['req'] = {'op': 'repo.conc', 'enc': enc, 'store': store0, 'cmds': mcmds, 'trace': trace, 'orders': [list(range(k)), list(range(k))[::-1], perm]}
        res['final'] = final
        # ---- what the reads returned, in model terms
        obs = {}
        for rd in reads:
            if rd['no'] not in read_reqs:
                continue
            if rd['error'] is not None:
                o = {'error': rd['error']}
            elif rd['kind'] == 'list':
                o = {'error': None, 'rows': sorted([name2sid.get(row[0], -1), None if row[2] == '--' else int(row[3])] for row in rd['out'])}
            elif rd['kind'] == 'listfiles':
                rows = []
                for row in rd['out']:
                    d = w.snap_by_sid.get(name2sid.get(row[0], -1))
                    rows.append([d['ts'] if d else -1, w.pid(row[1]), w.ver(d['truth'].get(row[1], b'?')) if d else -1])
                o = {'error': None, 'rows': sorted(rows)}
            else:
                o = {'error': None, 'files': sorted([w.pid(p), w.ver(b)] for p, b in rd['out'].items())}
            obs[read_reqs[rd['no']]] = dict(o, kind=rd['kind'])
        res['reads'] = obs
        # ---- the implementation's own counters
        cnt = {}
        for kind, i, name, result in raw:
            if kind == 'exists' and not result and name in w.chunk_names:
                cnt.setdefault((i, w.chunk_names[name][1]), [0, 0])[1] += 1
            elif kind == 'put':
                cnt.setdefault((i, w.chunk_names[name][1]), [0, 0])[0] += 1
        res['counts'] = sorted([i, c, v[0], v[1]] for (i, c), v in cnt.items())
        # ================================================================== direct oracles on the real execution
        V = res['violations']
        # C02: a snapshot listed at any point (or stored before) restores exactly, with its owner's key, at every later point
        for rd in reads:
            if rd['kind'] == 'restore' and rd['name'] is not None and rd['name'] in name2sid:
                d = w.snap_by_sid[name2sid[rd['name']]]
                u = w.users[rd['ui']]
                if u.fam == d['fam'] and u.keyid == d['owner'] and listed.get(rd['name'], 10 ** 9) < rd['no']:
                    if rd['error'] is not None or rd['out'] != d['truth']:
                        V.append(('conc:listed-snapshot-not-restored-exactly',
                                  f'snapshot listed at read #{listed[rd["name"]]} restored by its owner at the later read #{rd["no"]} while {k} snapshots were running: '
                                  f'{rd["error"] or "content differs"}', {}))
        # C02: at the moment a snapshot object is stored, every chunk it references is stored (Consistent in every reached state)
        have = set(objects0)
        for kind, i, name, _ in raw:
            if kind == 'put':
                have.add(name)
            elif kind == 'commit':
                miss = [dg for dg in results[i].chunks if cmds[i]['repo']._chunk_digest_to_location(dg) not in have]
                if miss:
                    V.append(('conc:referenced-chunk-missing', f'the snapshot object of overlapping command #{i} was stored before {len(miss)} of its chunks', {}))
                have.add(name)
        # C07: racy duplicate uploads
        present0 = {n for n in objects0 if n in w.chunk_names}
        for name, ups in uploads_at.items():
            if len({p for _, p in ups}) > 1 or any(p is None or w.contents.get(bytes(p)) != w.chunk_names[name][1] for _, p in ups):
                V.append(('dedup:duplicate-upload-differs', f'{len(ups)} uploads of one chunk location by commands {[i for i, _ in ups]} do not carry the same plaintext', {}))
            if name in present0:
                V.append(('dedup:present-chunk-uploaded-again', f'a chunk stored before the overlapping commands began was uploaded again by command(s) {[i for i, _ in ups]}', {}))
        seen_abs = {}
        for kind, i, name, result in raw:
            if kind == 'exists' and not result:
                seen_abs[(i, name)] = seen_abs.get((i, name), 0) + 1
            elif kind == 'put':
                if seen_abs.get((i, name), 0) < 1:
                    V.append(('dedup:upload-without-absent-observation', f'command #{i} uploaded a chunk it had not just seen absent', {}))
                else:
                    seen_abs[(i, name)] -= 1
        for (i, c), (up, ab) in cnt.items():
            if up > cmds[i]['workers']:
                V.append(('dedup:more-uploads-than-workers', f'command #{i} ({cmds[i]["workers"]} workers) uploaded chunk {c} {up} times', {}))
            if up > mcmds[i]['stream'].count(c):
                V.append(('dedup:more-uploads-than-occurrences', f'command #{i} uploaded chunk {c} {up} times, it occurs {mcmds[i]["stream"].count(c)} times in its data', {}))
        for i in range(k):
            fam = w.users[cmds[i]['ui']].fam
            for c in set(mcmds[i]['stream']):
                loc = next(l for l, v in w.chunk_names.items() if v == (fam, c))
                if loc not in present0 and loc not in uploads_at:
                    V.append(('dedup:new-chunk-never-uploaded', f'chunk {c} of command #{i} was not stored before and nobody uploaded it', {}))
        fams = {e[0][1] for e in final if e[0][0] in ('chunk', 'snap')}
        for f in fams:
            if {c for (ff, c) in _chunks(store0) if ff == f} != {c for (ff, c) in _refs(store0, f)}:
                continue
            objs = {c for (ff, c) in _chunks(final) if ff == f}
            refs = {c for (ff, c) in _refs(final, f)}
            if objs != refs:
                V.append(('dedup:objects-differ-from-referenced',
                          f'after {k} overlapping snapshots family {f}: stored-but-unreferenced {sorted(objs - refs)[:3]}, referenced-but-missing {sorted(refs - objs)[:3]}', {}))
        # ---- non-triviality
        agents = [t[1] for t in raw if t[0] in ('exists', 'put', 'commit')]
        switches = sum(1 for a, b in zip(agents, agents[1:]) if a != b)
        mid_reads = sum(1 for j, t in enumerate(raw) if t[0] == 'read' and any(x[0] in ('exists', 'put', 'commit') for x in raw[j + 1:]))
        dups = sum(1 for ups in uploads_at.values() if len(ups) > 1)
        res['summary'].update(interleaving_switches=switches, reads_during=mid_reads, duplicate_uploads=dups, max_parked=gate.max_parked,
                              scheduler_choices=gate.multi_choice, uploads=sum(len(u) for u in uploads_at.values()))
        res['nontrivial'] = {'c02': switches >= k and mid_reads >= 1, 'c07': dups >= 1}
    return res


def check_conc(res, drv, out, want_reads=True):
    """the model must ACCEPT the observed per-call trace, end in the implementation's object map, answer every read like the
    implementation, count uploads / absent observations alike; its sequential runs (any order) must give the same map.  → #problems"""
    if not res.get('ok') or drv is None:
        return 0
    rp = {'kind': 'conc', 'idx': res['idx'], 'label': res['label']}
    m = drv.ask(res['req'])
    probs = []
    if 'accepts' not in m:
        probs.append('driver error: ' + str(m.get('error')))
    elif not m['accepts']:
        k = m.get('rejected_at')
        ev = res['req']['trace'][k] if isinstance(k, int) and k < len(res['req']['trace']) else None
        probs.append(f'the observed call trace is not an execution of the concurrent model: call #{k} {ev} is rejected (after {res["req"]["trace"][max(0, (k or 0) - 3):k]})')
    else:
        fin = H.canon_store(res['final'])
        if not m['complete']:
            probs.append('all commands returned but the model execution is not complete')
        if H.canon_store(m['store']) != fin:
            a, b = set(H.canon_store(m['store'])), set(fin)
            probs.append(f'final object map differs: only in model {sorted(a - b)[:2]}, only in implementation {sorted(b - a)[:2]}')
        for o, sq in zip(res['req']['orders'], m['sequential']):
            if H.canon_store(sq) != fin:
                probs.append(f'the sequential model run in order {o} does not end in the object map of the concurrent execution')
        if not m.get('sequential_schedule_accepted') and all(c['workers'] >= 1 for c in res['req']['cmds']):
            probs.append('the sequential schedule of the same commands is not accepted by the concurrent model or does not end in the store of the sequential model')
        mc = sorted(x for x in m['counts'] if x[2] or x[3])
        if mc != sorted(res['counts']):
            probs.append(f'upload / absent-observation counters differ: model {mc[:4]} implementation {res["counts"][:4]}')
        if want_reads:
            for j, rep in enumerate(m['replies']):
                im = res['reads'].get(j)
                if im is None:
                    continue
                ie = im['error']
                if ie == 'other:KeyError':
                    ie = 'missing'
                me = rep.get('error')
                if (me or None) != ie:
                    probs.append(f'read #{j} ({im["kind"]}): error model {me} implementation {im["error"]}')
                elif me is None:
                    if im['kind'] == 'list':
                        mine = sorted([row[0], row[2]] for row in rep['rows'])
                        if mine != im['rows']:
                            probs.append(f'read #{j} (list): model rows {mine[:4]} implementation {im["rows"][:4]}')
                    elif im['kind'] == 'listfiles':
                        if sorted(rep['rows']) != im['rows']:
                            probs.append(f'read #{j} (list-files): model rows {sorted(rep["rows"])[:4]} implementation {im["rows"][:4]}')
                    else:
                        mine = sorted([f[0], f[1]] for f in rep['files'])
                        if mine != im['files']:
                            probs.append(f'read #{j} (restore): model files {mine[:4]} implementation {im["files"][:4]}')
    if probs:
        out.disagreement(f'overlapping commands ({res["summary"]["commands"]} snapshots, style {res["summary"]["style"]}): ' + '; '.join(probs[:3]), rp)
        return len(probs)
    out.traces_validated += 1
    return 0


def run_conc(out, drv, label, n, prop):
    """`n` overlapping-command cases in worker processes; `prop` ('c02' | 'c07') selects the oracles reported and the non-triviality rule"""
    import multiprocessing as mp
    import os
    import shutil
    from ..common import WORK
    sigs = {'c02': ('conc:',), 'c07': ('dedup:', 'conc:overlapping')}[prop]
    with mp.get_context('fork').Pool(min(16, os.cpu_count() or 4)) as pool:
        got = pool.map(_conc_with_pid, [(out.seed, i, label) for i in range(n)], chunksize=1)
    for pid in {p for p, _ in got}:
        shutil.rmtree(WORK / str(pid), ignore_errors=True)
    for _, res in got:
        out.case(res['summary'], res['nontrivial'][prop])
        out.count('conc-case')
        out.count('conc:commands=%d' % res['summary']['commands'])
        out.count('conc:style=' + res['summary']['style'])
        if res.get('ok'):
            out.count('conc:duplicate-uploads', res['summary']['duplicate_uploads'])
            out.count('conc:reads-while-snapshots-run', res['summary']['reads_during'])
            out.count('conc:backend-calls', res['summary']['calls'])
        for sig, what, rp in res['violations']:
            if sig.startswith(sigs):
                out.violation(sig, what, dict(rp, kind='conc', seed=out.seed, idx=res['idx'], label=label))
        check_conc(res, drv, out)
    return [r for _, r in got]


def _conc_with_pid(arg):
    import os
    return os.getpid(), conc_case(arg)


def replay_conc(rp, drv, prop):
    from .. import common
    res = conc_case((rp.get('seed', common.seed_from_env()), rp['idx'], rp['label']))
    print('summary', res['summary'])
    c = _Collect()
    bad = check_conc(res, drv, c)
    sigs = {'c02': ('conc:',), 'c07': ('dedup:', 'conc:overlapping')}[prop]
    v = [x for x in res['violations'] if x[0].startswith(sigs)]
    for x in v:
        print('violation', x[0], x[1])
    for dd in c.d:
        print('disagreement', dd)
    return 1 if (v or bad) else 0
