"""Extensions of `history.py` for C02 / C07 / C08 (history.py itself is shared and unchanged):

* `run(...)`: `history.run_histories` behind a proxy so that each property applies its OWN non-triviality rule and its own
  additional direct oracles to the same logs, and every reported replay carries (seed, label, n_ops);
* direct oracles evaluated on the abstracted object maps before/after every real command (`c02_oracles`, `c07_oracles`,
  `c08_oracles`) — each is the statement of a theorem of Properties/C02|C07|C08.lean read off the REAL backend;
* `replay_history`: re-run one history and re-apply correspondence + oracles.
"""
from . import history as H


class OutProxy:
    """forwards to the real Outcome; defers `case` (the property decides non-triviality) and completes replay records"""

    def __init__(self, out, extra):
        object.__setattr__(self, '_out', out)
        object.__setattr__(self, '_extra', extra)
        object.__setattr__(self, 'cases', [])

    def case(self, case, nontrivial, sample_limit=6):
        self.cases.append(case)

    def violation(self, sig, what, replay):
        self._out.violation(sig, what, dict(replay, **self._extra))

    def disagreement(self, what, replay):
        self._out.disagreement(what, dict(replay, **self._extra))

    def __getattr__(self, n):
        return getattr(self._out, n)

    def __setattr__(self, n, v):
        setattr(self._out, n, v)


# ------------------------------------------------------------------ helpers on abstract stores
def _snaps(store):
    """(fam, sid) -> body for every intact snapshot object"""
    return {(e[0][1], e[0][2]): e[1][3] for e in store if e[0][0] == 'snap' and e[1][0] == 'snap'}


def _chunks(store):
    return {(e[0][1], e[0][2]) for e in store if e[0][0] == 'chunk'}


def _refs(store, fam=None):
    out = set()
    for (f, _), b in _snaps(store).items():
        if fam is None or f == fam:
            out.update((f, c) for c in b['chunks'])
    return out


def c02_oracles(log):
    """→ [(sig, what, step)]: objects replicat wrote are never replaced by foreign bytes; a snapshot object that is still
    there is the one that was written; no referenced chunk disappears in a step that succeeded or failed"""
    res = []
    for i, st in enumerate(log['steps']):
        if st['kind'] == 'orphan':
            continue
        for e in st['store_after']:
            if e[0][0] in ('chunk', 'snap') and e[1][0] == 'blob':
                res.append(('history:object-overwritten', f'after {st["kind"]} the object {e[0]} no longer holds bytes written for it', i))
        b, a = _snaps(st['store_before']), _snaps(st['store_after'])
        for k in b:
            if k in a and a[k] != b[k]:
                res.append(('history:snapshot-object-changed', f'{st["kind"]} changed the body of snapshot {k}', i))
        missing = _refs(st['store_after']) - _chunks(st['store_after'])
        if missing - (_refs(st['store_before']) - _chunks(st['store_before'])):
            res.append(('history:referenced-chunk-missing', f'after {st["kind"]} by {st["user"]} chunks {sorted(missing)[:3]} referenced by a remaining snapshot are gone', i))
        if st.get('error') and H.canon_store(st['store_before']) != H.canon_store(st['store_after']):
            res.append(('history:refused-command-mutated', f'{st["kind"]} was refused ({st["error"]}) but changed the repository', i))
    return res


def c07_oracles(log):
    res = []
    pending = set()     # families with an injected orphan not yet cleaned
    enc = log['cfg']['enc']
    for i, st in enumerate(log['steps']):
        fam = st['user'][1]
        if st['kind'] == 'orphan':
            pending.add(fam)
            continue
        before, after = st['store_before'], st['store_after']
        names = [tuple(e[0]) for e in after if e[0][0] == 'chunk']
        if len(names) != len(set(names)):
            res.append(('dedup:same-chunk-stored-twice', f'after {st["kind"]} one (family, content) is stored under two locations', i))
        if st['kind'] == 'snapshot':
            present = _chunks(before)
            up = [tuple(x[1:]) for x in st['uploaded']]
            again = [x for x in up if x in present]
            if again:
                res.append(('dedup:present-chunk-uploaded-again', f'snapshot by {st["user"]} uploaded chunks that were already stored: {again[:3]}', i))
            if any(x[0] != fam for x in up):
                res.append(('dedup:upload-under-foreign-family', f'snapshot by family {fam} wrote chunk names of another family', i))
            mine = {(f[0], f[1]) for f in st['op']['files']}
            same = [k for k, b in _snaps(before).items() if k[0] == fam and {(f[0], f[1]) for f in b['files']} == mine
                    and all((fam, c) in present for c in b['chunks'])]
            if same and st['upload_count'] > 0:
                res.append(('dedup:repeat-snapshot-uploaded-chunks',
                            f'snapshot of unchanged data by {st["user"]} ({st["user_kind"]}; same data as snapshot {same[0]}) transferred {st["upload_count"]} chunk payloads', i))
            # independent users never alias: objects of other families are untouched by a snapshot
            ob = {H.canon_store([e])[0] for e in before if e[0][0] in ('chunk', 'snap') and e[0][1] != fam}
            oa = {H.canon_store([e])[0] for e in after if e[0][0] in ('chunk', 'snap') and e[0][1] != fam}
            if ob != oa:
                res.append(('dedup:snapshot-touched-other-family', f'snapshot by family {fam} changed objects of another family', i))
        if st['kind'] == 'clean' and st['error'] is None:
            pending.discard(fam)
            if not enc:
                pending.clear()
        for f in {x[0] for x in _chunks(after)} | {k[0] for k in _snaps(after)}:
            if f in pending:
                continue
            objs = {c for (ff, c) in _chunks(after) if ff == f}
            refs = {c for (ff, c) in _refs(after, f)}
            if objs != refs:
                res.append(('dedup:objects-differ-from-referenced',
                            f'after {st["kind"]} family {f}: stored-but-unreferenced {sorted(objs - refs)[:3]}, referenced-but-missing {sorted(refs - objs)[:3]}', i))
    return res


def c08_oracles(log):
    res = []
    enc = log['cfg']['enc']
    for i, st in enumerate(log['steps']):
        if st['kind'] not in ('delete', 'clean'):
            continue
        fam = st['user'][1]
        before, after = st['store_before'], st['store_after']
        sb, sa = _snaps(before), _snaps(after)
        cb, ca = _chunks(before), _chunks(after)
        if st['kind'] == 'delete' and st['error'] is None:
            gone = [k for k in sb if k not in sa]
            want = {s for s in st['targets']}
            if {k[1] for k in gone} != want:
                res.append(('gc:delete-wrong-snapshots', f'delete of {sorted(want)} removed snapshot objects {sorted(gone)}', i))
            still = _refs(after, fam)
            left = sorted(x for k in gone for x in ((k[0], c) for c in sb[k]['chunks']) if x not in still and x in ca)
            if left:
                res.append(('gc:delete-incomplete', f'after delete by {st["user"]} chunks {left[:3]} referenced only by the deleted snapshots are still stored', i))
            removed = cb - ca
            bad = sorted(x for x in removed if x not in {(k[0], c) for k in gone for c in sb[k]['chunks']})
            if bad:
                res.append(('gc:delete-removed-unrelated-chunk', f'delete removed chunks {bad[:3]} that no deleted snapshot referenced', i))
        if st['kind'] == 'clean' and st['error'] is None:
            if sb != sa or {tuple(e[0]) for e in before if e[0][0] == 'snap'} != {tuple(e[0]) for e in after if e[0][0] == 'snap'}:
                res.append(('gc:clean-touched-snapshot', 'clean removed or changed a snapshot object', i))
            own = {c for (f, c) in ca if f == fam}
            want = {c for (f, c) in cb if f == fam} & {c for (f, c) in _refs(after, fam)}
            if own != want:
                res.append(('gc:clean-not-exact', f'after clean by family {fam}: orphans left {sorted(own - want)[:3]}, referenced chunks removed {sorted(want - own)[:3]}', i))
        # frame: config, stray objects, other families (encrypted)
        keep_b = {H.canon_store([e])[0] for e in before if e[0][0] in ('config', 'other') or (enc and e[0][0] in ('chunk', 'snap') and e[0][1] != fam)}
        keep_a = {H.canon_store([e])[0] for e in after if e[0][0] in ('config', 'other') or (enc and e[0][0] in ('chunk', 'snap') and e[0][1] != fam)}
        if keep_b != keep_a:
            res.append(('gc:foreign-object-touched', f'{st["kind"]} by family {fam} changed objects that are not its own: {sorted(keep_b ^ keep_a)[:2]}', i))
    return res


def c07_nontrivial(log):
    """a snapshot whose data repeats a block inside itself or shares ≥ 1 chunk with data already stored by its family"""
    for st in log['steps']:
        if st['kind'] == 'snapshot':
            stream = st['op']['stream']
            fam = st['user'][1]
            if len(set(stream)) < len(stream) or any((fam, c) in _chunks(st['store_before']) for c in stream):
                return True
    return False


def c08_nontrivial(log):
    """a successful delete or clean in a state with ≥ 1 orphan chunk or ≥ 1 object of another family / outside the areas"""
    for st in log['steps']:
        if st['kind'] in ('delete', 'clean') and st.get('error') is None:
            b = st['store_before']
            fam = st['user'][1]
            orphans = _chunks(b) - _refs(b)
            foreign = any(e[0][0] in ('chunk', 'snap') and e[0][1] != fam for e in b)
            if orphans or foreign:
                return True
    return False


def run(out, drv, label, n_hist, n_ops, oracles, rule, extra):
    """→ logs.  `rule(log)` = the property's non-triviality rule; `extra` = list of oracle functions log → [(sig, what, step)]"""
    info = {'seed': out.seed, 'label': label, 'n_ops': n_ops}
    proxy = OutProxy(out, info)
    logs = H.run_histories(proxy, drv, label, n_hist, n_ops, oracles)
    for log, summary in zip(logs, proxy.cases):
        out.case(summary, rule(log))
        for fn in extra:
            for sig, what, step in fn(log):
                out.violation(sig, what, dict(info, kind='history', idx=log['idx'], step=step))
        for st in log['steps']:
            if st['kind'] in ('delete', 'clean') and not st.get('error'):
                b = st['store_before']
                if _chunks(b) - _refs(b):
                    out.count('gc-with-orphans')
                if any(e[0][0] in ('chunk', 'snap') and e[0][1] != st['user'][1] for e in b):
                    out.count('gc-with-other-family')
            if st['kind'] == 'snapshot':
                out.count('snapshot-by:' + st['user_kind'])
                if st.get('repeat'):
                    out.count('snapshot:repeat-of-previous-data')
                if st['upload_count'] == 0 and st['op']['stream']:
                    out.count('snapshot:uploaded-nothing')
    return logs


class _Collect:
    def __init__(self):
        self.v, self.d, self.traces_validated, self.seed = [], [], 0, 0

    def violation(self, sig, what, rp):
        self.v.append((sig, what))

    def disagreement(self, what, rp):
        self.d.append(what)

    def case(self, *a, **k):
        pass

    def count(self, *a, **k):
        pass


def replay_history(rp, drv, oracles, extra):
    """re-run one history (seed, label, idx, n_ops from the replay record) and re-apply everything; → exit code"""
    from .. import common
    seed = rp.get('seed', common.seed_from_env())
    log = H.run_history((seed, rp['idx'], rp['label'], rp['n_ops']))
    c = _Collect()
    H.check_history(log, drv, c, oracles)
    for fn in extra:
        for sig, what, step in fn(log):
            c.v.append((sig, what + f' (step {step})'))
    print('history', {'enc': log['cfg']['enc'], 'users': log['user_kinds'], 'chunking': log['cfg']['chunking']})
    for i, st in enumerate(log['steps']):
        print(f'  step {i}: {st["kind"]} by {st["user"]} ({st["user_kind"]})' + (f' -> {st["error"]}' if st.get('error') else ''))
    for sig, what in c.v:
        print('violation', sig, what)
    for what in c.d:
        print('disagreement', what)
    return 1 if (c.v or c.d) else 0


def hard_exit(rc):
    """replay runs the real code in the main process; a restore that failed (missing chunk) leaves replicat's loader threads blocked
    on a slot of the closed event loop, which would block interpreter shutdown forever — leave without joining them"""
    import os
    import sys
    import threading
    sys.stdout.flush()
    sys.stderr.flush()
    if any(t is not threading.main_thread() and t.is_alive() and not t.daemon for t in threading.enumerate()):
        os._exit(rc)
    return rc
