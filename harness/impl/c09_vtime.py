"""Virtual time for the schedule controller (C09): an arbitrarily slow backend without sleeping.

The class of behaviour: *the outcome of a command depends on the wall-clock latency of a transfer*.  Under the schedule controller
every backend transfer is held (parked) until the controller completes it, so "how long did the transfer take" is a scheduling
decision, not a measurement.  This module makes that decision visible to replicat's code:

* a discrete virtual clock (`VClock.now`, milliseconds) that belongs to the controller;
* every wait **with a finite timeout issued by code of the `replicat` package** — `Future.result/exception(timeout)`,
  `concurrent.futures.wait/as_completed(timeout=)`, `asyncio.wait_for`, `asyncio.wait(timeout=)`, `asyncio.timeout`,
  `threading.Event.wait`, `threading.Condition.wait/wait_for`, `Lock.acquire(timeout=)`, `queue.Queue.get/put(timeout=)` — is
  registered as a *virtual timed wait* with the deadline `now + timeout` (waits of at most `REAL_MAX` seconds are simply performed
  in real time: they do expire for real while the controller holds a transfer);
* a scheduling action `TICK`: the clock jumps to the earliest deadline and that wait expires (it raises / returns exactly what the
  primitive raises / returns on a time-out).  `TICK` is offered to the strategy only in states in which nothing but backend
  transfers is enabled (threads run in zero virtual time, only the network is slow) — i.e. the wait expires *while a transfer is
  being held by the controller* — or, after a real-time stall, when nothing at all is enabled (then only the passage of time can
  move the operation on).  The number of ticks per run is bounded (transfers are arbitrarily slow, not infinitely slow), so a wait
  that is retried after its time-out (the harmless shape) still terminates.

The oracle stays the property's own statement: the command's result under every such latency equals the sequential run's.
"""
import asyncio
import concurrent.futures as _cf
import os
import sys
import threading as _threading
import time

TICK = ('~tick',)
REAL_MAX = 0.25          # finite waits of at most this many seconds are performed in real time
STEP = 0.004             # real length of one bounded attempt of a virtual wait
MAX_TICKS = 48           # per run
MAX_CONSECUTIVE = 6
MAX_FORCED = 24          # ticks taken because nothing else could move (per run)
FORCED_AFTER = 0.2       # real seconds without an enabled agent before time is allowed to pass on its own


class VWait:
    __slots__ = ('agent', 'prim', 'timeout', 'where', 'deadline', 'seq', 'expired', 'wake', 'slot_wait')

    def __init__(self, agent, prim, timeout, where, deadline, seq, wake):
        self.agent, self.prim, self.timeout, self.where, self.deadline, self.seq, self.wake = agent, prim, timeout, where, deadline, seq, wake
        self.expired = False
        self.slot_wait = where.startswith('_acquire_slot')


class VClock:
    """virtual clock of one controller; all fields are read / written under `ctl.cv`"""

    def __init__(self, ctl, enabled=True):
        self.ctl = ctl
        self.enabled = enabled
        self.now = 0                  # ms
        self.waits = {}               # seq → VWait
        self.seq = 0
        self.ticks = 0
        self.forced = 0
        self.consecutive = 0
        self.expired = []             # (agent, prim, timeout_s, where, now_ms, held transfers, forced?)
        self.voided = 0               # expiries that lost the race against the completion of the wait
        self.seen = {}                # (primitive, 'untimed' | 'real' | 'virtual') → number of waits issued by replicat code
        self.windows = 0              # decision points at which only transfers were enabled while somebody waited for a slot
        self.windows_any = 0          # … decision points at which only transfers were enabled (≥ 1 held)

    def note(self, prim, timeout):
        cls = 'untimed' if timeout is None else ('real' if timeout <= REAL_MAX else 'virtual')
        k = (prim, cls)
        self.seen[k] = self.seen.get(k, 0) + 1
        return cls

    # ---- (under ctl.cv)
    def register(self, agent, prim, timeout, where, wake=None):
        ctl = self.ctl
        self.seq += 1
        vw = VWait(agent, prim, timeout, where, self.now + int(round(timeout * 1000)), self.seq, wake)
        self.waits[vw.seq] = vw
        ctl.running.pop(agent, None)          # the agent is blocked now
        ctl.log.append(('vt_wait', agent, prim, timeout, where, self.now))
        ctl.last_event = time.monotonic()
        ctl.cv.notify_all()
        return vw

    def unregister(self, vw, completed):
        ctl = self.ctl
        self.waits.pop(vw.seq, None)
        if completed and vw.expired:
            self.voided += 1
            ctl.log.append(('vt_expire_void', vw.agent, vw.prim, vw.where))
        ctl.last_event = time.monotonic()
        ctl.cv.notify_all()

    def offer(self, cands):
        """may TICK be a candidate next to the enabled parked agents `cands`?"""
        if not self.enabled or not self.waits or self.ticks >= MAX_TICKS or self.consecutive >= MAX_CONSECUTIVE:
            return False
        parked = self.ctl.parked
        if not (bool(cands) and all(parked[c].kind == 'call' for c in cands)):
            return False
        # a slot request issued by a thread reaches the queue on the event loop: wait until every pending one is there (the
        # request's place in the trace is where the queue saw it)
        slots = self.ctl.slots
        if slots is not None and sum(1 for w in self.waits.values() if w.slot_wait) > len(getattr(slots, '_getters', ())):
            return False
        return True

    def may_force(self):
        return self.enabled and bool(self.waits) and self.forced < MAX_FORCED

    def tick(self, forced=False):
        """the clock jumps to the earliest deadline; that wait expires"""
        ctl = self.ctl
        vw = min(self.waits.values(), key=lambda w: (w.deadline, w.seq))
        del self.waits[vw.seq]
        before = self.now
        self.now = max(self.now, vw.deadline)
        vw.expired = True
        self.ticks += 1
        self.consecutive += 1
        if forced:
            self.forced += 1
        held = [p.info for p in ctl.parked.values() if p.kind == 'call']
        self.expired.append((vw.agent, vw.prim, vw.timeout, vw.where, self.now, held, forced))
        ctl.log.append(('vt_expire', vw.agent, vw.prim, vw.timeout, vw.where, before, self.now, len(held), forced))
        ctl.running[vw.agent] = time.monotonic()
        ctl.last_event = time.monotonic()
        if vw.wake is not None:
            vw.wake()
        return vw


# ------------------------------------------------------------------------------------------------ who is asking
_PKG = [None]
_CODE = {}
EXTRA_CODE = set()       # code objects of the harness that stand in for replicat code (the control of `retried_slot_wait`)


def _pkg_dir():
    if _PKG[0] is None:
        import replicat.repository as M
        _PKG[0] = os.path.dirname(os.path.abspath(M.__file__)) + os.sep
    return _PKG[0]


def replicat_frame(frame):
    """is `frame` executing code of the replicat package (the checkout under test)?"""
    co = frame.f_code
    r = _CODE.get(co)
    if r is None:
        r = _CODE[co] = co in EXTRA_CODE or os.path.abspath(co.co_filename).startswith(_pkg_dir())
    return r


ROLE_NAMES = {}      # actual function name → canonical role name ('_acquire_slot…'), set by sched_ctl.Instrument from what the objects are


def _where(frame):
    """innermost function of the replicat package on the stack of `frame` (slot managers under their canonical role name)"""
    f = frame
    while f is not None:
        if replicat_frame(f):
            n = f.f_code.co_name
            return ROLE_NAMES.get(n, n)
        f = f.f_back
    return '?'


def _ctl():
    from . import sched_ctl
    ctl = sched_ctl.CURRENT
    if ctl is None or getattr(ctl, 'vt', None) is None:
        return None
    return ctl


def _virtual(ctl, prim, timeout):
    """note the wait; → should it be performed in virtual time?"""
    if isinstance(timeout, bool) or not isinstance(timeout, (int, float)):
        timeout_v = None if timeout is None else -1.0
    else:
        timeout_v = float(timeout)
    with ctl.cv:
        cls = ctl.vt.note(prim, None if timeout is None else max(timeout_v, 0.0))
    return cls == 'virtual' and ctl.vt.enabled and ctl.mode == 'ctl'


# ------------------------------------------------------------------------------------------------ blocking waits
def timed_wait(ctl, prim, timeout, attempt, frame):
    """One finite wait of a thread in virtual time.  `attempt(t)` performs the real primitive for at most `t` real seconds and
    returns (completed?, value); exceptions of the primitive itself propagate.  → (completed?, value); (False, None) = timed out."""
    from .sched_ctl import SchedTeardown
    agent = ctl.agent() or ('T', _threading.get_ident())
    done, val = attempt(0)
    if done:                    # nothing to wait for
        return True, val
    with ctl.cv:
        vw = ctl.vt.register(agent, prim, timeout, _where(frame))
    completed = False
    try:
        while True:
            done, val = attempt(STEP)
            if done:
                completed = True
                return True, val
            with ctl.cv:
                if vw.expired:
                    return False, None
            if ctl.mode == 'teardown':
                raise SchedTeardown(prim)
            if ctl.mode != 'ctl' or ctl.stop:
                # the controller is gone: plain semantics
                done, val = attempt(timeout)
                completed = done
                return done, val
    finally:
        with ctl.cv:
            ctl.vt.unregister(vw, completed)


_ORIG = {}


def _future_result(self, timeout=None):
    orig = _ORIG['Future.result']
    ctl = _ctl()
    if ctl is None:
        return orig(self, timeout)
    fr = sys._getframe(1)
    if not replicat_frame(fr):
        return orig(self, timeout)
    if not _virtual(ctl, 'Future.result', timeout):
        return orig(self, timeout)

    def attempt(t):
        try:
            return True, orig(self, t)
        except _cf.TimeoutError:
            if self.done():         # the future's own exception
                raise
            return False, None
    ok, val = timed_wait(ctl, 'Future.result', timeout, attempt, fr)
    if not ok:
        raise _cf.TimeoutError()
    return val


def _future_exception(self, timeout=None):
    orig = _ORIG['Future.exception']
    ctl = _ctl()
    if ctl is None:
        return orig(self, timeout)
    fr = sys._getframe(1)
    if not replicat_frame(fr) or not _virtual(ctl, 'Future.exception', timeout):
        return orig(self, timeout)

    def attempt(t):
        try:
            return True, orig(self, t)
        except _cf.TimeoutError:
            if self.done():
                raise
            return False, None
    ok, val = timed_wait(ctl, 'Future.exception', timeout, attempt, fr)
    if not ok:
        raise _cf.TimeoutError()
    return val


def _cf_wait(fs, timeout=None, return_when=_cf.ALL_COMPLETED):
    orig = _ORIG['cf.wait']
    ctl = _ctl()
    if ctl is None:
        return orig(fs, timeout, return_when)
    fr = sys._getframe(1)
    if not replicat_frame(fr) or not _virtual(ctl, 'futures.wait', timeout):
        return orig(fs, timeout, return_when)
    fs = list(fs)

    def attempt(t):
        r = orig(fs, t, return_when)
        over = (not r.not_done) if return_when == _cf.ALL_COMPLETED else bool(r.done) and (
            return_when == _cf.FIRST_COMPLETED or not r.not_done or any(not f.cancelled() and f.exception() is not None for f in r.done))
        return over, r
    ok, val = timed_wait(ctl, 'futures.wait', timeout, attempt, fr)
    return val if ok else orig(fs, 0, return_when)


def _cf_as_completed(fs, timeout=None):
    orig = _ORIG['cf.as_completed']
    ctl = _ctl()
    if ctl is None:
        return orig(fs, timeout)
    fr = sys._getframe(1)
    if not replicat_frame(fr) or not _virtual(ctl, 'futures.as_completed', timeout):
        return orig(fs, timeout)
    fs = list(fs)
    wait = _ORIG['cf.wait']

    def gen():
        # one (virtual) deadline for the whole iteration, like the original
        pending = set(fs)
        with ctl.cv:
            t0 = ctl.vt.now

        def attempt(t):
            r = wait(pending, t, _cf.FIRST_COMPLETED)
            return bool(r.done), r.done
        while pending:
            ready = {f for f in pending if f.done()}
            if not ready:
                with ctl.cv:
                    remaining = timeout - (ctl.vt.now - t0) / 1000.0
                if remaining <= 0:
                    ok = False
                elif ctl.mode != 'ctl':
                    ok, ready = attempt(remaining)
                else:
                    ok, ready = timed_wait(ctl, 'futures.as_completed', remaining, attempt, fr)
                if not ok:
                    raise _cf.TimeoutError('%d (of %d) futures unfinished' % (len(pending), len(fs)))
            for f in ready:
                pending.discard(f)
                yield f
    return gen()


class VEvent(_threading.Event):
    """`threading.Event` of replicat.repository during an operation"""

    def wait(self, timeout=None):
        ctl = _ctl()
        if ctl is None or not _virtual(ctl, 'Event.wait', timeout):
            return super().wait(timeout)
        sup = super().wait
        ok, _ = timed_wait(ctl, 'Event.wait', timeout, lambda t: (sup(t), None), sys._getframe(1))
        return ok


class VCondition(_threading.Condition):
    """`threading.Condition` of replicat.repository during an operation"""

    def wait(self, timeout=None):
        ctl = _ctl()
        if ctl is None or not _virtual(ctl, 'Condition.wait', timeout):
            return super().wait(timeout)
        sup = super().wait
        ok, _ = timed_wait(ctl, 'Condition.wait', timeout, lambda t: (sup(t), None), sys._getframe(1))
        return ok

    def wait_for(self, predicate, timeout=None):
        ctl = _ctl()
        if ctl is None or timeout is None or timeout <= REAL_MAX:
            return super().wait_for(predicate, timeout)
        result = predicate()
        if not result:
            self.wait(timeout)      # (one wait with the whole budget: a notification that leaves the predicate false ends the wait early)
            result = predicate()
        return result


def queue_timed(ctl, q, prim, timeout, attempt, frame):
    """`Queue.get/put(…, timeout)` of RecQueue: → (virtual?, completed?, value)"""
    if not _virtual(ctl, prim, timeout):
        return False, None, None
    ok, val = timed_wait(ctl, prim, timeout, attempt, frame)
    return True, ok, val


def lock_timed(ctl, lock, timeout, frame):
    """`Lock.acquire(timeout=…)` of ParkLock in controlled mode: park at the acquisition (enabled while the lock is free) and
    register the virtual deadline; an expiry un-parks the thread with the action 'timeout'.  → the action of the park"""
    agent = ctl.agent() or ('T', _threading.get_ident())

    def wake():
        # (under ctl.cv, from the controller thread)
        p = ctl.parked.pop(agent, None)
        if p is not None:
            ctl._release(p, 'timeout')
    with ctl.cv:
        vw = ctl.vt.register(agent, 'Lock.acquire', timeout, _where(frame), wake)
    act = None
    try:
        act = ctl.park(agent, 'acq', lock, enabled=lambda: lock.owner is None)
        return act
    finally:
        with ctl.cv:
            ctl.vt.unregister(vw, act is not None and act != 'timeout')


# ------------------------------------------------------------------------------------------------ waits on the event loop
_ASEQ = [0]


def _aagent(prim):
    _ASEQ[0] += 1
    return ('A', prim, _ASEQ[0])


def _aregister(ctl, prim, timeout, frame, fire):
    loop = asyncio.get_running_loop()

    def wake():
        try:
            loop.call_soon_threadsafe(fire)
        except RuntimeError:
            pass
    with ctl.cv:
        return ctl.vt.register(_aagent(prim), prim, timeout, _where(frame), wake)


async def _a_wait_for(fut, timeout):
    ctl = _ctl()
    if ctl is None or not _virtual(ctl, 'asyncio.wait_for', timeout):
        return await asyncio.wait_for(fut, timeout)
    fr = sys._getframe(0).f_back or sys._getframe(0)
    loop = asyncio.get_running_loop()
    task = asyncio.ensure_future(fut)
    exp = loop.create_future()
    vw = _aregister(ctl, 'asyncio.wait_for', timeout, fr, lambda: exp.done() or exp.set_result(None))
    completed = False
    try:
        try:
            await asyncio.wait({task, exp}, return_when=asyncio.FIRST_COMPLETED)
        except BaseException:
            task.cancel()
            raise
        if task.done():
            completed = True
            return task.result()
        task.cancel()
        try:
            r = await task
        except asyncio.CancelledError:
            raise asyncio.TimeoutError() from None
        completed = True
        return r
    finally:
        exp.cancel()
        with ctl.cv:
            ctl.vt.unregister(vw, completed)


async def _a_wait(fs, *, timeout=None, return_when=asyncio.ALL_COMPLETED):
    ctl = _ctl()
    if ctl is None or not _virtual(ctl, 'asyncio.wait', timeout):
        return await asyncio.wait(fs, timeout=timeout, return_when=return_when)
    fr = sys._getframe(0).f_back or sys._getframe(0)
    fs = {asyncio.ensure_future(f) for f in fs}
    loop = asyncio.get_running_loop()
    inner = asyncio.ensure_future(asyncio.wait(fs, return_when=return_when))
    exp = loop.create_future()
    vw = _aregister(ctl, 'asyncio.wait', timeout, fr, lambda: exp.done() or exp.set_result(None))
    completed = False
    try:
        try:
            await asyncio.wait({inner, exp}, return_when=asyncio.FIRST_COMPLETED)
        except BaseException:
            inner.cancel()
            raise
        if inner.done():
            completed = True
            return inner.result()
        inner.cancel()
        done = {f for f in fs if f.done()}
        return done, fs - done
    finally:
        exp.cancel()
        with ctl.cv:
            ctl.vt.unregister(vw, completed)


class _VTimeout:
    """`async with asyncio.timeout(delay)`: the real object without a deadline; a virtual expiry re-schedules it to *now*"""

    def __init__(self, ctl, delay, frame):
        self.ctl, self.delay, self.frame = ctl, delay, frame
        self.cm = asyncio.timeout(None)
        self.vw = None
        self.inside = False

    def _fire(self):
        if self.inside and not self.cm.expired():
            self.cm.reschedule(asyncio.get_running_loop().time())

    async def __aenter__(self):
        await self.cm.__aenter__()
        self.inside = True
        self.vw = _aregister(self.ctl, 'asyncio.timeout', self.delay, self.frame, self._fire)
        return self.cm

    async def __aexit__(self, et, ev, tb):
        self.inside = False
        try:
            return await self.cm.__aexit__(et, ev, tb)
        finally:
            with self.ctl.cv:
                self.ctl.vt.unregister(self.vw, not self.cm.expired())


def _a_timeout(delay):
    ctl = _ctl()
    if ctl is None or not _virtual(ctl, 'asyncio.timeout', delay):
        return asyncio.timeout(delay)
    return _VTimeout(ctl, delay, sys._getframe(1))


# ------------------------------------------------------------------------------------------------ installation
def install(ctl, module, ns_factory):
    """called by sched_ctl.Instrument.__enter__ (after it has replaced `module.threading`): give `ctl` a virtual clock, patch
    the blocking primitives (the patches act only on calls made by code of the replicat package) and `module.asyncio`"""
    if getattr(ctl, 'vt', None) is None:
        ctl.vt = VClock(ctl, enabled=getattr(ctl, 'vtime', True))
    _CODE.clear()
    _PKG[0] = None
    _pkg_dir()
    saved = {'asyncio': getattr(module, 'asyncio', None), 'cf.wait': _cf.wait, 'cf.as_completed': _cf.as_completed,
             'Future.result': _cf.Future.result, 'Future.exception': _cf.Future.exception}
    _ORIG.update({k: v for k, v in saved.items() if k != 'asyncio'})
    _cf.Future.result = _future_result
    _cf.Future.exception = _future_exception
    _cf.wait = _cf_wait
    _cf.as_completed = _cf_as_completed
    if saved['asyncio'] is not None:
        module.asyncio = ns_factory(asyncio, wait_for=_a_wait_for, wait=_a_wait, timeout=_a_timeout)
    return saved


def uninstall(module, saved):
    _cf.Future.result = saved['Future.result']
    _cf.Future.exception = saved['Future.exception']
    _cf.wait = saved['cf.wait']
    _cf.as_completed = saved['cf.as_completed']
    if saved.get('asyncio') is not None:
        module.asyncio = saved['asyncio']


# ------------------------------------------------------------------------------------------------ control
def retried_slot_wait(repo, timeout=30):
    """CONTROL (not replicat's code): give `repo` a `_acquire_slot_threadsafe` whose request is a finite wait that is *retried* after
    its time-out — the harmless way of writing a bounded wait.  Under virtual time the wait must expire (the machinery works on
    this tree) and the operation's result must not change (a retried wait is no alarm)."""
    from contextlib import contextmanager

    @contextmanager
    def _acquire_slot_threadsafe(*, loop):
        from .sched_ctl import slots_of
        pending = asyncio.run_coroutine_threadsafe(slots_of(repo).get(), loop)
        while True:
            try:
                slot = pending.result(timeout=timeout)
            except _cf.TimeoutError:
                continue
            break
        try:
            yield slot
        finally:
            loop.call_soon_threadsafe(slots_of(repo).put_nowait, slot)
    EXTRA_CODE.add(_acquire_slot_threadsafe.__wrapped__.__code__)
    from .sched_ctl import slot_roles
    setattr(repo, slot_roles(repo)[2], _acquire_slot_threadsafe)


# ------------------------------------------------------------------------------------------------ strategy
class SlowTransfers:
    """a slow backend: a transfer completes only when nothing else can move, and whenever the virtual clock may advance it does
    (at most `max_ticks` times) — every finite wait that overlaps a transfer expires before that transfer completes.  Which of
    the held transfers completes next is random."""
    name = 'slow'

    def __init__(self, rng, max_ticks=4):
        self.rng, self.max_ticks = rng, max_ticks
        self.ticks = 0

    def choose(self, cands, step, last, ctl):
        from .sched_ctl import WAIT
        if TICK in cands and self.ticks < self.max_ticks:
            self.ticks += 1
            return TICK
        real = [c for c in cands if c != WAIT and c != TICK] or cands
        other = [c for c in real if c in ctl.parked and ctl.parked[c].kind != 'call']
        return self.rng.choice(other or real)
