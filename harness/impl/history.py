"""Random histories of snapshot / delete / clean (+ listings and restores) by several users on one real repository, each step
compared with the Lean model (`repo.step`, `repo.restore`, `repo.list`) through the abstraction of `world.py`, plus the direct
oracles of C02 / C06 / C07 / C08.  One worker process per history; the parent talks to the driver."""
import multiprocessing as mp
import os
import re

from ..common import rng_for
from . import runner as R
from .world import World, canon_store


def gen_world_cfg(r, deep=False):
    enc = r.random() < (0.9 if deep else 0.75)
    kinds = []
    if enc:
        for _ in range(r.choice([1, 2, 2, 3]) if deep else r.choice([0, 1, 1, 2, 3])):
            kinds.append((r.choice(['clone', 'shared', 'shared', 'independent', 'independent']), None))
    else:
        for _ in range(r.choice([0, 1])):
            kinds.append(('clone', None))
    return {'enc': enc, 'users': kinds, 'chunking': r.choice([(8, 32), (8, 32), (16, 64), (5, 12), (13, 50)]),
            'concurrent': r.choice([1, 1, 1, 2]) if deep else r.choice([1, 2, 3, 5]), 'async_backend': r.random() < 0.3,
            'cipher': r.choice([None, None, {'name': 'chacha20_poly1305'}, {'name': 'aes_gcm', 'key_bits': 128}]) if enc else None}


def gen_fileset(r, blocks, prev):
    """file sets overlap: files are concatenations of shared blocks; paths appear / change / disappear"""
    names = ['a', 'b', 'c/d', 'c/e', 'f']
    fs = {}
    for nm in names:
        k = r.random()
        if k < 0.35:
            continue
        if k < 0.6 and prev and nm in prev:
            fs[nm] = prev[nm]
            continue
        parts = [r.choice(blocks) for _ in range(r.choice([0, 1, 1, 2, 3]))]
        fs[nm] = b''.join(parts) + (r.randbytes(r.choice([0, 0, 3, 9])))
    if r.random() < 0.5:
        # several small files of exactly the same size but different content (they share chunks of the stream: their order matters)
        n = r.choice([5, 12, 30])
        for nm in ('q/eq1', 'eq2', 'c/eq3')[:r.choice([2, 3])]:
            fs[nm] = r.randbytes(n)
    return fs


def run_history(arg):
    seed, idx, label, n_ops = arg
    from .. import common
    common.use_rebuilt_chunker()
    r = rng_for(seed, label, idx)
    # 'deep' histories: MANY snapshot objects relative to the client's connection count (repositories larger than any look-ahead /
    # batch / window sized from `concurrent`), by several keys, with the destructive commands rarer so that the repository grows
    deep = label.endswith('-deep')
    p_snap, p_del, p_clean = (0.74, 0.86, 0.97) if deep else (0.45, 0.72, 0.88)
    cfg = gen_world_cfg(r, deep)
    log = {'idx': idx, 'cfg': cfg, 'steps': [], 'violations': [], 'flags': set()}
    with R.Scratch(f'h_{label}_{idx}') as sc:
        w = World(sc, enc=cfg['enc'], chunking=cfg['chunking'], concurrent=cfg['concurrent'], cipher=cfg['cipher'], async_backend=cfg['async_backend'])
        for kind, _ in cfg['users']:
            w.add_user(kind, base=r.randrange(len(w.users)))
        blocks = [r.randbytes(r.choice([24, 40, 64, 100, 130])) for _ in range(5)] + [bytes(64)]
        prev = None
        others = {}
        # a client may keep ONE Repository object for many commands (a long-lived process / library use) or create one per command (CLI)
        long_lived = r.random() < 0.5
        repos = {}
        if long_lived:
            import asyncio
            R.PERSISTENT_LOOP = asyncio.new_event_loop()      # one loop for the whole history: Repository objects are bound to it

        def repo_of(ui):
            if not long_lived:
                return None
            if ui not in repos:
                repos[ui] = w.repo(ui)
            return repos[ui]
        # a stray object outside the two areas + (encrypted) nothing else: must never be touched
        w.backend.objects['stray/readme'] = b'not replicat'
        for step_no in range(n_ops):
            ui = r.randrange(len(w.users))
            u = w.users[ui]
            store0 = w.abstract_store(others)
            own = [s for s, d in w.snap_by_sid.items() if d['location'] in w.backend.objects and d['owner'] == u.keyid and d['fam'] == u.fam]
            present = [s for s, d in w.snap_by_sid.items() if d['location'] in w.backend.objects]
            k = r.random()
            st = {'user': w.model_user(ui), 'user_kind': u.kind, 'store_before': store0}
            if k < p_snap or not present:
                repeat = prev is not None and r.random() < 0.25
                fs = prev if repeat else gen_fileset(r, blocks, prev)
                order = None
                if r.random() < 0.5 and fs:
                    order = sorted(fs)
                    r.shuffle(order)
                res = w.snapshot(ui, fs, repo=repo_of(ui), whole_second=r.random() < 0.2, path_order=order)
                prev = fs
                st.update(kind='snapshot', op=res['op'], error=None, uploaded=sorted({tuple(w.abstract_name(x)) for x in res['uploaded']}),
                          upload_count=len(res['uploaded']), repeat=repeat)
            elif k < p_del:
                kk = r.random()
                if kk < 0.7 and own:
                    sids = r.sample(own, r.choice([1, 1, 2]) if len(own) > 1 else 1)
                elif kk < 0.85:
                    sids = [r.choice(present)]
                else:
                    sids = [r.choice(present), 999000 + step_no] if r.random() < 0.5 else [999000 + step_no]
                res = w.delete(ui, sids, repo=repo_of(ui))
                st.update(kind='delete', op=res['op'], error=res['error'], targets=sids)
            elif k < p_clean:
                res = w.clean(ui, repo=repo_of(ui))
                st.update(kind='clean', op=res['op'], error=res['error'])
            else:
                # orphan injection (what an interrupted snapshot leaves): upload a chunk nobody references, then continue
                fs = gen_fileset(r, blocks, None)
                snap = w.snapshot(ui, fs)
                # remove the snapshot object again => its new chunks are orphans
                del w.backend.objects[w.snap_by_sid[snap['sid']]['location']]
                st.update(kind='orphan', op=None, error=None)
            st['store_after'] = w.abstract_store(others)
            st['mutations'] = [[t[0], w.abstract_name(t[1]) or ['other', 0]] for t in (res.get('trace') if isinstance(res, dict) and 'trace' in res else []) if t[0] in ('put', 'del')]
            # ---- direct oracles on the real repository
            truth_ok = []
            if st['kind'] in ('delete', 'clean', 'snapshot'):
                check = [s for s, d in w.snap_by_sid.items() if d['location'] in w.backend.objects]
                if st['kind'] == 'snapshot' and len(check) > 2:
                    check = r.sample(check, 2)
                for s in check:
                    d = w.snap_by_sid[s]
                    owner_idx = next(i for i, uu in enumerate(w.users) if uu.keyid == d['owner'] and uu.fam == d['fam'])
                    err, tree = w.restore(owner_idx, snapshot_regex='^' + d['name'] + '$')
                    if err is not None or tree != d['truth']:
                        log['violations'].append(('history:remaining-snapshot-damaged',
                                                  f'after {st["kind"]} by user {st["user"]} ({u.kind}) snapshot #{s} of key {d["owner"]} no longer restores exactly ({err or "content differs"})',
                                                  {'step': step_no}))
                    truth_ok.append(s)
            st['restored_ok'] = truth_ok
            # exactness (C07/C08): chunk objects of each family vs referenced by remaining snapshots of that family
            refs = {}
            for s, d in w.snap_by_sid.items():
                if d['location'] in w.backend.objects:
                    refs.setdefault(d['fam'], set()).update(d['body']['chunks'])
            objs = {}
            for loc in w.backend.objects:
                n = w.abstract_name(loc)
                if n and n[0] == 'chunk':
                    objs.setdefault(n[1], set()).add(n[2])
            st['exact'] = {f: (objs.get(f, set()) == refs.get(f, set())) for f in set(objs) | set(refs)}
            st['missing_referenced'] = sorted((f, c) for f in refs for c in refs[f] - objs.get(f, set()))
            st['families_present'] = sorted(set(objs) | set(refs))
            st['stray_ok'] = w.backend.objects.get('stray/readme') == b'not replicat' and 'config' in w.backend.objects
            log['steps'].append(st)
        log['long_lived'] = long_lived
        log['max_snapshots'] = max([sum(1 for e in st['store_before'] if e[0][0] == 'snap') for st in log['steps']] + [0])
        if long_lived:
            R.PERSISTENT_LOOP.close()
            R.PERSISTENT_LOOP = None
        log['n_users'] = len(w.users)
        log['user_kinds'] = [uu.kind for uu in w.users]
    log['flags'] = sorted(log['flags'])
    return log


def check_history(log, drv, out, oracles):
    """compare every step with the model; apply the requested direct oracles.  Returns #steps validated."""
    enc = log['cfg']['enc']
    shared_chunks = False
    orphan_pending = set()
    for i, st in enumerate(log['steps']):
        rp = {'kind': 'history', 'idx': log['idx'], 'step': i}
        if st['kind'] == 'orphan':
            orphan_pending.add(st['user'][1])
            continue
        if drv is not None:
            m = drv.ask({'op': 'repo.step', 'enc': enc, 'store': st['store_before'], 'cmd': st['op']})
            if 'error' in m and isinstance(m.get('error'), str) and 'store' not in m:
                out.disagreement('driver error: ' + m['error'], rp)
                continue
            bad = []
            if canon_store(m['store']) != canon_store(st['store_after']):
                a, b = set(canon_store(m['store'])), set(canon_store(st['store_after']))
                bad.append(f'object map differs after {st["kind"]}: only in model {sorted(a - b)[:2]}, only in implementation {sorted(b - a)[:2]}')
            if (m['error'] or None) != st['error']:
                bad.append(f'error kind: model {m["error"]} implementation {st["error"]}')
            if st['kind'] == 'snapshot' and sorted(tuple(x) for x in m['uploaded']) != [tuple(x) for x in st['uploaded']]:
                bad.append(f'uploaded chunk set differs: model {m["uploaded"][:4]} implementation {st["uploaded"][:4]}')
            if bad:
                out.disagreement('; '.join(bad), rp)
            else:
                out.traces_validated += 1
            # the observed mutation trace must be a linearisation of the model's plan (puts of one name may repeat when two workers race)
            seen, trace = set(), []
            for kind, n in st['mutations']:
                key = (kind, tuple(n))
                if key in seen:
                    continue
                seen.add(key)
                if kind == 'put':
                    obj = next((e[1] for e in st['store_after'] if e[0] == n), None)
                    if obj is None:
                        obj = ['blob', 0]
                    trace.append(['put', n, obj])
                else:
                    trace.append(['del', n])
            if trace and st['error'] is None:
                t = drv.ask({'op': 'trace.accepts', 'enc': enc, 'store': st['store_before'], 'cmd': st['op'], 'trace': trace})
                if not t.get('accepts'):
                    out.disagreement(f'mutation trace of {st["kind"]} is not a linearisation of the model plan: {trace[:4]}', rp)
        # ---- direct oracles
        if 'c07' in oracles:
            if st['kind'] == 'snapshot' and st.get('repeat') and st['upload_count'] > 0 and st['user_kind'] != 'independent':
                # repeat by the same family only uploads nothing if that family already holds the data: check through the model-free rule
                pass
            fam = st['user'][1]
            if not orphan_pending and not all(st['exact'].values()):
                out.violation('dedup:objects-differ-from-referenced', f'after {st["kind"]} the chunk objects are not exactly the referenced chunks: {st["exact"]}', rp)
        if 'c08' in oracles:
            fam = st['user'][1]
            if st['kind'] == 'clean' and st['error'] is None:
                if not st['exact'].get(fam, True):
                    out.violation('gc:clean-not-exact', f'after clean by family {fam} its chunk objects differ from the referenced set', rp)
                orphan_pending.discard(fam)
                if not enc:
                    orphan_pending.clear()
            if not st['stray_ok']:
                out.violation('gc:foreign-object-touched', 'config or an object outside the chunk/snapshot areas changed', rp)
            if st['kind'] in ('delete', 'clean'):
                before = {tuple(map(str, e[0])): e for e in st['store_before']}
                after = {tuple(map(str, e[0])): e for e in st['store_after']}
                for k, e in before.items():
                    if e[0][0] in ('chunk', 'snap') and e[0][1] != fam and k not in after:
                        out.violation('gc:other-family-object-removed', f'{st["kind"]} by family {fam} removed {e[0]}', rp)
        if 'c02' in oracles and st['missing_referenced']:
            out.violation('history:referenced-chunk-missing', f'after {st["kind"]} referenced chunks are missing: {st["missing_referenced"][:4]}', rp)
    for sig, what, extra in log['violations']:
        if 'c02' in oracles:
            out.violation(sig, what, dict(extra, kind='history', idx=log['idx']))


def nontrivial(log):
    """contains a delete or clean while ≥ 2 snapshots share ≥ 1 chunk"""
    for st in log['steps']:
        if st['kind'] in ('delete', 'clean') and st.get('error') is None:
            bodies = [e[1][3] for e in st['store_before'] if e[0][0] == 'snap' and e[1][0] == 'snap']
            for a in range(len(bodies)):
                for b in range(a + 1, len(bodies)):
                    if set(bodies[a]['chunks']) & set(bodies[b]['chunks']):
                        return True
    return False


def run_histories(out, drv, label, n_hist, n_ops, oracles):
    args = [(out.seed, i, label, n_ops) for i in range(n_hist)]
    with mp.get_context('fork').Pool(min(16, os.cpu_count() or 4)) as pool:
        logs = pool.map(run_history, args, chunksize=1)
    for log in logs:
        summary = {'enc': log['cfg']['enc'], 'users': log['user_kinds'], 'chunking': log['cfg']['chunking'],
                   'ops': [st['kind'] + ('!' + st['error'] if st.get('error') else '') for st in log['steps']]}
        out.case(summary, nontrivial(log))
        out.count('enc' if log['cfg']['enc'] else 'plain')
        out.count('client:' + ('one-repository-object-per-user' if log.get('long_lived') else 'fresh-object-per-command'))
        out.count('users:%d' % log['n_users'])
        m = log.get('max_snapshots', 0) / max(1, log['cfg']['concurrent'])
        out.count('snapshot-objects-per-connection:' + ('≤5' if m <= 5 else '≤10' if m <= 10 else '≤25' if m <= 25 else '>25'))
        for k in log['user_kinds'][1:]:
            out.count('user:' + k)
        for st in log['steps']:
            out.count('op:' + st['kind'] + (':' + st['error'] if st.get('error') else ''))
        check_history(log, drv, out, oracles)
    return logs
