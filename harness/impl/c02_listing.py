"""C02 — destructive commands over a LISTING THAT FAILS OR IS SILENTLY PARTIAL.

`delete_snapshots` and `clean` compute what they keep from `backend.list_files` (`snapshots/` for both, then `data/` for clean).
The property quantifies over every state a repository can be in when such a command runs — including a repository one of whose
directories cannot be scanned by the process that runs the command (a directory created by another account or under a
restrictive umask, a chmod mishap, a transient EIO / ESTALE of a network file system), and a backend whose listing call raises
part-way.  Whatever the command's outcome, every snapshot object that is still stored afterwards must restore exactly with its
owner's key: the command has to FAIL BEFORE ITS FIRST DELETION, or do what it does without the fault.

One case = one history (`World`: 1–4 users owner / clone / shared / independent or unencrypted, 2–5 snapshots of overlapping file
sets, optionally an orphan) on the REAL local backend (`crashkit.make_dir_backend`: replicat's own `Local` on a scratch
directory) or on the memory backend (plain / coroutine flavour), then several (command, listing fault) pairs, each started from
the same saved repository state:

  local  * `os.scandir` / `os.listdir` of ONE directory of the repository (top `snapshots`, `data`; every `snapshots/xx`,
           `data/xx`, `data/xx/yy`) raises OSError(EACCES | EIO | ESTALE | ENOENT) — once (transient) or every time;
         * the directory opens, its iteration raises after k entries (k = 0 … all);
         * the k-th entry's type test (`is_dir` / `is_file` / `stat`) raises;
         * REAL permissions (when the harness runs as root): the directory is chmod 000, the tree handed to an unprivileged
           uid and the command run under that uid — no interposition at all, whatever functions the walk is written with;
  memory * `list_files(prefix)` raises when called / after yielding k names (OSError, ConnectionResetError, TimeoutError, RuntimeError).

Tie: `repolist.step` of the compiled Lean model (`ReplicatModel/RepoListing.lean`, flags extracted from the source tree on this
run) must predict the outcome class (listing error / refusal kind / completed) and the object map.
Direct oracle (fault removed): every snapshot object still stored restores exactly with its owner's key
(`history:listing-fault:remaining-snapshot-damaged:<command>:<where>`); no chunk referenced by a stored snapshot is gone
(`history:listing-fault:referenced-chunk-missing:<command>:<where>`); the command returns (`history:listing-fault:command-hangs`).
"""
import errno as _errno
import os
import stat as _stat
import threading

from . import crashkit as C
from . import history as H
from . import runner as R
from .world import World, err_kind

ERRNOS = ('EACCES', 'EIO', 'ESTALE', 'ENOENT')
_REAL_SCANDIR = os.scandir
_REAL_LISTDIR = os.listdir
NOBODY = 65534


def _oserror(name, path):
    n = getattr(_errno, name)
    return OSError(n, os.strerror(n), path)


# ====================================================================== interposed scan faults (local backend)
class _Entry:
    """a directory entry whose type tests fail (the stat the kernel needs for them fails)"""

    def __init__(self, e, exc):
        self._e, self._exc = e, exc

    name = property(lambda self: self._e.name)
    path = property(lambda self: self._e.path)

    def __fspath__(self):
        return self._e.path

    def inode(self):
        return self._e.inode()

    def _fail(self, *a, **k):
        raise self._exc()
    is_dir = is_file = is_symlink = is_junction = stat = _fail

    def __getattr__(self, n):
        return getattr(self._e, n)


class _Iter:
    """what `os.scandir` returns (iterator + context manager), failing part-way"""

    def __init__(self, it, owner, path):
        self.it, self.owner, self.path, self.n, self.seen = it, owner, path, 0, []

    def __enter__(self):
        return self

    def __exit__(self, *a):
        self.close()
        return False

    def close(self):
        self.it.close()

    def __iter__(self):
        return self

    def __next__(self):
        p = self.owner.plan
        if p['mode'] == 'iter' and self.n >= p['k']:
            self.owner.fire(self.seen)
            raise _oserror(p['errno'], self.path)
        e = next(self.it)
        self.n += 1
        if p['mode'] == 'stat' and self.n - 1 == p['k']:
            self.owner.fire(self.seen)
            self.seen.append(e.name)
            return _Entry(e, lambda: _oserror(p['errno'], e.path))
        self.seen.append(e.name)
        return e


class ScanFaults:
    """`with ScanFaults(root, plan):` — while active, scanning the directory `<root>/<plan['dir']>` fails as the plan says.
    plan = {'dir', 'mode': 'open' | 'iter' | 'stat', 'k', 'errno', 'times': 1 | None (every time)}"""

    def __init__(self, root, plan):
        self.root, self.plan = os.path.abspath(str(root)), plan
        self.target = os.path.normpath(os.path.join(self.root, plan['dir']))
        self.left = plan.get('times')
        self.fired = []
        self.lock = threading.Lock()

    def fire(self, seen):
        with self.lock:
            self.fired.append({'seen': list(seen)})

    def _hit(self, path):
        if isinstance(path, int):
            return False
        try:
            p = os.fspath(path)
        except TypeError:
            return False
        if isinstance(p, bytes):
            p = os.fsdecode(p)
        if os.path.normpath(os.path.abspath(p)) != self.target:
            return False
        with self.lock:
            if self.left is not None:
                if self.left <= 0:
                    return False
                self.left -= 1
        return True

    def scandir(self, path='.'):
        if not self._hit(path):
            return _REAL_SCANDIR(path)
        if self.plan['mode'] == 'open':
            self.fire([])
            raise _oserror(self.plan['errno'], os.fspath(path))
        return _Iter(_REAL_SCANDIR(path), self, os.fspath(path))

    def listdir(self, path='.'):
        if not self._hit(path):
            return _REAL_LISTDIR(path)
        self.fire([])
        raise _oserror(self.plan['errno'], os.fspath(path))     # listdir is one call: it fails as a whole

    def __enter__(self):
        self.saved = (os.scandir, os.listdir)
        os.scandir, os.listdir = self.scandir, self.listdir
        return self

    def __exit__(self, *a):
        os.scandir, os.listdir = self.saved
        return False


class PermFault:
    """REAL permissions: the whole repository directory is handed to an unprivileged uid, ONE directory is made unreadable
    (mode 000) and the effective uid of this (worker) process is switched for the duration of the command."""

    def __init__(self, root, plan):
        self.root, self.plan = str(root), plan
        self.target = os.path.join(self.root, plan['dir'])
        self.fired = []

    @staticmethod
    def available(root):
        if not hasattr(os, 'geteuid') or os.geteuid() != 0:
            return False
        try:
            os.setegid(NOBODY)
            os.seteuid(NOBODY)
            try:
                _REAL_LISTDIR(str(root))
                ok = True
            except OSError:
                ok = False
            finally:
                os.seteuid(0)
                os.setegid(0)
            return ok
        except OSError:
            return False

    def __enter__(self):
        for d, ds, fs in os.walk(self.root):
            os.chown(d, NOBODY, NOBODY)
            for f in fs:
                os.lchown(os.path.join(d, f), NOBODY, NOBODY)
        self.mode = _stat.S_IMODE(os.stat(self.target).st_mode)
        os.chmod(self.target, 0)
        self.fired.append({'seen': []})      # every command lists the snapshot area
        os.setegid(NOBODY)
        os.seteuid(NOBODY)
        return self

    def __exit__(self, *a):
        os.seteuid(0)
        os.setegid(0)
        os.chmod(self.target, self.mode)
        return False


# ====================================================================== memory backends whose listing raises
_MEM_EXC = {'OSError:EIO': lambda: _oserror('EIO', 'listing'), 'PermissionError': lambda: _oserror('EACCES', 'listing'),
            'ConnectionResetError': lambda: ConnectionResetError(104, 'Connection reset by peer'),
            'TimeoutError': lambda: TimeoutError('listing timed out'), 'RuntimeError': lambda: RuntimeError('backend lost')}


class FaultyMem(R.MemBackend):
    """plan = {'prefix': 'snapshots/' | 'data/', 'k': int | None (raise when called), 'exc': key of _MEM_EXC, 'times'}"""
    list_fault = None
    fired = None

    def _armed(self, prefix):
        f = self.list_fault
        if f is None or prefix != f['prefix']:
            return None
        if f.get('left') is not None:
            if f['left'] <= 0:
                return None
            f['left'] -= 1
        return f

    def list_files(self, prefix=''):
        names = R.MemBackend.list_files(self, prefix)
        f = self._armed(prefix)
        if f is None:
            return names
        if f['k'] is None:
            self.fired.append({'seen': []})
            raise _MEM_EXC[f['exc']]()

        def gen():
            for n in names[:f['k']]:
                yield n
            self.fired.append({'seen': names[:f['k']]})
            raise _MEM_EXC[f['exc']]()
        return gen()


class AsyncFaultyMem(R.AsyncMemBackend, FaultyMem):
    async def list_files(self, prefix=''):
        names = R.MemBackend.list_files(self, prefix)
        f = self._armed(prefix)
        if f is None:
            for n in names:
                yield n
            return
        for n in names[:f['k'] or 0]:
            yield n
        self.fired.append({'seen': names[:f['k'] or 0]})
        raise _MEM_EXC[f['exc']]()


# ====================================================================== plans
def dirs_of(names):
    """{relative directory of the two areas: sorted names of its direct entries}"""
    d = {}
    for name in names:
        parts = name.split('/')
        if parts[0] not in ('snapshots', 'data'):
            continue
        for i in range(1, len(parts)):
            d.setdefault('/'.join(parts[:i]), set()).add(parts[i])
    return {k: sorted(v) for k, v in sorted(d.items())}


def plan_where(p):
    if p['backend'] != 'local':
        return 'backend-listing-raises'
    if p['mode'] in ('open', 'chmod'):
        return 'top-dir-unscannable' if '/' not in p['dir'] else 'sub-dir-unscannable'
    return 'scan-fails-part-way' if p['mode'] == 'iter' else 'entry-type-test-fails'


def plan_area(p):
    key = p['dir'] if p['backend'] == 'local' else p['prefix']
    return 'snaps' if key.startswith('snapshots') else 'chunks'


def local_plans(r, base, perm_ok):
    """every fault position of a repository directory tree, grouped: (group label, plan)"""
    out = []
    for d, entries in dirs_of(base).items():
        top = '/' not in d
        area = 'snaps' if d.startswith('snapshots') else 'chunks'
        g = area + (':top' if top else ':sub')
        for e in ERRNOS:
            if top and e == 'ENOENT':
                continue          # a top directory that does not exist is a repository without snapshots: a state, not a fault
            out.append((g + ':open', {'backend': 'local', 'dir': d, 'mode': 'open', 'k': 0, 'errno': e, 'times': r.choice([1, None])}))
        for k in range(len(entries) + 1):
            out.append((g + ':iter', {'backend': 'local', 'dir': d, 'mode': 'iter', 'k': k, 'errno': r.choice(ERRNOS[:3]), 'times': r.choice([1, None])}))
        for k in range(len(entries)):
            out.append((g + ':stat', {'backend': 'local', 'dir': d, 'mode': 'stat', 'k': k, 'errno': r.choice(ERRNOS[:3]), 'times': r.choice([1, None])}))
        if perm_ok and area == 'snaps' and not top:
            out.append((g + ':chmod', {'backend': 'local', 'dir': d, 'mode': 'chmod', 'k': 0, 'errno': 'EACCES', 'times': None}))
    return out


def mem_plans(r, base, is_async):
    out = []
    for prefix in ('snapshots/', 'data/'):
        names = sorted(n for n in base if n.startswith(prefix))
        g = ('snaps' if prefix == 'snapshots/' else 'chunks') + ':mem'
        ks = list(range(len(names) + 1)) + ([] if is_async else [None])
        for k in ks:
            out.append((g, {'backend': 'mem', 'prefix': prefix, 'k': k, 'exc': r.choice(sorted(_MEM_EXC)), 'times': r.choice([1, None])}))
    return out


def choose(r, plans, tier):
    """quick: a stratified handful per case; thorough: every un-scannable snapshot directory × errno, then a large sample of the rest"""
    groups = {}
    for g, p in plans:
        groups.setdefault(g, []).append(p)
    for v in groups.values():
        r.shuffle(v)
    picked = []

    def take(g, n):
        for _ in range(n):
            if groups.get(g):
                picked.append(groups[g].pop())
    if tier == 'quick':
        take('snaps:sub:open', 2)
        take('snaps:sub:chmod', 1 if r.random() < 0.6 else 0)
        take(r.choice(['snaps:sub:iter', 'snaps:sub:stat', 'snaps:top:iter', 'snaps:top:stat']), 1)
        take('snaps:top:open', 1 if r.random() < 0.5 else 0)
        take(r.choice(['chunks:top:open', 'chunks:sub:open', 'chunks:sub:iter', 'chunks:top:iter', 'chunks:sub:stat']), 1)
        take('snaps:mem', 3)
        take('chunks:mem', 1)
        rest = [p for v in groups.values() for p in v]
        if rest:
            picked.append(r.choice(rest))
        return picked
    take('snaps:sub:open', 10 ** 6)
    take('snaps:sub:chmod', 10 ** 6)
    take('snaps:top:open', 10 ** 6)
    take('snaps:mem', 10 ** 6)
    rest = [p for v in groups.values() for p in v]
    r.shuffle(rest)
    return (picked + rest)[:32]


# ====================================================================== one case
def _owner_ui(w, d):
    return next(i for i, uu in enumerate(w.users) if uu.keyid == d['owner'] and uu.fam == d['fam'])


def _relation(w, ui, d):
    """how the command's user relates to the owner of a snapshot"""
    u = w.users[ui]
    if u.fam != d['fam']:
        return 'independent'
    if u.keyid == d['owner']:
        return 'same-key'
    return 'shared-key'


def _under(plan, name):
    if plan['backend'] == 'local':
        return name.startswith(plan['dir'] + '/')
    return name.startswith(plan['prefix'])


def _run_command(w, repo, cmd):
    """→ (exception | None); the REAL command"""
    try:
        with R.quiet():
            if cmd['kind'] == 'delete':
                names = [w.snap_by_sid[s]['name'] for s in cmd['sids']]
                R.run(repo.delete_snapshots(names, confirm=False))
            else:
                R.run(repo.clean())
    except C.Hang:
        raise
    except Exception as e:  # noqa: BLE001
        return e
    return None


def _classify(exc):
    from replicat import exceptions
    if exc is None:
        return None
    if isinstance(exc, exceptions.ReplicatError):
        return err_kind(exc)
    return 'listing'            # whatever the scan / the backend raised, as it reached the caller of the command


def listing_case(arg, only=None):
    """→ picklable result: summary, per (command, fault) pair the outcome, the model request, oracle findings"""
    seed, idx, tier = arg
    from .. import common
    from ..common import rng_for
    common.use_rebuilt_chunker()
    C.no_backoff_sleep()
    r = rng_for(seed, 'C02-listing', idx)
    res = {'idx': idx, 'tier': tier, 'combos': [], 'violations': []}
    cfg = H.gen_world_cfg(r)
    if cfg['enc'] and not cfg['users']:
        cfg['users'] = [(r.choice(['shared', 'shared', 'clone', 'independent']), None)]
    bk = r.choice(['local', 'local', 'local', 'mem', 'asyncmem'])
    with R.Scratch(f'c02l_{idx}') as sc:
        w = World(sc, enc=cfg['enc'], chunking=cfg['chunking'], concurrent=cfg['concurrent'], cipher=cfg['cipher'], async_backend=(bk == 'asyncmem'))
        for kind, _ in cfg['users']:
            w.add_user(kind, base=r.randrange(len(w.users)))
        root = None
        if bk == 'local':
            root = sc.dir('repo')
            C.materialize(dict(w.backend.objects), root)
            w.backend = C.make_dir_backend(root)
        else:
            w.backend = (AsyncFaultyMem if bk == 'asyncmem' else FaultyMem)(dict(w.backend.objects))
            w.backend.fired = []
        # ---- the history before the destructive command: overlapping data, several keys
        blocks = [r.randbytes(r.choice([24, 40, 64, 100])) for _ in range(4)]
        prev = None
        for _ in range(r.choice([2, 3, 3, 4, 5])):
            prev = H.gen_fileset(r, blocks, prev)
            w.snapshot(r.randrange(len(w.users)), prev)
        if r.random() < 0.3:      # an orphan chunk, so that clean has something legitimate to remove
            x = w.snapshot(r.randrange(len(w.users)), H.gen_fileset(r, [r.randbytes(50), r.randbytes(70)], None))
            del w.backend.objects[w.snap_by_sid[x['sid']]['location']]
        base = dict(w.backend.objects.items())
        others = {}
        store0 = w.abstract_store(others)
        present = sorted(s for s, d in w.snap_by_sid.items() if d['location'] in base)
        # the saved state itself is sound (the oracle below may then skip restores when a command changed nothing)
        for s in present:
            d = w.snap_by_sid[s]
            e0, tree = w.restore(_owner_ui(w, d), snapshot_regex='^' + d['name'] + '$')
            if e0 is not None or tree != d['truth']:
                res['violations'].append(('history:remaining-snapshot-damaged', f'listing case: snapshot #{s} does not restore before any fault ({e0 or "content differs"})',
                                          {'seed': seed, 'idx': idx, 'tier': tier, 'combo': None, 'backend': bk}))
        perm_ok = bk == 'local' and PermFault.available(root)
        plans = local_plans(r, base, perm_ok) if bk == 'local' else mem_plans(r, base, bk == 'asyncmem')
        chosen = choose(r, plans, tier)
        res['summary'] = {'enc': cfg['enc'], 'users': [uu.kind for uu in w.users], 'backend': bk, 'chunking': list(cfg['chunking']),
                          'snapshots': len(present), 'fault_positions': len(plans), 'pairs': []}
        for j, plan in enumerate(chosen):
            rr = rng_for(seed, 'C02-listing', idx, 'combo', j)
            hidden = [s for s in present if _under(plan, w.snap_by_sid[s]['location'])]
            if bk != 'local' and plan['k'] is not None:
                delivered = sorted(n for n in base if n.startswith(plan['prefix']))[:plan['k']]
                hidden = [s for s in hidden if w.snap_by_sid[s]['location'] not in delivered]
            # ---- the command: prefer one for which the fault matters (a user of the family of a hidden snapshot; a delete of a
            #      snapshot that is NOT in the faulted directory)
            fams = {w.snap_by_sid[s]['fam'] for s in hidden}
            users = list(range(len(w.users)))
            pref = [i for i in users if w.users[i].fam in fams]
            ui = rr.choice(pref) if (pref and rr.random() < 0.75) else rr.choice(users)
            u = w.users[ui]
            own = [s for s in present if w.snap_by_sid[s]['owner'] == u.keyid and w.snap_by_sid[s]['fam'] == u.fam]
            # a snapshot inside a directory that cannot be entered cannot be unlinked either (that is a delete fault, C03): keep the
            # targets outside; where the whole area is affected any own snapshot will do
            own = [s for s in own if s not in hidden] or ([] if plan_where(plan) == 'sub-dir-unscannable' else own)
            if own and rr.random() < 0.5:
                cmd = {'kind': 'delete', 'ui': ui, 'sids': sorted(rr.sample(own, 1 if len(own) == 1 else rr.choice([1, 1, 2])))}
            else:
                cmd = {'kind': 'clean', 'ui': ui}
            if only is not None and j != only:
                continue
            # ---- same starting state for every pair
            if bk == 'local':
                C.materialize(base, root)
            else:
                w.backend.objects.clear()
                w.backend.objects.update(base)
            repo = w.repo(ui)
            t0 = len(w.backend.trace)
            if bk != 'local':
                w.backend.fired = []
                w.backend.list_fault = dict(plan, left=plan['times'])
                ctx = None
            else:
                ctx = PermFault(root, plan) if plan['mode'] == 'chmod' else ScanFaults(root, plan)
            hang = False
            exc = None
            try:
                with C.time_limit(90):
                    if ctx is not None:
                        with ctx:
                            exc = _run_command(w, repo, cmd)
                    else:
                        exc = _run_command(w, repo, cmd)
            except C.Hang:
                hang = True
            finally:
                if bk != 'local':
                    w.backend.list_fault = None
                elif os.geteuid() != 0 and perm_ok:
                    os.seteuid(0)
                    os.setegid(0)
            fired = (ctx.fired if ctx is not None else w.backend.fired)
            after = dict(w.backend.objects.items())
            muts = [t for t in w.backend.trace[t0:] if t[0] in ('put', 'del')]
            where = plan_where(plan)
            area = plan_area(plan)
            outcome = _classify(exc)
            rel = sorted({_relation(w, ui, w.snap_by_sid[s]) for s in hidden if s not in cmd.get('sids', [])})
            combo = {'j': j, 'command': cmd['kind'], 'by': u.kind, 'sids': cmd.get('sids'), 'fault': plan, 'where': where, 'area': area,
                     'fired': bool(fired), 'outcome': outcome, 'exception': None if exc is None else f'{type(exc).__name__}: {exc}'[:160],
                     'deletions': sum(1 for t in muts if t[0] == 'del'), 'hidden_snapshots': len(hidden), 'hidden_relation': rel, 'hang': hang}
            rp = {'seed': seed, 'idx': idx, 'tier': tier, 'combo': j, 'backend': bk, 'command': cmd, 'fault': plan,
                  'world': {'enc': cfg['enc'], 'users': [uu.kind for uu in w.users], 'chunking': list(cfg['chunking'])}}
            desc = (f'{cmd["kind"]} by {u.kind} user' + (f' of snapshots {cmd["sids"]}' if cmd['kind'] == 'delete' else '') + f' on the {bk} backend while '
                    + (f'{plan["dir"]} fails ({plan["mode"]}, {plan["errno"]}' + (f', after {plan["k"]} entries' if plan['mode'] in ('iter', 'stat') else '') + ')' if bk == 'local'
                       else f'list_files({plan["prefix"]!r}) raises {plan["exc"]} ' + ('when called' if plan['k'] is None else f'after {plan["k"]} names'))
                    + f': the command {"raised " + combo["exception"] if exc is not None else "completed without an error"}, {combo["deletions"]} deletions')
            if hang:
                res['violations'].append(('history:listing-fault:command-hangs', desc + ' — the command did not return within 90 s', rp))
            # ---- direct oracle (fault removed): every snapshot object still stored restores exactly with its owner's key
            stored = [s for s in present if w.snap_by_sid[s]['location'] in after]
            if after != base:
                for s in stored:
                    d = w.snap_by_sid[s]
                    e2, tree = w.restore(_owner_ui(w, d), snapshot_regex='^' + d['name'] + '$')
                    if e2 is not None or tree != d['truth']:
                        res['violations'].append((f'history:listing-fault:remaining-snapshot-damaged:{cmd["kind"]}:{where}',
                                                  desc + f'; snapshot #{s} (key {d["owner"]}, {_relation(w, ui, d)} relative to the command\'s user) is still stored '
                                                  f'and no longer restores exactly ({e2 or "content differs"})', rp))
                        break
            st_after = w.abstract_store(others)
            refs = {(e[0][1], c) for e in st_after if e[0][0] == 'snap' and e[1][0] == 'snap' for c in e[1][3]['chunks']}
            have = {(e[0][1], e[0][2]) for e in st_after if e[0][0] == 'chunk' and e[1][0] == 'chunk'}
            if refs - have:
                res['violations'].append((f'history:listing-fault:referenced-chunk-missing:{cmd["kind"]}:{where}',
                                          desc + f'; chunks {sorted(refs - have)[:3]} referenced by a snapshot object that is still stored are gone', rp))
            # ---- C08's reading of the same run: a clean that REPORTS SUCCESS although part of the listing was lost to the fault must still
            #      have been complete — no chunk object of the caller's family is left that no stored snapshot references (fault removed)
            if cmd['kind'] == 'clean' and exc is None and not hang and fired and not (bk == 'local' and plan.get('errno') == 'ENOENT'):
                fam = u.fam
                left = sorted(c for c in have - refs if c[0] == fam)
                if left:
                    res.setdefault('gc_violations', []).append((f'gc:listing-fault:clean-reported-complete-but-orphans-left:{where}',
                                                                desc + f'; {len(left)} chunk object(s) of the caller\'s family that no stored snapshot references are still '
                                                                f'there (e.g. {left[:2]})', rp))
            combo['changed'] = after != base
            combo['restored'] = len(stored) if after != base else 0
            # ---- the model's prediction
            flt = None
            if fired:
                seen_all = set()
                if bk == 'local':
                    lost_locs = [n for n in base if _under(plan, n)]
                    kind = 'top' if where == 'top-dir-unscannable' else 'walkOpen' if where == 'sub-dir-unscannable' else 'walkIter'
                else:
                    for f in fired[:1]:
                        seen_all.update(f['seen'])
                    lost_locs = [n for n in base if _under(plan, n) and n not in seen_all]
                    kind = 'raises'
                lost = [w.abstract_name(n) for n in lost_locs]
                flt = {'area': area, 'kind': kind, 'lost': [n for n in lost if n is not None and n[0] in ('snap', 'chunk')]}
            op = {'kind': 'delete', 'user': w.model_user(ui), 'sids': cmd['sids']} if cmd['kind'] == 'delete' else {'kind': 'clean', 'user': w.model_user(ui)}
            combo['tie'] = {'req': {'op': 'repolist.step', 'enc': cfg['enc'], 'store': store0, 'cmd': op, 'fault': flt},
                            'after': st_after, 'outcome': outcome, 'persistent': plan['times'] is None, 'rp': rp}
            combo['nontrivial'] = bool(fired) and area == 'snaps' and any(x != 'independent' for x in rel)
            res['combos'].append(combo)
            res['summary']['pairs'].append([cmd['kind'], where, area])
    return res


def check_listing_tie(combo, drv, out):
    """model (`stepL` / `errL` with the flags of this source tree) vs implementation: outcome class and object map → #problems"""
    t = combo['tie']
    m = drv.ask(t['req'])
    probs = []
    if 'store' not in m:
        probs.append('driver error: ' + str(m.get('error')))
    else:
        same_map = H.canon_store(m['store']) == H.canon_store(t['after'])
        if not same_map:
            a, b = set(H.canon_store(m['store'])), set(H.canon_store(t['after']))
            probs.append(f'object map differs: only in model {sorted(a - b)[:2]}, only in implementation {sorted(b - a)[:2]}')
        me, ie = m['error'] or None, t['outcome']
        if me != ie:
            # a clean that deleted something ends with the backend's own clean-up, which walks the whole tree again: a scan fault
            # that persists is met there a second time, after the deletions the model predicted
            post = (combo['command'] == 'clean' and me is None and ie == 'listing' and t['persistent'] and same_map and combo['deletions'] > 0)
            if post:
                out.count('listing:clean:post-deletion-cleanup-met-the-fault-again')
            else:
                probs.append(f'outcome: model {me} implementation {ie} ({combo["exception"]})')
    if probs:
        out.disagreement(f'listing fault ({combo["command"]}, {combo["where"]}, fault {t["req"]["fault"] and t["req"]["fault"]["kind"]}): ' + '; '.join(probs),
                         dict(t['rp'], kind='listing'))
        return len(probs)
    out.traces_validated += 1
    return 0


def account(res, out, drv, gc=False):
    """evidence counters + oracle findings + tie for one case (`gc`: C08's reading — completeness of a clean that reports success)"""
    if gc:
        for sig, what, rp in res.get('gc_violations', []):
            out.violation(sig, what, dict(rp, kind='listing'))
        out.count('listing:clean-completed-under-a-fired-fault', sum(1 for c in res['combos'] if c['command'] == 'clean' and c['fired'] and c['outcome'] is None))
    s = res['summary']
    out.case({k: s[k] for k in ('enc', 'users', 'backend', 'chunking', 'snapshots', 'pairs')}, any(c['nontrivial'] for c in res['combos']))
    out.count('listing-case')
    out.count('listing:backend=' + s['backend'])
    out.count('listing:fault-positions-in-repository', s['fault_positions'])
    for c in res['combos']:
        out.count('listing-pair')
        out.count(f'listing:{c["command"]}:{c["area"]}:{c["where"]}')
        p = c['fault']
        if p['backend'] == 'local':
            out.count('listing:local:' + p['mode'] + ':' + p['errno'] + (':transient' if p['times'] == 1 else ':persistent'))
        else:
            out.count('listing:mem:' + p['exc'] + (':when-called' if p['k'] is None else ':after-k-names'))
        out.count('listing:fault-fired' if c['fired'] else 'listing:fault-not-met-by-the-command')
        out.count('listing:outcome:' + ('completed' if c['outcome'] is None else 'listing-error' if c['outcome'] == 'listing' else 'refused:' + c['outcome']))
        for x in c['hidden_relation']:
            out.count('listing:hidden-snapshot-of:' + x)
        if c['changed']:
            out.count('listing:object-map-changed-under-fault')
            out.count('listing:restores-after-fault', c['restored'])
        if drv is not None:
            check_listing_tie(c, drv, out)
    for sig, what, rp in res['violations']:
        out.violation(sig, what, dict(rp, kind='listing'))


def replay_listing(rp, drv):
    res = listing_case((rp['seed'], rp['idx'], rp['tier']), only=rp.get('combo'))
    print('summary', {k: v for k, v in res['summary'].items() if k != 'pairs'})
    res['violations'] = list(res['violations']) + list(res.get('gc_violations', []))

    class _C:
        traces_validated = 0

        def __init__(self):
            self.d = []

        def disagreement(self, what, _rp):
            self.d.append(what)

        def count(self, *a, **k):
            pass
    c = _C()
    for combo in res['combos']:
        print('pair', {k: combo[k] for k in ('j', 'command', 'by', 'sids', 'fault', 'fired', 'outcome', 'exception', 'deletions', 'hidden_snapshots', 'hidden_relation')})
        if drv is not None:
            check_listing_tie(combo, drv, c)
    for sig, what, _ in res['violations']:
        print('violation', sig, what)
    for d in c.d:
        print('disagreement', d)
    return 1 if (res['violations'] or c.d) else 0
