"""Symbolic histories: the REAL Repository driven with the tagged transparent adapters (`tagged.py`) through a generated
history of init / add-key / snapshot / delete / clean by several users; everything it emits is parsed into terms and compared
with `written` / `uses` of the Lean model (`sym.run`), and classified by `sym.public`.  Shared by C05 (secrecy verdicts) and
C14 (scheme conformance).  Worker-side: `run_tagged_history`; parent-side (talks to the driver): `judge`.
"""
import json

from ..common import rng_for
from . import runner as R
from . import tagged as T

CHUNKING = [(8, 32), (8, 32), (16, 64), (5, 12), (13, 50), (4, 4)]


def gen_settings(r, encrypted):
    hashing = r.choice([None, {'name': 'blake2b', 'length': r.choice([16, 32, 64])}, {'name': 'sha2', 'bits': r.choice([224, 256, 512])},
                        {'name': 'sha3', 'bits': r.choice([256, 384])}])
    cipher = r.choice([None, {'name': 'aes_gcm', 'key_bits': 128}, {'name': 'aes_gcm', 'key_bits': 192}, {'name': 'aes_gcm', 'key_bits': 256},
                       {'name': 'chacha20_poly1305'}]) if encrypted else None
    mn, mx = r.choice(CHUNKING)
    return R.settings_for(encrypted, cipher, hashing, {'name': 'gclmulchunker', 'min_length': mn, 'max_length': mx}), (mn, mx)


def gen_history(r, encrypted, n_ops):
    settings, (mn, mx) = gen_settings(r, encrypted)
    blocks = [r.randbytes(r.choice([mx, 2 * mx, 3 * mx + 4, 40])) for _ in range(4)] + [bytes(2 * mx)]
    names = ['alpha-%06x' % r.getrandbits(24), 'beta-%06x.bin' % r.getrandbits(24), 'dir-%04x/gamma' % r.getrandbits(16), 'dir-%04x/δelta' % r.getrandbits(16),
             'empty-%05x' % r.getrandbits(20)]
    ops = []
    nusers = 1
    prev = None
    nsnaps = 0
    for _ in range(n_ops):
        k = r.random()
        if encrypted and k < 0.22 and nusers < 4:
            ops.append({'kind': 'add_key', 'base': r.randrange(nusers), 'shared': r.random() < 0.6})
            nusers += 1
        elif k < 0.75 or nsnaps == 0:
            fs = {}
            for nm in names:
                q = r.random()
                if q < 0.3:
                    continue
                if q < 0.5 and prev and nm in prev:
                    fs[nm] = prev[nm]
                elif nm.startswith('empty'):
                    fs[nm] = b''
                else:
                    fs[nm] = b''.join(r.choice(blocks) for _ in range(r.choice([1, 1, 2, 3]))) + r.randbytes(r.choice([0, 0, 3, 9]))
            prev = fs
            ops.append({'kind': 'snapshot', 'user': r.randrange(nusers), 'files': fs,
                        'note': ('note-%012x' % r.getrandbits(48)) if r.random() < 0.6 else None})
            nsnaps += 1
        elif k < 0.9:
            ops.append({'kind': 'delete', 'user': r.randrange(nusers), 'which': r.randrange(nsnaps)})
        else:
            ops.append({'kind': 'clean', 'user': r.randrange(nusers)})
    return {'encrypted': encrypted, 'settings': settings, 'ops': ops, 'params': (mn, mx)}


def _dig(term, path):
    """follow 'a'/'b' (pair components) and integers (argument index of mac/kdf/enc)"""
    for p in path:
        if not isinstance(term, dict) or len(term) != 1:
            return None
        (k, v), = term.items()
        if not isinstance(v, list):
            return None
        i = 0 if p == 'a' else 1 if p == 'b' else p
        if (p in ('a', 'b') and k != 'pair') or i >= len(v):
            return None
        term = v[i]
    return term


def upload_indices(w, names):
    """index (among all uploads so far) of the latest upload of each name"""
    puts = [e[1] for e in w.backend.events if e[0] == 'put']
    out = []
    for n in names:
        idx = [i for i, p in enumerate(puts) if p == n]
        if idx:
            out.append(idx[-1])
    return sorted(out)


def run_tagged_history(hist, label='h'):
    """→ dict(request, real_log, real_keys, real_uses, stdout_terms, stats, problems)"""
    problems = []
    with T.tagged() as reg, R.Scratch(label) as sc:
        ps = T.Parser(reg)
        pw0 = b'pw-0-secret-' + label.encode()
        w = T.SymWorld(sc, hist['settings'], password=pw0, parser=ps)
        ps.secret(pw0)
        enc = hist['encrypted']
        real_keys = []

        def parse_key(k):
            t = ps.key_term(k if isinstance(k, dict) else json.loads(k))
            return t

        model_ops = []
        init = {'encrypted': enc, 'cfg': ps.generic(w.config), 'kdfcfg': None, 'shcfg': None, 'pw': None}
        if enc:
            kt = parse_key(w.keys[0]['key'])
            real_keys.append(kt)
            init.update(kdfcfg=_dig(kt, ['a']), shcfg=_dig(kt, ['b', 'b', 2, 'a']), pw=ps.secret(pw0))
        snaps = []
        stats = {'snapshots': 0, 'notes': 0, 'keys': 1, 'shared_keys': 0, 'deletes': 0, 'cleans': 0, 'max_files': 0, 'dedup_chunks': 0,
                 'refused_deletes': 0}
        for op in hist['ops']:
            if op['kind'] == 'add_key':
                pw = b'pw-%d-' % len(w.keys) + bytes(str(len(model_ops) * 7919 + 17), 'ascii')
                ps.secret(pw)
                w.add_key(op['base'], op['shared'], pw)
                kt = parse_key(w.keys[-1]['key'])
                real_keys.append(kt)
                model_ops.append({'kind': 'add_key', 'base': op['base'], 'shared': op['shared'], 'kdfcfg': _dig(kt, ['a']),
                                  'shcfg': _dig(kt, ['b', 'b', 2, 'a']), 'pw': ps.secret(pw)})
                stats['keys'] += 1
                stats['shared_keys'] += int(op['shared'])
            elif op['kind'] == 'snapshot':
                for data in op['files'].values():
                    ps.secret(data)
                if op['note'] is not None:
                    ps.secret_str(op['note'])
                s = w.snapshot(op['user'], op['files'], note=op['note'])
                for c in s['chunks']:
                    ps.secret(c)
                snaps.append(s)
                try:
                    data = ps.data_struct(s['result'].data)
                except T.Unparsed as e:
                    problems.append(('unparsed', 'snapshot data: %r' % (e,)))
                    continue
                model_ops.append({'kind': 'snapshot', 'user': op['user'], 'chunks': [ps.secret(c) for c in s['chunks']], 'data': data})
                stats['snapshots'] += 1
                stats['notes'] += int(op['note'] is not None)
                stats['max_files'] = max(stats['max_files'], len(op['files']))
                stats['dedup_chunks'] += len(s['chunks']) - sum(1 for e in s['events'] if e[0] == 'put' and e[1].startswith('data/'))
            elif op['kind'] == 'delete':
                if not snaps:
                    continue
                s = snaps[op['which'] % len(snaps)]
                res = w.delete(op['user'], [s['name']])
                if any(e[0] == 'put' for e in res['events']):
                    problems.append(('delete-uploads', 'delete uploaded %r' % [e[1] for e in res['events'] if e[0] == 'put']))
                dels = [e[1] for e in res['events'] if e[0] == 'del']
                if res['error'] is not None:
                    stats['refused_deletes'] += 1
                if dels:
                    model_ops.append({'kind': 'remove_at', 'idx': upload_indices(w, dels)})
                stats['deletes'] += 1
            else:
                res = w.clean(op['user'])
                if any(e[0] == 'put' for e in res['events']):
                    problems.append(('clean-uploads', 'clean uploaded %r' % [e[1] for e in res['events'] if e[0] == 'put']))
                dels = [e[1] for e in res['events'] if e[0] == 'del']
                if dels:
                    model_ops.append({'kind': 'remove_at', 'idx': upload_indices(w, dels)})
                stats['cleans'] += 1
        # ---- everything uploaded, parsed
        real_log = []
        for e in w.backend.events:
            if e[0] != 'put':
                continue
            name, payload = e[1], e[2]
            try:
                lt = ps.loc_term(name)
                if name == 'config':
                    ct = ps.generic(json.loads(payload))
                elif name.startswith('snapshots/'):
                    ct = ps.payload(json.loads(payload))
                else:
                    ct = ps.bytes_term(payload)
            except (T.Unparsed, ValueError) as ex:
                problems.append(('unparsed', '%s: %r' % (name, ex)))
                continue
            real_log.append([name, T.expand(lt), T.expand(ct)])
        real_uses = []
        for k, n in reg.encrypt_calls:
            try:
                real_uses.append([T.expand(ps.bytes_term(k)), T.expand(ps.bytes_term(n))])
            except T.Unparsed as ex:
                problems.append(('unparsed', 'encrypt key: %r' % (ex,)))
        # ---- stdout of init / add-key (config and key are printed)
        stdout_terms = []
        dec = json.JSONDecoder()
        for cmd, text in w.stdout:
            i = 0
            while True:
                j = text.find('{', i)
                if j < 0:
                    break
                try:
                    o, end = dec.raw_decode(text, j)
                except ValueError:
                    i = j + 1
                    continue
                i = end
                try:
                    stdout_terms.append([cmd, T.expand(ps.payload(o))])
                except T.Unparsed as ex:
                    problems.append(('unparsed', 'stdout of %s: %r' % (cmd, ex)))
        request = {'op': 'sym.run', 'init': {k: (T.expand(v) if k != 'encrypted' else v) for k, v in init.items()},
                   'ops': [_expand_op(o) for o in model_ops]}
        stats['puts'] = len(real_log)
        stats['encryptions'] = len(real_uses)
        stats['fresh_values'] = reg.count
        return {'request': request, 'real_log': real_log, 'real_keys': [T.expand(k) for k in real_keys], 'real_uses': real_uses,
                'stdout_terms': stdout_terms, 'stats': stats, 'problems': problems, 'encrypted': enc}


def _expand_op(o):
    o = dict(o)
    for k in ('kdfcfg', 'shcfg', 'pw'):
        if k in o:
            o[k] = T.expand(o[k])
    if 'chunks' in o:
        o['chunks'] = [T.expand(c) for c in o['chunks']]
    if 'locs' in o:
        o['locs'] = [T.expand(c) for c in o['locs']]
    if 'data' in o:
        d = o['data']
        o['data'] = {'ts': d['ts'], 'note': T.expand(d['note']),
                     'files': [{'path': T.expand(f['path']), 'refs': f['refs'], 'digest': T.expand(f['digest']), 'md': T.expand(f['md'])} for f in d['files']]}
    return o


def guarded(fn):
    """worker wrapper: an exception while driving / interpreting the implementation is reported as a broken tie of that case
    (never on the unchanged tree), not as a crash of the whole run"""
    import functools
    import traceback

    @functools.wraps(fn)
    def wrapper(arg):
        try:
            return fn(arg)
        except Exception as e:  # noqa: BLE001
            return {'crashed': True, 'idx': arg[1], 'what': '%s: %s' % (type(e).__name__, e), 'trace': traceback.format_exc()[-1500:]}
    return wrapper


def is_key_loc(t):
    return t is not None and 'pair' in t and t['pair'][0] == {'pub': 3}


def judge(obs, drv):
    """parent side: run the model on the same history and compare.  → (disagreements [str], verdicts dict)"""
    bad = []
    m = drv.ask(obs['request'])
    if 'error' in m:
        return ['driver error: ' + m['error']], {}
    mlog = [e for e in m['log'] if not is_key_loc(e[0])]
    mkeys = [e for e in m['log'] if is_key_loc(e[0])]
    bij = {}
    if len(mlog) != len(obs['real_log']):
        bad.append(f'model emits {len(mlog)} uploads, implementation {len(obs["real_log"])}')
    for i, (me, re_) in enumerate(zip(mlog, obs['real_log'])):
        d = T.unify(me[0], re_[1], bij)
        if d:
            bad.append(f'upload #{i} ({re_[0][:24]}…): name differs: {d}')
            continue
        d = T.unify(me[1], re_[2], bij)
        if d:
            bad.append(f'upload #{i} ({re_[0][:24]}…): content differs: {d}')
    if obs['encrypted']:
        if len(mkeys) != len(obs['real_keys']):
            bad.append(f'model emits {len(mkeys)} key files, implementation {len(obs["real_keys"])}')
        for i, (me, rk) in enumerate(zip(mkeys, obs['real_keys'])):
            d = T.unify(me[1], rk, bij)
            if d:
                bad.append(f'key file #{i} differs: {d}')
    if len(m['uses']) != len(obs['real_uses']):
        bad.append(f'model performs {len(m["uses"])} encryptions, implementation {len(obs["real_uses"])}')
    for i, (mu, ru) in enumerate(zip(m['uses'], obs['real_uses'])):
        d = T.unify(mu[0], ru[0], bij) or T.unify(mu[1], ru[1], bij)
        if d:
            bad.append(f'encryption #{i}: key/nonce differs: {d}')
    # verdicts of the model's predicates on what the implementation REALLY wrote
    terms, roles = [], []
    for name, lt, ct in obs['real_log']:
        terms += [lt, ct]
        roles += [('name', name), ('content', name)]
    for i, k in enumerate(obs['real_keys']):
        terms.append(k)
        roles.append(('keyfile', str(i)))
    for cmd, t in obs['stdout_terms']:
        terms.append(t)
        roles.append(('stdout', cmd))
    v = drv.ask({'op': 'sym.public', 'terms': terms}) if terms else {'public': [], 'keyed': []}
    nonpublic = [roles[i] for i, ok in enumerate(v['public']) if not ok]
    unkeyed = [roles[i] for i, ok in enumerate(v['keyed']) if roles[i][0] == 'name' and not ok]
    nonces = [json.dumps(u[1], sort_keys=True) for u in obs['real_uses']]
    return bad, {'nonpublic': nonpublic, 'unkeyed': unkeyed, 'nonce_reuse': len(nonces) - len(set(nonces))}
