"""Symbolic histories: the REAL Repository driven with the tagged transparent adapters (`tagged.py`) through a generated
history of init / add-key / snapshot / delete / clean by several users; everything it emits is parsed into terms and compared
with `written` / `uses` of the Lean model (`sym.run`), and classified by `sym.public`.  Shared by C05 (secrecy verdicts) and
C14 (scheme conformance).  Worker-side: `run_tagged_history`; parent-side (talks to the driver): `judge`.

History-level restore (C14 `restore_after_run*`): `run_tagged_history(…, restore=True)` restores, after the history, EVERY
remaining snapshot with EVERY key of the repository using the real code (`_load_snapshots` by name + `restore`), and
`judge_restores` compares that with `sym.run_restore` (the model's `loadBodies` / `restoreMd` on the store `run` produces, and
`wfHist` of the history) and with ground truth (the snapshotted tree and its source mtimes; key families).

Client-state worlds (C05): `gen_world` / `run_tagged_world` — several repositories with DIFFERENT encryption settings (and
re-initialised locations) used from one machine, i.e. through one cache directory, with interleaved commands, one fresh client
per command.  Each repository (incarnation) is judged against the model of ITS OWN history alone (`runView`, fed with the view
each real client had): what a repository is sent must not depend on anything else the machine has seen.
"""
import json

from ..common import rng_for
from . import runner as R
from . import tagged as T

CHUNKING = [(8, 32), (8, 32), (16, 64), (5, 12), (13, 50), (4, 4)]


def gen_settings(r, encrypted):
    hashing = r.choice([None, {'name': 'blake2b', 'length': r.choice([16, 32, 64])}, {'name': 'sha2', 'bits': r.choice([224, 256, 512])},
                        {'name': 'sha3', 'bits': r.choice([256, 384])}])
    cipher = r.choice([None, {'name': 'aes_gcm', 'key_bits': 128}, {'name': 'aes_gcm', 'key_bits': 192}, {'name': 'aes_gcm', 'key_bits': 256},
                       {'name': 'chacha20_poly1305'}]) if encrypted else None
    mn, mx = r.choice(CHUNKING)
    return R.settings_for(encrypted, cipher, hashing, {'name': 'gclmulchunker', 'min_length': mn, 'max_length': mx}), (mn, mx)


def _gen_state(r, encrypted):
    settings, (mn, mx) = gen_settings(r, encrypted)
    blocks = [r.randbytes(r.choice([mx, 2 * mx, 3 * mx + 4, 40])) for _ in range(4)] + [bytes(2 * mx)]
    names = ['alpha-%06x' % r.getrandbits(24), 'beta-%06x.bin' % r.getrandbits(24), 'dir-%04x/gamma' % r.getrandbits(16), 'dir-%04x/δelta' % r.getrandbits(16),
             'empty-%05x' % r.getrandbits(20)]
    return {'encrypted': encrypted, 'settings': settings, 'params': (mn, mx), 'blocks': blocks, 'names': names, 'nusers': 1, 'prev': None, 'nsnaps': 0}


def _gen_op(r, g):
    """one op of the weighted grammar add-key / snapshot / delete / clean for the repository described by `g`"""
    k = r.random()
    if g['encrypted'] and k < 0.22 and g['nusers'] < 4:
        op = {'kind': 'add_key', 'base': r.randrange(g['nusers']), 'shared': r.random() < 0.6}
        g['nusers'] += 1
        return op
    if k < 0.75 or g['nsnaps'] == 0:
        fs = {}
        prev = g['prev']
        for nm in g['names']:
            q = r.random()
            if q < 0.3:
                continue
            if q < 0.5 and prev and nm in prev:
                fs[nm] = prev[nm]
            elif nm.startswith('empty'):
                fs[nm] = b''
            else:
                fs[nm] = b''.join(r.choice(g['blocks']) for _ in range(r.choice([1, 1, 2, 3]))) + r.randbytes(r.choice([0, 0, 3, 9]))
        g['prev'] = fs
        op = {'kind': 'snapshot', 'user': r.randrange(g['nusers']), 'files': fs,
              'note': ('note-%012x' % r.getrandbits(48)) if r.random() < 0.6 else None}
        g['nsnaps'] += 1
        return op
    if k < 0.9:
        return {'kind': 'delete', 'user': r.randrange(g['nusers']), 'which': r.randrange(g['nsnaps'])}
    return {'kind': 'clean', 'user': r.randrange(g['nusers'])}


def gen_history(r, encrypted, n_ops):
    g = _gen_state(r, encrypted)
    ops = [_gen_op(r, g) for _ in range(n_ops)]
    return {'encrypted': encrypted, 'settings': g['settings'], 'ops': ops, 'params': g['params']}


# ------------------------------------------------------------------ client-state worlds (C05)
CACHE_MODES = ['shared', 'shared', 'shared', 'per-location', 'none']
PATTERNS = [[False, True], [True, False], [False, True], [True, True], [False, True, True], [True, False, True], [False, True, False]]


def gen_world(r, n_ops):
    """Several repositories used from ONE machine.  `cache`: 'shared' = one cache directory for every repository (the CLI
    default), 'per-location' = one directory per backend location (survives a re-initialisation of the location), 'none' =
    clients without local state.  Repositories differ in their encryption settings (`PATTERNS`; at least one is encrypted), are
    initialised at their first command, their commands are interleaved, each command is a fresh client; a `reinit` wipes a
    location and initialises it again with the OPPOSITE encryption mode (the earlier incarnation's client state stays)."""
    pattern = list(r.choice(PATTERNS))
    cache = r.choice(CACHE_MODES)
    gens = [_gen_state(r, e) for e in pattern]
    if r.random() < 0.4:
        # the same files are backed up to several repositories (secrecy of the encrypted one is judged on ITS objects)
        for g in gens[1:]:
            g['blocks'][:2] = gens[0]['blocks'][:2]
    incs = [{'loc': i, 'encrypted': g['encrypted'], 'settings': g['settings'], 'params': g['params']} for i, g in enumerate(gens)]
    cur = list(range(len(gens)))          # location -> current incarnation
    ops = []
    for _ in range(n_ops):
        loc = r.randrange(len(gens))
        g = gens[loc]
        if g['nsnaps'] >= 1 and r.random() < (0.3 if cache == 'per-location' else 0.08):
            ng = _gen_state(r, not g['encrypted'])
            ng['blocks'][:2] = g['blocks'][:2]
            gens[loc] = ng
            incs.append({'loc': loc, 'encrypted': ng['encrypted'], 'settings': ng['settings'], 'params': ng['params']})
            cur[loc] = len(incs) - 1
            ops.append({'kind': 'reinit', 'inc': cur[loc], 'loc': loc})
            continue
        ops.append(dict(_gen_op(r, g), inc=cur[loc], loc=loc))
    return {'cache': cache, 'pattern': pattern, 'incarnations': incs, 'ops': ops, 'locations': len(pattern)}


def _dig(term, path):
    """follow 'a'/'b' (pair components) and integers (argument index of mac/kdf/enc)"""
    for p in path:
        if not isinstance(term, dict) or len(term) != 1:
            return None
        (k, v), = term.items()
        if not isinstance(v, list):
            return None
        i = 0 if p == 'a' else 1 if p == 'b' else p
        if (p in ('a', 'b') and k != 'pair') or i >= len(v):
            return None
        term = v[i]
    return term


def upload_indices(w, names):
    """index (among all uploads so far) of the latest upload of each name"""
    puts = [e[1] for e in w.backend.events if e[0] == 'put']
    out = []
    for n in names:
        idx = [i for i, p in enumerate(puts) if p == n]
        if idx:
            out.append(idx[-1])
    return sorted(out)


class TaggedRun:
    """ONE repository (incarnation) driven with the tagged adapters: every command is executed on the real `Repository` through
    `SymWorld` and mirrored as an op of the model; `finish` parses everything that was emitted.  `views=True` adds to every
    mirrored command the view its client really had (`runView`); `tolerant=True` records a failing command as a problem of the
    case and goes on (client-state worlds: a confused client may refuse a command) instead of aborting the case."""

    def __init__(self, reg, ps, w, pw0, encrypted, *, views=False, tolerant=False, tag=b''):
        self.reg, self.ps, self.w, self.enc = reg, ps, w, encrypted
        self.views, self.tolerant, self.tag = views, tolerant, tag
        self.problems = []
        self.real_keys = []
        self.model_ops = []
        self.snaps = []
        self.snap_model = []       # per real snapshot: index of its record in the model's `taken` (None: not mirrored)
        self.src_mtimes = []       # per real snapshot: {absolute path: st_mtime_ns of the source file when it was taken}
        self.stats = {'snapshots': 0, 'notes': 0, 'keys': 1, 'shared_keys': 0, 'deletes': 0, 'cleans': 0, 'max_files': 0, 'dedup_chunks': 0,
                      'refused_deletes': 0}
        self.init = {'encrypted': encrypted, 'cfg': ps.generic(w.config), 'kdfcfg': None, 'shcfg': None, 'pw': None}
        if encrypted:
            kt = self.parse_key(w.keys[0]['key'])
            self.real_keys.append(kt)
            self.init.update(kdfcfg=_dig(kt, ['a']), shcfg=_dig(kt, ['b', 'b', 2, 'a']), pw=ps.secret(pw0))

    def parse_key(self, k):
        return self.ps.key_term(k if isinstance(k, dict) else json.loads(k))

    def _view(self, mop):
        if self.views and self.w.last_view is not None:
            mop['view'] = self.w.last_view
        return mop

    def apply(self, op):
        if not self.tolerant:
            return self._apply(op)
        try:
            return self._apply(op)
        except Exception as e:  # noqa: BLE001
            self.problems.append(('command-failed', '%s by user %s: %s: %s' % (op['kind'], op.get('user', op.get('base')), type(e).__name__, str(e)[:120])))
            self.stats['failed_commands'] = self.stats.get('failed_commands', 0) + 1

    def _apply(self, op):
        ps, w, stats, problems, model_ops = self.ps, self.w, self.stats, self.problems, self.model_ops
        if max(op.get('user', 0), op.get('base', 0)) >= len(w.keys):
            stats['skipped_ops'] = stats.get('skipped_ops', 0) + 1       # its key was never made (an earlier add-key failed)
            return
        if op['kind'] == 'add_key':
            pw = b'pw-%d-' % len(w.keys) + self.tag + bytes(str(len(model_ops) * 7919 + 17), 'ascii')
            ps.secret(pw)
            w.last_view = None
            w.add_key(op['base'], op['shared'], pw)
            kt = self.parse_key(w.keys[-1]['key'])
            self.real_keys.append(kt)
            model_ops.append(self._view({'kind': 'add_key', 'base': op['base'], 'shared': op['shared'], 'kdfcfg': _dig(kt, ['a']),
                                         'shcfg': _dig(kt, ['b', 'b', 2, 'a']), 'pw': ps.secret(pw)}))
            stats['keys'] += 1
            stats['shared_keys'] += int(op['shared'])
        elif op['kind'] == 'snapshot':
            for data in op['files'].values():
                ps.secret(data)
            if op['note'] is not None:
                ps.secret_str(op['note'])
            s = w.snapshot(op['user'], op['files'], note=op['note'])
            for c in s['chunks']:
                ps.secret(c)
            self.snaps.append(s)
            self.snap_model.append(None)
            self.src_mtimes.append(_stat_mtimes(s['files']))
            try:
                data = ps.data_struct(s['result'].data)
            except T.Unparsed as e:
                problems.append(('unparsed', 'snapshot data: %r' % (e,)))
                return
            self.snap_model[-1] = sum(1 for o in model_ops if o['kind'] == 'snapshot')
            model_ops.append(self._view({'kind': 'snapshot', 'user': op['user'], 'chunks': [ps.secret(c) for c in s['chunks']], 'data': data}))
            stats['snapshots'] += 1
            stats['notes'] += int(op['note'] is not None)
            stats['max_files'] = max(stats['max_files'], len(op['files']))
            stats['dedup_chunks'] += len(s['chunks']) - sum(1 for e in s['events'] if e[0] == 'put' and e[1].startswith('data/'))
        elif op['kind'] == 'delete':
            if not self.snaps:
                return
            s = self.snaps[op['which'] % len(self.snaps)]
            res = w.delete(op['user'], [s['name']])
            if any(e[0] == 'put' for e in res['events']):
                problems.append(('delete-uploads', 'delete uploaded %r' % [e[1] for e in res['events'] if e[0] == 'put']))
            dels = [e[1] for e in res['events'] if e[0] == 'del']
            if res['error'] is not None:
                stats['refused_deletes'] += 1
            if dels:
                model_ops.append({'kind': 'remove_at', 'idx': upload_indices(w, dels)})
            stats['deletes'] += 1
        else:
            res = w.clean(op['user'])
            if any(e[0] == 'put' for e in res['events']):
                problems.append(('clean-uploads', 'clean uploaded %r' % [e[1] for e in res['events'] if e[0] == 'put']))
            dels = [e[1] for e in res['events'] if e[0] == 'del']
            if dels:
                model_ops.append({'kind': 'remove_at', 'idx': upload_indices(w, dels)})
            stats['cleans'] += 1

    def families(self):
        """key index -> family representative (the key whose private section it carries)"""
        fam = []
        for i, k in enumerate(self.w.keys):
            fam.append(fam[k['base']] if k['shared'] else i)
        return fam

    def restore_all(self):
        """after the history: every remaining snapshot × every key, on the real code.  → list of dict(snap, model, user, name,
        truth {path: bytes}, mtimes {path: ns}, table [terms], by [dict(key, bodies, error, files)])"""
        ps, w = self.ps, self.w
        out = []
        for si, s in enumerate(self.snaps):
            if s['location'] not in w.backend.objects:
                continue
            rec = {'snap': si, 'model': self.snap_model[si], 'user': s['user'], 'name': s['name'], 'truth': dict(s['files']),
                   'mtimes': self.src_mtimes[si], 'table': [T.expand(ps.bytes_term(bytes(d))) for d in s['result'].chunks], 'by': []}
            for ki in range(len(w.keys)):
                ent = {'key': ki, 'bodies': None, 'bodies_error': None, 'error': None, 'files': None}
                try:
                    bodies = _list_bodies(w.repo(ki), s['name'])
                    ent['bodies'] = [{'table': [T.expand(ps.bytes_term(bytes(d))) for d in b['chunks']], 'has_data': b['data'] is not None} for _, b in bodies]
                except T.Unparsed as e:
                    ent['bodies_error'] = 'unparsed: %r' % (e,)
                except Exception as e:  # noqa: BLE001
                    ent['bodies_error'] = '%s: %s' % (type(e).__name__, str(e)[:120])
                exc, files, _ = w.restore(ki, snapshot_regex=s['name'])
                if exc is not None:
                    ent['error'] = '%s: %s' % (type(exc).__name__, str(exc)[:120])
                    ent['error_class'] = _err_class(exc)
                else:
                    ent['files'] = files
                rec['by'].append(ent)
            out.append(rec)
        self.stats['restores'] = sum(len(r['by']) for r in out)
        self.stats['remaining_snapshots'] = len(out)
        return out

    def secrets(self):
        """sec id -> what it stands for (only what a restore can return: chunk plaintexts, paths, metadata records)"""
        ps = self.ps
        return {'bytes': {v: k for k, v in ps.secret_bytes.items()}, 'strings': {v: k for k, v in ps.secret_strings.items()},
                'json': {v: k for k, v in ps.secret_json.items()}}

    def finish(self, encrypt_calls=None):
        """everything uploaded / emitted by this repository, parsed.  `encrypt_calls`: the encryptions performed by THIS repository's
        clients (default: all of the registry — one repository per case)"""
        ps, w, reg, problems, stats = self.ps, self.w, self.reg, self.problems, self.stats
        real_log = []
        for e in w.backend.events:
            if e[0] != 'put':
                continue
            name, payload = e[1], e[2]
            try:
                lt = ps.loc_term(name)
                if name == 'config':
                    ct = ps.generic(json.loads(payload))
                elif name.startswith('snapshots/'):
                    ct = ps.payload(json.loads(payload))
                else:
                    ct = ps.bytes_term(payload)
            except (T.Unparsed, ValueError) as ex:
                problems.append(('unparsed', '%s: %r' % (name, ex)))
                continue
            real_log.append([name, T.expand(lt), T.expand(ct)])
        real_uses = []
        for k, n in (reg.encrypt_calls if encrypt_calls is None else encrypt_calls):
            try:
                real_uses.append([T.expand(ps.bytes_term(k)), T.expand(ps.bytes_term(n))])
            except T.Unparsed as ex:
                problems.append(('unparsed', 'encrypt key: %r' % (ex,)))
        # ---- stdout of init / add-key (config and key are printed)
        stdout_terms = []
        dec = json.JSONDecoder()
        for cmd, text in w.stdout:
            i = 0
            while True:
                j = text.find('{', i)
                if j < 0:
                    break
                try:
                    o, end = dec.raw_decode(text, j)
                except ValueError:
                    i = j + 1
                    continue
                i = end
                try:
                    stdout_terms.append([cmd, T.expand(ps.payload(o))])
                except T.Unparsed as ex:
                    problems.append(('unparsed', 'stdout of %s: %r' % (cmd, ex)))
        request = {'op': 'sym.run', 'init': {k: (T.expand(v) if k != 'encrypted' else v) for k, v in self.init.items()},
                   'ops': [_expand_op(o) for o in self.model_ops]}
        stats['puts'] = len(real_log)
        stats['encryptions'] = len(real_uses)
        stats['fresh_values'] = reg.count
        return {'request': request, 'real_log': real_log, 'real_keys': [T.expand(k) for k in self.real_keys], 'real_uses': real_uses,
                'stdout_terms': stdout_terms, 'stats': stats, 'problems': problems, 'encrypted': self.enc}


def _stat_mtimes(files):
    import os
    out = {}
    for p in files:
        try:
            out[p] = os.stat(os.fsencode(p)).st_mtime_ns
        except OSError:
            out[p] = None
    return out


def _list_bodies(repo, name):
    """what `_load_snapshots(snapshot_regex=name)` yields on the real code: [(location, {'chunks': […], 'data': … | None})]"""
    async def go():
        return [(path, body) async for path, body in repo._load_snapshots(snapshot_regex=name)]
    with R.quiet():
        return sorted(R.run(go()), key=lambda x: x[0])


def _err_class(exc):
    from replicat import exceptions
    if isinstance(exc, exceptions.DecryptionError):
        return 'decryption'
    if isinstance(exc, exceptions.ReplicatError) and 'corrupted' in str(exc):
        return 'corrupted'
    if isinstance(exc, (FileNotFoundError, exceptions.ReplicatError)):
        return 'missing'
    if isinstance(exc, (KeyError, IndexError, ValueError, TypeError)):
        return 'malformed'
    return 'other:' + type(exc).__name__


def run_tagged_history(hist, label='h', views=False, restore=False):
    """→ dict(request, real_log, real_keys, real_uses, stdout_terms, stats, problems); with `restore=True` also `restores`
    (`TaggedRun.restore_all`), `secrets`, `families` — the real readers run AFTER everything else was collected"""
    with T.tagged() as reg, R.Scratch(label) as sc:
        ps = T.Parser(reg)
        pw0 = b'pw-0-secret-' + label.encode()
        w = T.SymWorld(sc, hist['settings'], password=pw0, parser=ps)
        ps.secret(pw0)
        run = TaggedRun(reg, ps, w, pw0, hist['encrypted'], views=views)
        for op in hist['ops']:
            run.apply(op)
        obs = run.finish()
        if restore:
            obs['restores'] = run.restore_all()
            obs['secrets'] = run.secrets()
            obs['families'] = run.families()
        return obs


def run_tagged_world(world, label='w'):
    """A client-state world (`gen_world`) on the real code with the tagged adapters.  One registry, one parser, one clock and —
    according to `world['cache']` — one cache directory for all repositories.  → dict(repos=[obs per incarnation], world=stats)"""
    with T.tagged() as reg, R.Scratch(label) as sc:
        ps = T.Parser(reg)
        ticker = {'t': 0}
        nloc = world['locations']
        backends = [T.RecBackend() for _ in range(nloc)]
        shared_dir = sc.dir('cache_shared')

        def cache_of(loc):
            return {'shared': shared_dir, 'per-location': sc.dir('cache_loc%d' % loc), 'none': None}[world['cache']]

        runs = {}          # incarnation index -> TaggedRun
        uses_of = {}       # incarnation index -> encrypt calls
        order = []
        wstats = {'cache': world['cache'], 'pattern': ''.join('E' if e else 'P' for e in world['pattern']), 'reinits': 0, 'incarnations': 0,
                  'enc_snapshots_after_foreign_unlock': 0, 'stale_views': 0, 'views': 0, 'failed_commands': 0}
        unlocked_modes = {}   # cache key -> set of encryption modes of the repositories whose clients were unlocked through it so far

        def cache_key(loc):
            return {'shared': 'shared', 'per-location': 'loc%d' % loc, 'none': None}[world['cache']]

        def start(inc_idx):
            inc = world['incarnations'][inc_idx]
            loc = inc['loc']
            be = backends[loc]
            be.objects.clear()           # a re-initialised location starts empty; the client state of the machine stays
            be.events = []
            pw0 = b'pw-0-secret-%d-' % inc_idx + label.encode()
            before = len(reg.encrypt_calls)
            w = T.SymWorld(sc, inc['settings'], password=pw0, parser=ps, backend=be, cache_directory=cache_of(loc), src_name='src%d' % loc, ticker=ticker)
            ps.secret(pw0)
            runs[inc_idx] = TaggedRun(reg, ps, w, pw0, inc['encrypted'], views=True, tolerant=True, tag=b'i%d-' % inc_idx)
            uses_of[inc_idx] = list(reg.encrypt_calls[before:])
            order.append(inc_idx)
            wstats['incarnations'] += 1

        frozen = {}
        for op in world['ops']:
            i = op['inc']
            if op['kind'] == 'reinit':
                old = max((k for k in runs if world['incarnations'][k]['loc'] == op['loc']), default=None)
                if old is not None and old not in frozen:
                    frozen[old] = runs[old].finish(uses_of[old])      # the earlier incarnation: parsed before its location is wiped
                wstats['reinits'] += 1
                start(i)
                continue
            if i not in runs:
                start(i)
            run = runs[i]
            inc = world['incarnations'][i]
            before = len(reg.encrypt_calls)
            nviews = len(run.w.views)
            ck = cache_key(inc['loc'])
            foreign = ck is not None and any(m != inc['encrypted'] for m in unlocked_modes.get(ck, ()))
            run.apply(op)
            uses_of[i] += reg.encrypt_calls[before:]
            new_views = run.w.views[nviews:]
            wstats['views'] += len(new_views)
            wstats['stale_views'] += sum(1 for v in new_views if v != inc['encrypted'])
            if new_views and ck is not None:
                unlocked_modes.setdefault(ck, set()).add(inc['encrypted'])
            if op['kind'] == 'snapshot' and inc['encrypted'] and foreign:
                wstats['enc_snapshots_after_foreign_unlock'] += 1
        repos = []
        for i in order:
            obs = frozen[i] if i in frozen else runs[i].finish(uses_of[i])
            obs['inc'] = i
            obs['loc'] = world['incarnations'][i]['loc']
            obs['views'] = list(runs[i].w.views)
            repos.append(obs)
            wstats['failed_commands'] += obs['stats'].get('failed_commands', 0)
        return {'repos': repos, 'world': wstats}


def _expand_op(o):
    o = dict(o)
    for k in ('kdfcfg', 'shcfg', 'pw'):
        if k in o:
            o[k] = T.expand(o[k])
    if 'chunks' in o:
        o['chunks'] = [T.expand(c) for c in o['chunks']]
    if 'locs' in o:
        o['locs'] = [T.expand(c) for c in o['locs']]
    if 'data' in o:
        d = o['data']
        o['data'] = {'ts': d['ts'], 'note': T.expand(d['note']),
                     'files': [{'path': T.expand(f['path']), 'refs': f['refs'], 'digest': T.expand(f['digest']), 'md': T.expand(f['md'])} for f in d['files']]}
    return o


def guarded(fn):
    """worker wrapper: an exception while driving / interpreting the implementation is reported as a broken tie of that case
    (never on the unchanged tree), not as a crash of the whole run"""
    import functools
    import traceback

    @functools.wraps(fn)
    def wrapper(arg):
        try:
            return fn(arg)
        except Exception as e:  # noqa: BLE001
            return {'crashed': True, 'idx': arg[1], 'what': '%s: %s' % (type(e).__name__, e), 'trace': traceback.format_exc()[-1500:]}
    return wrapper


def is_key_loc(t):
    return t is not None and 'pair' in t and t['pair'][0] == {'pub': 3}


def judge(obs, drv):
    """parent side: run the model on the same history and compare.  → (disagreements [str], verdicts dict)"""
    bad = []
    m = drv.ask(obs['request'])
    if 'error' in m:
        return ['driver error: ' + m['error']], {}
    mlog = [e for e in m['log'] if not is_key_loc(e[0])]
    mkeys = [e for e in m['log'] if is_key_loc(e[0])]
    bij = {}
    if len(mlog) != len(obs['real_log']):
        bad.append(f'model emits {len(mlog)} uploads, implementation {len(obs["real_log"])}')
    for i, (me, re_) in enumerate(zip(mlog, obs['real_log'])):
        d = T.unify(me[0], re_[1], bij)
        if d:
            bad.append(f'upload #{i} ({re_[0][:24]}…): name differs: {d}')
            continue
        d = T.unify(me[1], re_[2], bij)
        if d:
            bad.append(f'upload #{i} ({re_[0][:24]}…): content differs: {d}')
    if obs['encrypted']:
        if len(mkeys) != len(obs['real_keys']):
            bad.append(f'model emits {len(mkeys)} key files, implementation {len(obs["real_keys"])}')
        for i, (me, rk) in enumerate(zip(mkeys, obs['real_keys'])):
            d = T.unify(me[1], rk, bij)
            if d:
                bad.append(f'key file #{i} differs: {d}')
    if len(m['uses']) != len(obs['real_uses']):
        bad.append(f'model performs {len(m["uses"])} encryptions, implementation {len(obs["real_uses"])}')
    for i, (mu, ru) in enumerate(zip(m['uses'], obs['real_uses'])):
        d = T.unify(mu[0], ru[0], bij) or T.unify(mu[1], ru[1], bij)
        if d:
            bad.append(f'encryption #{i}: key/nonce differs: {d}')
    # verdicts of the model's predicates on what the implementation REALLY wrote
    terms, roles = [], []
    for name, lt, ct in obs['real_log']:
        terms += [lt, ct]
        roles += [('name', name), ('content', name)]
    for i, k in enumerate(obs['real_keys']):
        terms.append(k)
        roles.append(('keyfile', str(i)))
    for cmd, t in obs['stdout_terms']:
        terms.append(t)
        roles.append(('stdout', cmd))
    v = drv.ask({'op': 'sym.public', 'terms': terms}) if terms else {'public': [], 'keyed': []}
    nonpublic = [roles[i] for i, ok in enumerate(v['public']) if not ok]
    unkeyed = [roles[i] for i, ok in enumerate(v['keyed']) if roles[i][0] == 'name' and not ok]
    nonces = [json.dumps(u[1], sort_keys=True) for u in obs['real_uses']]
    return bad, {'nonpublic': nonpublic, 'unkeyed': unkeyed, 'nonce_reuse': len(nonces) - len(set(nonces))}


def judge_restores(obs, drv):
    """parent side of the history-level restore tie.  → (disagreements [str], violations [(sig, what)], stats dict)

    model ↔ code: `sym.run_restore` on the mirrored history — the history must be well formed in the model's sense (`wfHist`: the
    hypothesis of `C14.restore_after_run`), a snapshot is present in the model's store iff its object is on the real backend, and for
    every remaining snapshot and every key the model's `loadBodies` / `restoreMd` equal what the real `_load_snapshots` / `restore`
    returned (chunk tables as terms; files as path → bytes assembled from the model's parts, mtime from the model's metadata record).
    direct oracle (ground truth): the owner restores exactly the snapshotted tree with the source mtimes and lists table + data; a key of
    the same family lists the table without data and restores nothing; a key of another family sees nothing."""
    bad, viol = [], []
    req = dict(obs['request'], op='sym.run_restore')
    m = drv.ask(req)
    if 'error' in m and 'snaps' not in m:
        return ['driver error: ' + str(m['error'])], [], {}
    if not m['wf']:
        bad.append(f'the history the implementation went through is not well formed for the model (ops {m["bad_ops"]}): a removal took a chunk of a remaining '
                   'snapshot, or a snapshot recorded a duplicate path / a reference outside its chunk table')
    if not m['names_unique'] or not m['store_is_map']:
        bad.append(f'model store: names_unique={m["names_unique"]} store_is_map={m["store_is_map"]}')
    sec = obs['secrets']
    fam = obs['families']
    remaining = {r['model']: r for r in obs['restores'] if r['model'] is not None}
    stats = {'remaining': len(remaining), 'restores': 0, 'owner': 0, 'shared': 0, 'independent': 0, 'files': 0}
    for k, ms in enumerate(m['snaps']):
        if ms['present'] != (k in remaining):
            bad.append(f'snapshot #{k}: present in the model store = {ms["present"]}, on the real backend = {k in remaining}')
    for k, r in sorted(remaining.items()):
        if k >= len(m['snaps']):
            bad.append(f'snapshot #{k} is unknown to the model')
            continue
        ms = m['snaps'][k]
        if ms['user'] != r['user']:
            bad.append(f'snapshot #{k}: model owner {ms["user"]}, real owner {r["user"]}')
        if ms['table'] != r['table']:
            bad.append(f'snapshot #{k}: the chunk table of the model differs from the one replicat reported')
        if ms['present'] and not ms['as_recorded']:
            bad.append(f'snapshot #{k}: the model restore by the owner is not what the snapshot recorded (the instance of restore_after_run fails)')
        for ent in r['by']:
            j = ent['key']
            stats['restores'] += 1
            if j >= len(ms['by']):
                bad.append(f'snapshot #{k}: key {j} is unknown to the model')
                continue
            mb = ms['by'][j]
            role = 'owner' if j == r['user'] else 'shared' if fam[j] == fam[r['user']] else 'independent'
            stats[role] += 1
            if mb['same_family'] != (fam[j] == fam[r['user']]):
                bad.append(f'snapshot #{k} key {j}: same family in the model = {mb["same_family"]}, by construction = {fam[j] == fam[r["user"]]}')
            # ---- listing
            if ent['bodies_error'] is not None:
                if not isinstance(mb['bodies'], str):
                    bad.append(f'snapshot #{k} key {j} ({role}): model lists {len(mb["bodies"])} bodies, _load_snapshots raised {ent["bodies_error"]}')
            elif isinstance(mb['bodies'], str):
                bad.append(f'snapshot #{k} key {j} ({role}): model listing fails with {mb["bodies"]}, _load_snapshots returned {len(ent["bodies"])} bodies')
            elif mb['bodies'] != ent['bodies']:
                bad.append(f'snapshot #{k} key {j} ({role}): model lists {[(len(b["table"]), b["has_data"]) for b in mb["bodies"]]}, '
                           f'_load_snapshots {[(len(b["table"]), b["has_data"]) for b in ent["bodies"]]} (or other tables)')
            # ---- restore
            mr = mb['restore']
            pred = None
            if mr['outcome'] == 'ok':
                try:
                    pred = {}
                    for f in mr['files']:
                        data = b''.join(sec['bytes'][part[0]['sec']][part[1]:part[2]] for part in f['parts'])
                        md = json.loads(sec['json'][f['md']['sec']])
                        pred[sec['strings'][f['path']['sec']]] = (data, (md or {}).get('st_mtime_ns'))
                except (KeyError, TypeError) as e:
                    bad.append(f'snapshot #{k} key {j}: the model restore returned a term the parser never produced ({e!r})')
                    pred = None
            if ent['error'] is not None:
                if mr['outcome'] == 'ok':
                    bad.append(f'snapshot #{k} key {j} ({role}): model restore succeeds, implementation raised {ent["error"]}')
                elif mr['error'] != ent.get('error_class'):
                    bad.append(f'snapshot #{k} key {j} ({role}): model restore fails with {mr["error"]}, implementation raised {ent["error"]}')
            elif mr['outcome'] != 'ok':
                bad.append(f'snapshot #{k} key {j} ({role}): model restore fails with {mr["error"]}, implementation returned normally')
            elif pred is not None and pred != ent['files']:
                dif = sorted(p for p in set(pred) | set(ent['files']) if pred.get(p) != ent['files'].get(p))
                bad.append(f'snapshot #{k} key {j} ({role}): model restore and real restore differ on {len(dif)} file(s), e.g. {dif[0]!r}: '
                           f'model {_brief(pred.get(dif[0]))} real {_brief(ent["files"].get(dif[0]))}')
            # ---- ground truth
            if role == 'owner':
                if ent['error'] is not None:
                    viol.append(('c14:history-restore:owner-error', f'snapshot #{k} restored by its own key {j} after the history: {ent["error"]}'))
                else:
                    got = {p: v[0] for p, v in ent['files'].items()}
                    if got != r['truth']:
                        dif = sorted(p for p in set(got) | set(r['truth']) if got.get(p) != r['truth'].get(p))
                        viol.append(('c14:history-restore:owner-content', f'snapshot #{k} restored by its own key {j} after the history: {len(dif)} file(s) differ '
                                                                           f'from the snapshotted tree, e.g. {dif[0]!r}'))
                    else:
                        wrong = sorted(p for p, v in ent['files'].items() if r['mtimes'].get(p) is not None and v[1] != r['mtimes'][p])
                        if wrong:
                            viol.append(('c14:history-restore:owner-mtime', f'snapshot #{k} restored by its own key {j}: mtime of {wrong[0]!r} is '
                                                                             f'{ent["files"][wrong[0]][1]}, the source had {r["mtimes"][wrong[0]]}'))
                    stats['files'] += len(ent['files'])
                if ent['bodies'] is not None and ent['bodies'] != [{'table': r['table'], 'has_data': True}]:
                    viol.append(('c14:history-restore:owner-listing', f'snapshot #{k} listed by its own key {j}: {len(ent["bodies"])} bodies / other table / no data'))
            else:
                want = [{'table': r['table'], 'has_data': False}] if role == 'shared' else []
                if ent['error'] is not None or ent['files']:
                    viol.append((f'c14:history-restore:{role}-restore', f'snapshot #{k} of key {r["user"]} restored with {role} key {j}: '
                                                                         f'{ent["error"] or "wrote %d file(s)" % len(ent["files"])}'))
                if ent['bodies'] is not None and ent['bodies'] != want:
                    viol.append((f'c14:history-restore:{role}-view', f'snapshot #{k} of key {r["user"]} listed with {role} key {j}: '
                                                                      f'{[(len(b["table"]), b["has_data"]) for b in ent["bodies"]]}, expected {[(len(b["table"]), b["has_data"]) for b in want]}'))
    return bad, viol, stats


def _brief(v):
    if v is None:
        return 'absent'
    return '%d bytes, mtime %s' % (len(v[0]), v[1])
