"""C03 helpers: the REAL local backend on scratch directories, child processes that are killed (`os._exit`) at a chosen backend
mutation / inside a local upload, and a dict-like view of a repository directory THROUGH the real backend's
`list_files` / `exists` / `download` (what "visible" means)."""
import os
import shutil
import signal
import threading
import time
from pathlib import Path

PHASES = ['temp-created', 'half-written', 'fully-written', 'renamed']


class Hang(BaseException):
    """raised in the main thread of a worker process when a real command does not return in time"""


class time_limit:
    """`with time_limit(s):` — SIGALRM based; only in the main thread of a (worker) process"""

    def __init__(self, seconds):
        self.s = seconds

    def __enter__(self):
        def on_alarm(_sig, _frm):
            raise Hang()
        self.old = signal.signal(signal.SIGALRM, on_alarm)
        signal.setitimer(signal.ITIMER_REAL, self.s)
        return self

    def __exit__(self, *a):
        signal.setitimer(signal.ITIMER_REAL, 0)
        signal.signal(signal.SIGALRM, self.old)
        return False


def local_cls():
    from replicat.backends.local import Local
    return Local


def no_backoff_sleep():
    """the local backend retries through backoff's SYNC path; only `backoff._sync`'s view of `time` is replaced
    (never `asyncio.sleep` itself: replicat's worker loops rely on it to yield)"""
    import backoff._sync

    class _T:
        @staticmethod
        def sleep(_s):
            return None

        def __getattr__(self, n):
            return getattr(time, n)
    if not isinstance(backoff._sync.time, _T) and getattr(backoff._sync.time, '__name__', '') == 'time':
        backoff._sync.time = _T()


def materialize(objects, root):
    """write an object map (name -> bytes) as a local-backend repository directory"""
    root = Path(root)
    shutil.rmtree(root, ignore_errors=True)
    root.mkdir(parents=True)
    for name, data in objects.items():
        p = root / name
        p.parent.mkdir(parents=True, exist_ok=True)
        p.write_bytes(data)


def raw_files(root):
    """every regular file under root (incl. temporaries): relative '/'-path -> bytes"""
    out = {}
    for d, _, fs in os.walk(root):
        for f in fs:
            p = os.path.join(d, f)
            out[os.path.relpath(p, root).replace(os.sep, '/')] = Path(p).read_bytes()
    return out


class DirView:
    """`backend.objects` of a directory repository, as seen through the real Local backend"""

    def __init__(self, backend):
        self.b = backend

    def keys(self):
        return sorted(self.b.real_list(''))

    def __iter__(self):
        return iter(self.keys())

    def __contains__(self, name):
        return self.b.real_exists(name)

    def __getitem__(self, name):
        try:
            return self.b.real_download(name)
        except FileNotFoundError:
            raise KeyError(name)

    def get(self, name, default=None):
        try:
            return self[name]
        except KeyError:
            return default

    def items(self):
        return [(k, self[k]) for k in self.keys()]

    def pop(self, name, default=None):
        self.b.real_delete(name)

    def __delitem__(self, name):
        self.b.real_delete(name)

    def __setitem__(self, name, data):
        local_cls().upload(self.b, name, data)


def make_dir_backend(root):
    """the real `Local` backend plus the recording interface World expects (`trace`, `objects`)"""
    Local = local_cls()

    class DirBackend(Local):
        def __init__(self, path):
            super().__init__(str(path))
            self.trace = []
            self.lock = threading.Lock()
            self.fault = None
            self.objects = DirView(self)

        # unrecorded access for the abstraction
        def real_list(self, prefix):
            return list(Local.list_files(self, prefix))

        def real_exists(self, name):
            return Local.exists(self, name)

        def real_download(self, name):
            return Local.download(self, name)

        def real_delete(self, name):
            return Local.delete(self, name)

        def upload(self, name, data):
            Local.upload(self, name, data)
            with self.lock:
                self.trace.append(('put', name, len(data)))

        def upload_stream(self, name, stream, length, chunk_size=128_000):
            Local.upload_stream(self, name, stream, length, chunk_size)
            with self.lock:
                self.trace.append(('put', name, length))

        def delete(self, name):
            Local.delete(self, name)
            with self.lock:
                self.trace.append(('del', name))

        def mutations(self):
            return [t for t in self.trace if t[0] in ('put', 'del')]
    return DirBackend(root)


class _Armed:
    on = False
    phase = None


def install_upload_hooks():
    """(child only) kill the process inside the real `Local.upload` / `upload_stream` of the armed mutation"""
    import pathlib
    import replicat.backends.local as L
    orig_write_bytes = pathlib.Path.write_bytes
    orig_replace = pathlib.Path.replace
    real_shutil = L.shutil

    def write_bytes(self, data):
        if _Armed.on and _Armed.phase in ('half-written', 'fully-written'):
            n = len(data) // 2 if _Armed.phase == 'half-written' else len(data)
            fd = os.open(str(self), os.O_WRONLY | os.O_TRUNC | os.O_CREAT)
            os.write(fd, bytes(data[:n]))
            os.close(fd)
            os._exit(17)
        return orig_write_bytes(self, data)

    def replace(self, target):
        r = orig_replace(self, target)
        if _Armed.on and _Armed.phase == 'renamed':
            os._exit(17)
        return r

    class Shim:
        def __getattr__(self, n):
            return getattr(real_shutil, n)

        @staticmethod
        def copyfileobj(src, dst, length=0):
            if _Armed.on and _Armed.phase in ('half-written', 'fully-written'):
                data = src.read()
                n = len(data) // 2 if _Armed.phase == 'half-written' else len(data)
                dst.write(data[:n])
                dst.flush()
                os._exit(17)
            return real_shutil.copyfileobj(src, dst, length)
    pathlib.Path.write_bytes = write_bytes
    pathlib.Path.replace = replace
    L.shutil = Shim()


def make_crash_backend(root, log_path, crash_at, phase):
    """(child only) Local backend whose mutating calls are serialised and logged; the process dies at mutation #crash_at:
    phase None = before it starts, else inside the upload (PHASES)"""
    Local = local_cls()
    fd = os.open(log_path, os.O_WRONLY | os.O_CREAT | os.O_APPEND)

    class CrashLocal(Local):
        def __init__(self, path):
            super().__init__(str(path))
            self.mlock = threading.Lock()
            self.count = 0

        def _destination_temp(self, name):
            r = Local._destination_temp(self, name)
            if _Armed.on and _Armed.phase == 'temp-created':
                os._exit(17)
            return r

        def _mut(self, kind, name, fn):
            with self.mlock:
                if self.count == crash_at:
                    if phase is None or kind == 'del':
                        os._exit(17)
                    os.write(fd, f'armed {kind} {name}\n'.encode())
                    _Armed.on, _Armed.phase = True, phase
                fn()
                _Armed.on = False
                self.count += 1
                os.write(fd, f'{kind} {name}\n'.encode())

        def upload(self, name, data):
            self._mut('put', name, lambda: Local.upload(self, name, data))

        def upload_stream(self, name, stream, length, chunk_size=128_000):
            self._mut('put', name, lambda: Local.upload_stream(self, name, stream, length, chunk_size))

        def delete(self, name):
            self._mut('del', name, lambda: Local.delete(self, name))
    return CrashLocal(root)


def run_child(fn, timeout=30):
    """fork; the child runs fn() and exits 0 (or dies earlier through os._exit); → exit status (None = timed out and killed)"""
    pid = os.fork()
    if pid == 0:
        try:
            try:
                devnull = os.open(os.devnull, os.O_WRONLY)
                os.dup2(devnull, 1)
                os.dup2(devnull, 2)
                fn()
                os._exit(0)
            except SystemExit:
                os._exit(3)
            except BaseException:  # noqa: BLE001
                os._exit(4)
        finally:
            os._exit(5)
    t0 = time.time()
    while True:
        p, st = os.waitpid(pid, os.WNOHANG)
        if p == pid:
            return os.waitstatus_to_exitcode(st)
        if time.time() - t0 > timeout:
            os.kill(pid, signal.SIGKILL)
            os.waitpid(pid, 0)
            return None
        time.sleep(0.002)


def read_log(log_path):
    """→ (completed mutations [(kind, name)], armed (kind, name) | None)"""
    done, armed = [], None
    if not os.path.exists(log_path):
        return done, armed
    for ln in Path(log_path).read_text().splitlines():
        parts = ln.split(' ', 2)
        if parts[0] == 'armed':
            armed = (parts[1], parts[2])
        else:
            done.append((parts[0], parts[1]))
            armed = None
    return done, armed
